"""E2 - call graph by class-hierarchy analysis with the repository's dispatch idiom."""
import ast

from .loader import AnalysisError, attr_path, enclosing, walk_no_nested_defs, walk_code, possible_strings, src, call_name, resolve_test_name


class CallGraph:
    def __init__(self, prog):
        self.prog = prog
        self.calls = {}      # Func.qual -> list of (call node, [callee Func])
        self.unresolved = {} # Func.qual -> list of call nodes with no repository callee (builtins, stdlib)
        self.player_class = self._player_class_map()
        for f in prog.funcs.values():
            self._scan(f)

    # ---- dispatch idiom: player constant -> node class -----------------------
    def _player_class_map(self):
        """value(PLAYER_k) -> node class, from StochasticGame.init_states and the helpers it calls:
        `if player == PLAYER_k: ... K(...)` / `return K`, or a dict display {PLAYER_k: K, ...}."""
        out = {}
        q = "tad.py::StochasticGame.init_states"
        if not self.prog.has_func(q):
            return out
        f0 = self.prog.func(q)
        funcs = [f0]
        i = 0
        while i < len(funcs) and len(funcs) < 12:          # helpers of helpers: `_make_state` -> `_node_class_of`
            fi = funcs[i]
            i += 1
            for n in ast.walk(fi.node):
                if isinstance(n, ast.Call):
                    name = n.func.attr if isinstance(n.func, ast.Attribute) else (n.func.id if isinstance(n.func, ast.Name) else None)
                    if name and f0.cls is not None and name in f0.cls.methods and f0.cls.methods[name] not in funcs \
                            and isinstance(n.func, ast.Attribute) and isinstance(n.func.value, ast.Name) and n.func.value.id == "self":
                        funcs.append(f0.cls.methods[name])
                    if name and isinstance(n.func, ast.Name) and name in f0.mod.funcs and f0.mod.funcs[name] not in funcs:
                        funcs.append(f0.mod.funcs[name])
        # module-level tables referenced by those functions: ((PLAYER_k, K), ...) or {PLAYER_k: K, ...}
        for f in funcs:
            for n in ast.walk(f.node):
                if isinstance(n, ast.Name) and isinstance(n.ctx, ast.Load) and n.id in f.mod.consts:
                    tab = f.mod.consts[n.id]
                    pairs = []
                    if isinstance(tab, (ast.Tuple, ast.List)) and tab.elts and all(isinstance(e, (ast.Tuple, ast.List)) and len(e.elts) == 2 for e in tab.elts):
                        pairs = [(e.elts[0], e.elts[1]) for e in tab.elts]
                    elif isinstance(tab, ast.Dict) and tab.keys and all(k is not None for k in tab.keys):
                        pairs = list(zip(tab.keys, tab.values))
                    if pairs and all(isinstance(v, ast.Name) and v.id in self.prog.classes for _, v in pairs):
                        for k, v in pairs:
                            ok, val = self.prog.try_const(k, f.mod)
                            if ok and isinstance(val, str):
                                out.setdefault(val, v.id)
        for f in funcs:
            for n in ast.walk(f.node):
                ntest = resolve_test_name(f.node, n.test) if isinstance(n, ast.If) else None
                if isinstance(n, ast.If) and isinstance(ntest, ast.Compare) and len(ntest.ops) == 1 \
                        and isinstance(ntest.ops[0], ast.Eq):
                    ok, val = self.prog.try_const(ntest.comparators[0], f.mod)
                    if not ok:
                        ok, val = self.prog.try_const(ntest.left, f.mod)
                    if not ok or not isinstance(val, str):
                        continue
                    for st in n.body:
                        for c in ast.walk(st):
                            if isinstance(c, ast.Call) and isinstance(c.func, ast.Name) and c.func.id in self.prog.classes:
                                out.setdefault(val, c.func.id)
                            if isinstance(c, ast.Return) and isinstance(c.value, ast.Name) and c.value.id in self.prog.classes:
                                out.setdefault(val, c.value.id)
                if isinstance(n, (ast.Tuple, ast.List)) and n.elts and all(isinstance(e, (ast.Tuple, ast.List)) and len(e.elts) == 2 and isinstance(e.elts[1], ast.Name)
                                                                            and e.elts[1].id in self.prog.classes for e in n.elts):
                    # a table of (player kind, node class) pairs written in the function itself
                    for e in n.elts:
                        ok, val = self.prog.try_const(e.elts[0], f.mod)
                        if ok and isinstance(val, str):
                            out.setdefault(val, e.elts[1].id)
                if isinstance(n, ast.Dict) and n.keys and all(isinstance(v, ast.Name) and v.id in self.prog.classes for v in n.values):
                    for k, v in zip(n.keys, n.values):
                        ok, val = self.prog.try_const(k, f.mod) if k is not None else (False, None)
                        if ok and isinstance(val, str):
                            out.setdefault(val, v.id)
        return out

    def guard_classes(self, call, recv_name, f):
        """Classes allowed for receiver `recv_name` at `call` by dominating `recv.player == C` /
        `recv.player in [..]` tests (enclosing if-tests only; else-branches negate)."""
        allowed = None
        node = call
        while True:
            parent = getattr(node, "parent", None)
            if parent is None or parent is f.node:
                break
            if isinstance(parent, ast.If) and node is not parent.test:
                in_body = any(node is s for s in parent.body)
                vals = self._player_test(parent.test, recv_name, f)
                if vals is not None:
                    classes = {self.player_class[v] for v in vals if v in self.player_class}
                    if in_body:
                        allowed = classes if allowed is None else allowed & classes
                    else:
                        allc = set(self.player_class.values())
                        allowed = (allc - classes) if allowed is None else allowed - classes
            node = parent
        return allowed

    def _player_test(self, test, recv, f):
        """values v such that test == (recv.player is one of v); None if not that shape."""
        if isinstance(test, ast.BoolOp) and isinstance(test.op, ast.Or):
            acc = []
            for v in test.values:
                r = self._player_test(v, recv, f)
                if r is None:
                    return None
                acc.extend(r)
            return acc
        if isinstance(test, ast.Compare) and len(test.ops) == 1:
            l, r = test.left, test.comparators[0]
            if attr_path(l) == recv + ".player":
                if isinstance(test.ops[0], ast.Eq):
                    ok, v = self.prog.try_const(r, f.mod)
                    return [v] if ok else None
                if isinstance(test.ops[0], ast.In) and isinstance(r, ast.Name):
                    ok, v = self.prog.try_const(r, f.mod)
                    if ok and isinstance(v, (tuple, list, set, frozenset)) and all(isinstance(x, str) for x in v):
                        return list(v)
                    return None
                if isinstance(test.ops[0], ast.In) and isinstance(r, (ast.List, ast.Tuple, ast.Set)):
                    vals = []
                    for e in r.elts:
                        ok, v = self.prog.try_const(e, f.mod)
                        if not ok:
                            return None
                        vals.append(v)
                    return vals
        return None

    # ---- scanning --------------------------------------------------------------
    def _local_ctor_types(self, f):
        """local name -> class name for `x = K(...)` assignments (single assignment form)."""
        out = {}
        for n in walk_no_nested_defs(f.node):
            if isinstance(n, ast.Assign) and len(n.targets) == 1 and isinstance(n.targets[0], ast.Name) \
                    and isinstance(n.value, ast.Call) and isinstance(n.value.func, ast.Name) \
                    and n.value.func.id in self.prog.classes:
                out.setdefault(n.targets[0].id, set()).add(n.value.func.id)
        return out

    def _table(self, g, name):
        """The display a table name stands for: a module-level constant, or a local of g assigned exactly once, to a display."""
        t = g.mod.consts.get(name)
        if t is not None and isinstance(t, (ast.Tuple, ast.List, ast.Dict)):
            return t
        defs = [n for n in walk_no_nested_defs(g.node) if isinstance(n, ast.Assign) and any(isinstance(x, ast.Name) and x.id == name for x in n.targets)]
        stores = [n for n in walk_no_nested_defs(g.node) if isinstance(n, ast.Name) and n.id == name and isinstance(n.ctx, ast.Store)]
        if len(defs) == 1 and len(stores) == 1 and isinstance(defs[0].value, (ast.Tuple, ast.List, ast.Dict)):
            return defs[0].value
        return None

    def _classes_of_expr(self, g, e, depth):
        """Class names an expression of function g can evaluate to: a class name, a conditional between such, a look-up in a
        module-level table whose values are class names (`TABLE[x]`, `TABLE.get(x[, default])`), a local assigned from those."""
        prog = self.prog
        if depth > 3 or e is None:
            return set()
        if isinstance(e, ast.Name):
            if e.id in prog.classes:
                return {e.id}
            out = set()
            for n in walk_no_nested_defs(g.node):
                if isinstance(n, ast.Assign) and any(isinstance(t, ast.Name) and t.id == e.id for t in n.targets):
                    out |= self._classes_of_expr(g, n.value, depth + 1)
                # `for key, cls in TABLE:` over a module-level table of (key, class) pairs
                if isinstance(n, (ast.For, ast.comprehension)) and isinstance(n.iter, ast.Name) and self._table(g, n.iter.id) is not None:
                    t = self._table(g, n.iter.id)
                    rows = t.elts if isinstance(t, (ast.Tuple, ast.List)) else (list(t.values) if isinstance(t, ast.Dict) else [])
                    tg = n.target
                    if isinstance(tg, ast.Name) and tg.id == e.id:
                        out |= {r.id for r in rows if isinstance(r, ast.Name) and r.id in prog.classes}
                    elif isinstance(tg, (ast.Tuple, ast.List)):
                        for i, x in enumerate(tg.elts):
                            if isinstance(x, ast.Name) and x.id == e.id:
                                for r in rows:
                                    if isinstance(r, (ast.Tuple, ast.List)) and i < len(r.elts) and isinstance(r.elts[i], ast.Name) and r.elts[i].id in prog.classes:
                                        out.add(r.elts[i].id)
            return out
        if isinstance(e, ast.IfExp):
            return self._classes_of_expr(g, e.body, depth + 1) | self._classes_of_expr(g, e.orelse, depth + 1)
        if isinstance(e, ast.Call) and isinstance(e.func, ast.Name) and e.func.id == "next" and e.args and isinstance(e.args[0], (ast.GeneratorExp, ast.ListComp)):
            # next((cls for kind, cls in TABLE if kind == x), default)
            out = self._classes_of_expr(g, e.args[0].elt, depth + 1)
            if len(e.args) > 1:
                out |= self._classes_of_expr(g, e.args[1], depth + 1)
            return out
        table = None
        extra = set()
        if isinstance(e, ast.Subscript) and isinstance(e.value, ast.Name):
            table = e.value.id
        elif isinstance(e, ast.Call) and isinstance(e.func, ast.Attribute) and e.func.attr == "get" and isinstance(e.func.value, ast.Name):
            table = e.func.value.id
            if len(e.args) > 1:
                extra = self._classes_of_expr(g, e.args[1], depth + 1)
        if table is not None and self._table(g, table) is not None:
            t = self._table(g, table)
            vals = t.values if isinstance(t, ast.Dict) else (t.elts if isinstance(t, (ast.Tuple, ast.List)) else [])
            out = set(extra)
            for v in vals:
                if isinstance(v, ast.Name) and v.id in prog.classes:
                    out.add(v.id)
                elif isinstance(v, (ast.Tuple, ast.List)):
                    out |= {x.id for x in v.elts if isinstance(x, ast.Name) and x.id in prog.classes}
            return out
        return set()

    def resolve(self, call, f, ctor_types=None):
        """Callee Funcs of a Call node inside Func f (possibly empty = not a repository function)."""
        prog = self.prog
        fn = call.func
        if isinstance(fn, ast.Name):
            name = fn.id
            if name in prog.classes:
                init = prog.resolve_method(name, "__init__")
                return [init] if init else []
            if name in f.mod.funcs:
                return [f.mod.funcs[name]]
            # a local holding a class returned by a helper: `cls = self._pick(...); cls(...)`
            out = []
            for n in walk_no_nested_defs(f.node):
                if isinstance(n, ast.Assign) and len(n.targets) == 1 and isinstance(n.targets[0], ast.Name) and n.targets[0].id == name \
                        and isinstance(n.value, ast.Call) and n.value is not call:
                    for g in self.resolve(n.value, f, ctor_types):
                        for r in ast.walk(g.node):
                            if isinstance(r, ast.Return) and r.value is not None:
                                for cname in self._classes_of_expr(g, r.value, 0):
                                    init = prog.resolve_method(cname, "__init__")
                                    if init and init not in out:
                                        out.append(init)
            if out:
                return out
            # a local that holds a class picked from a table / a conditional: `cls = next((c for k, c in TABLE if k == x), None); cls(...)`
            for cname in sorted(self._classes_of_expr(f, fn, 0)):
                init = prog.resolve_method(cname, "__init__")
                if init and init not in out:
                    out.append(init)
            if out:
                return out
            if name in f.mod.imports:
                m2, attr = f.mod.imports[name]
                if attr and m2 in prog.mods:
                    if attr in prog.mods[m2].funcs:
                        return [prog.mods[m2].funcs[attr]]
                    if attr in prog.mods[m2].classes:
                        init = prog.resolve_method(attr, "__init__")
                        return [init] if init else []
            return []
        if isinstance(fn, ast.Attribute):
            meth = fn.attr
            recv = fn.value
            # super().m()
            if isinstance(recv, ast.Call) and isinstance(recv.func, ast.Name) and recv.func.id == "super" and f.cls:
                for b in prog.mro(f.cls.name)[1:]:
                    m = prog.classes[b].methods.get(meth)
                    if m:
                        return [m]
                return []
            # module.func()
            if isinstance(recv, ast.Name) and recv.id in f.mod.imports and f.mod.imports[recv.id][1] is None:
                m2 = f.mod.imports[recv.id][0] + ".py"
                if m2 in prog.mods and meth in prog.mods[m2].funcs:
                    return [prog.mods[m2].funcs[meth]]
                return []
            # self.m()
            if isinstance(recv, ast.Name) and recv.id == "self" and f.cls:
                out = []
                for c in prog.subclasses(f.cls.name):
                    m = prog.resolve_method(c, meth)
                    if m and m not in out:
                        out.append(m)
                return out
            ctor_types = ctor_types if ctor_types is not None else self._local_ctor_types(f)
            if isinstance(recv, ast.Name) and recv.id in ctor_types:
                out = []
                for c in ctor_types[recv.id]:
                    m = prog.resolve_method(c, meth)
                    if m and m not in out:
                        out.append(m)
                return out
            # CHA by method name, refined by the player guard
            cands = [c.name for c in prog.classes_defining(meth)]
            if not cands:
                return []
            recv_name = attr_path(recv)
            allowed = None
            if recv_name:
                allowed = self.guard_classes(call, recv_name, f)
            out = []
            universe = set()
            for c in cands:
                universe.update(prog.subclasses(c))
            for c in sorted(universe):
                if allowed is not None and c not in allowed:
                    continue
                m = prog.resolve_method(c, meth)
                if m and m not in out and self._arity_fits(call, m):
                    out.append(m)
            return out
        return []

    @staticmethod
    def _arity_fits(call, m):
        """False if calling method m with this call's arguments would be a TypeError (too many / too few / unknown keyword):
        such a class cannot be the receiver's class on any run that gets past this call."""
        if any(isinstance(a, ast.Starred) for a in call.args) or any(k.arg is None for k in call.keywords):
            return True
        a = m.node.args
        if a.vararg or a.kwarg:
            return True
        params = [x.arg for x in a.posonlyargs + a.args]
        if params and params[0] in ("self", "cls") and not any(isinstance(d, ast.Name) and d.id == "staticmethod" for d in m.node.decorator_list):
            params = params[1:]
        if len(call.args) > len(params):
            return False
        kwonly = [x.arg for x in a.kwonlyargs]
        for k in call.keywords:
            if k.arg not in params and k.arg not in kwonly:
                return False
        n_default = len(a.defaults)
        required = params[:len(params) - n_default] if n_default else params
        given = set(params[:len(call.args)]) | {k.arg for k in call.keywords}
        return all(p in given for p in required)

    def _scan(self, f):
        """Call edges of f.  Code in lambdas and nested functions belongs to f.  A method that escapes as a value
        (`self.m` not called on the spot, operator.methodcaller("m"), getattr(x, "m")) is treated as called here: the
        edge carries a synthetic Call node (attribute `synthetic`)."""
        ct = self._local_ctor_types(f)
        edges, unres = [], []
        called_funcs = set()
        for n in walk_code(f.node):
            if isinstance(n, ast.Call):
                called_funcs.add(id(n.func))
        for n in walk_code(f.node):
            if isinstance(n, ast.Call):
                cs = self.resolve(n, f, ct)
                if cs:
                    edges.append((n, cs))
                else:
                    unres.append(n)
                nm = call_name(n)
                names = None
                if nm in ("methodcaller", "operator.methodcaller") and n.args:
                    names = possible_strings(self.prog, f, n.args[0])
                elif nm == "getattr" and len(n.args) >= 2:
                    names = possible_strings(self.prog, f, n.args[1])
                for name in sorted(names or ()):
                    cs = []
                    for c in self.prog.classes_defining(name):
                        for sub in self.prog.subclasses(c.name):
                            m = self.prog.resolve_method(sub, name)
                            if m and m not in cs:
                                cs.append(m)
                    if cs:
                        edges.append((self._synthetic(n, ast.Attribute(value=ast.Name(id="<dynamic>", ctx=ast.Load()), attr=name, ctx=ast.Load())), cs))
            elif isinstance(n, ast.Attribute) and isinstance(n.ctx, ast.Load) and id(n) not in called_funcs \
                    and isinstance(n.value, ast.Name) and n.value.id == "self" and f.cls is not None:
                cs = []
                for c in self.prog.subclasses(f.cls.name):
                    m = self.prog.resolve_method(c, n.attr)
                    if m and m not in cs:
                        cs.append(m)
                if cs:
                    edges.append((self._synthetic(n, n), cs))
            elif isinstance(n, ast.Name) and isinstance(n.ctx, ast.Load) and id(n) not in called_funcs and n.id in f.mod.funcs \
                    and not any(isinstance(x, ast.Name) and isinstance(x.ctx, ast.Store) and x.id == n.id for x in walk_code(f.node)) and n.id not in f.params:
                edges.append((self._synthetic(n, n), [f.mod.funcs[n.id]]))
        self.calls[f.qual] = edges
        self.unresolved[f.qual] = unres

    @staticmethod
    def _synthetic(at, func_expr):
        c = ast.Call(func=func_expr, args=[], keywords=[])
        ast.copy_location(c, at)
        for x in ast.walk(c):
            if not hasattr(x, "lineno"):
                ast.copy_location(x, at)
        c.parent = getattr(at, "parent", None)
        c.synthetic = True
        return c

    # ---- queries -----------------------------------------------------------------
    def classes_defining_name(self, meth):
        return [c for c in self.prog.classes.values() if meth in c.methods]

    def callees(self, f):
        out = []
        for _, cs in self.calls.get(f.qual, []):
            for c in cs:
                if c not in out:
                    out.append(c)
        return out

    def call_sites(self, f):
        home = self.prog.funcs.get(f.qual)
        if home is not None and home.node is not f.node:
            # a view of the function (helpers written back in, options at their defaults): its own call nodes
            cache = self.__dict__.setdefault("_view_sites", {})
            if id(f.node) not in cache:
                from .loader import walk_no_nested_defs
                cache[id(f.node)] = [(c, self.resolve(c, f)) for c in walk_no_nested_defs(f.node) if isinstance(c, ast.Call)]
            return cache[id(f.node)]
        return self.calls.get(f.qual, [])

    def reachable(self, roots):
        """Funcs reachable from root Funcs (roots included)."""
        seen, todo = [], list(roots)
        while todo:
            f = todo.pop()
            if f in seen:
                continue
            seen.append(f)
            todo.extend(self.callees(f))
        return seen

    def callers_of(self, target):
        out = []
        for q, edges in self.calls.items():
            for call, cs in edges:
                if target in cs:
                    out.append((self.prog.funcs[q], call))
        return out

    def cycles(self, within):
        """Functions of `within` that lie on a call cycle (including self-recursion)."""
        within = list(within)
        idx = {f.qual: f for f in within}
        out = []
        for f in within:
            # is f reachable from one of its callees?
            seen, todo = set(), [c for c in self.callees(f) if c.qual in idx]
            while todo:
                g = todo.pop()
                if g.qual in seen:
                    continue
                seen.add(g.qual)
                todo.extend(c for c in self.callees(g) if c.qual in idx)
            if f.qual in seen:
                out.append(f)
        return out

    def path(self, src_f, dst_f):
        """One call path src -> dst as list of Funcs, or None."""
        prev = {src_f.qual: None}
        todo = [src_f]
        while todo:
            f = todo.pop(0)
            if f is dst_f:
                out = []
                q = f.qual
                while q is not None:
                    out.append(self.prog.funcs[q])
                    q = prev[q]
                return list(reversed(out))
            for c in self.callees(f):
                if c.qual not in prev:
                    prev[c.qual] = f.qual
                    todo.append(c)
        return None
