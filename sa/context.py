"""Shared analysis context: program, call graph, per-function CFG cache."""
from .loader import Program, AnalysisError
from .callgraph import CallGraph
from .cfg import CFG


class Ctx:
    def __init__(self, repo=None, modules=None):
        self.prog = Program(repo, modules)
        self._cg = None
        self._cfgs = {}
        self._raising = None
        self.cache = {}

    @property
    def cg(self):
        if self._cg is None:
            self._cg = CallGraph(self.prog)
        return self._cg

    def cfg(self, f):
        key = (f.qual, id(f.node))        # a pipeline view and the function it was made from share the qualified name
        if key not in self._cfgs:
            self._cfgs[key] = CFG(f.node)
        return self._cfgs[key]

    def func(self, qual):
        return self.prog.func(qual)
