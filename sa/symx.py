"""E6 - path-merging symbolic executor and loop summariser.

Executes a (small) function abstractly: locals map to *terms*, `if` branches are merged into `ite`
terms, a loop is executed once with its carried variables replaced by accumulator symbols, which
yields per-variable update terms; `classify()` then recognises the fold idioms (SUM, MAX/MIN with
ARG, ARGSET, FILTER/COLLECT).  Syntactic variants (tuple unpacking vs. constant subscripts,
temporaries, nested if vs. elif, max()/min()/sum() built-ins) converge to the same terms.

Nothing of the analysed program is executed: terms are uninterpreted except for constant folding
and the algebraic normalisations listed in `simp`.
"""
import ast
import itertools

from .loader import AnalysisError, NotConst, attr_path, src, call_name


class Unsupported(AnalysisError):
    pass


UNBOUND = ("unbound",)
TRUE, FALSE = ("c", True), ("c", False)


def C(v):
    return ("c", v)


def key(t):
    return repr(t)


def _is_bool(t, val):
    """Strict test for the constants True / False (1 == True in Python, so tuple equality is not enough)."""
    return isinstance(t, tuple) and len(t) == 2 and t[0] == "c" and t[1] is val


def is_const(t):
    return isinstance(t, tuple) and t and t[0] == "c"


# keyword arguments are kept as (name, term) pairs inside call / mcall / apply terms; a pair whose name happens to be a
# term head of another arity (`idx=idx` in the node constructors) must not be mistaken for a term by the generic walkers
_ARITY_NOT_2 = {"idx": 3, "attr": 3, "cmp": 4, "ite": 4, "call": 4, "mcall": 5, "apply": 4, "div": 3, "cat": 3, "strcat": 3, "acc": 3, "res": 3,
                "slice": 5, "repeat": 3, "setitem": 4, "sf": 3, "fmt": 4, "pow": 3, "mod": 3, "floordiv": 3}


def is_term(x):
    return isinstance(x, tuple) and bool(x) and isinstance(x[0], str) and not (len(x) == 2 and x[0] in _ARITY_NOT_2)


def mentions(t, pred):
    if not isinstance(t, tuple):
        return False
    if is_term(t) and pred(t):
        return True
    return any(mentions(x, pred) for x in t if isinstance(x, tuple))


def mentions_acc(t, loopid=None):
    return mentions(t, lambda x: x and x[0] == "acc" and (loopid is None or x[1] == loopid))


def _deep_mentions_acc(t, loop, depth=0):
    """t reads an accumulator of `loop` inside a comprehension or nested loop it refers to."""
    loops = getattr(loop, "all_loops", None)
    if loops is None or depth > 4 or not isinstance(t, tuple):
        return False
    found = []

    def walk(x):
        if isinstance(x, tuple):
            if x and x[0] in ("compr", "res") and len(x) > 1 and x[1] in loops and x[1] != loop.id:
                found.append(loops[x[1]])
            for y in x:
                walk(y)
    walk(t)
    for L2 in found:
        terms = [L2.source, L2.elt] + list(L2.filters or []) + list(L2.update.values()) + list(L2.init.values())
        for u in terms:
            if isinstance(u, tuple) and (mentions_acc(u, loop.id) or _deep_mentions_acc(u, loop, depth + 1)):
                return True
    return False


def subst(t, f):
    """Bottom-up rewrite: f(term) -> replacement or None."""
    if not isinstance(t, tuple) or not t:
        return t
    is_term = globals()["is_term"](t)
    if is_term:
        r = f(t)
        if r is not None:
            return r
    new = tuple(subst(x, f) if isinstance(x, tuple) else x for x in t)
    if new != t:
        return simp(new) if is_term else new
    return t


# ---- simplifier ------------------------------------------------------------------

def _dict_of_zip(z):
    """dict(zip(KEYS, VALUES)) with literal keys: a dict display (VALUES[i] when VALUES is not itself a display)"""
    K, V = z[2]
    if K[0] not in ("tup", "list") or not all(is_const(k) for k in K[1]):
        return None
    if V[0] in ("tup", "list"):
        if len(V[1]) != len(K[1]):
            return None
        return ("dict", tuple(zip(K[1], V[1])))
    return ("dict", tuple((k, simp(("idx", V, C(i)))) for i, k in enumerate(K[1])))


def _membership_base(b):
    """`x in set(L)`, `x in frozenset(L)`, `x in list(L)`, `x in sorted(L)` ask the same question as `x in L` (for hashable x -
    an unhashable x cannot be an element of a list of state numbers either); likewise a conditional between L and a set of L."""
    while b[0] == "call" and b[1] in ("set", "frozenset", "list", "tuple", "sorted") and len(b[2]) == 1 and not b[3]:
        b = b[2][0]
    if b[0] == "ite":
        x, y = _membership_base(b[2]), _membership_base(b[3])
        if x == y:
            return x
    return b


def simp(t):
    if not isinstance(t, tuple) or not t:
        return t
    h = t[0]
    if h == "add":
        items = []
        const = 0
        for x in t[1]:
            if x[0] == "add":
                items.extend(x[1])
            else:
                items.append(x)
        rest = []
        for x in items:
            if is_const(x) and isinstance(x[1], (int, float)) and not isinstance(x[1], bool):
                const += x[1]
            else:
                rest.append(x)
        # x + (-x) cancels
        for x in list(rest):
            if x[0] == "neg" and x in rest and x[1] in rest:
                rest.remove(x)
                rest.remove(x[1])
        rest.sort(key=key)
        if const != 0 or not rest:
            rest.append(C(const))
        if len(rest) == 1:
            return rest[0]
        return ("add", tuple(rest))
    if h == "mul":
        items = []
        for x in t[1]:
            if x[0] == "mul":
                items.extend(x[1])
            else:
                items.append(x)
        const = 1
        rest = []
        for x in items:
            if is_const(x) and isinstance(x[1], (int, float)) and not isinstance(x[1], bool):
                const *= x[1]
            else:
                rest.append(x)
        rest.sort(key=key)
        if const != 1 or not rest:
            rest.append(C(const))
        if len(rest) == 1:
            return rest[0]
        return ("mul", tuple(rest))
    if h == "neg":
        x = t[1]
        if is_const(x) and isinstance(x[1], (int, float)):
            return C(-x[1])
        if x[0] == "neg":
            return x[1]
        return t
    if h == "ite":
        c, a, b = t[1], t[2], t[3]
        if c == TRUE:
            return a
        if c == FALSE:
            return b
        if a == b:
            return a
        if c[0] == "not":
            return simp(("ite", c[1], b, a))
        if _is_bool(a, True) and _is_bool(b, False):
            return c
        if _is_bool(a, False) and _is_bool(b, True):
            return simp(("not", c))
        if _is_bool(a, True) and b[0] == "cmp" and b[1] == "==" and c[0] == "and":
            # (True if x is None and y is None else x == y) is x == y: None equals None
            def _is_none(x):
                return ("cmp", "is", x, C(None)) in c[1] or ("cmp", "is", C(None), x) in c[1] or ("cmp", "==", x, C(None)) in c[1] or ("cmp", "==", C(None), x) in c[1]
            if len(c[1]) == 2 and _is_none(b[2]) and _is_none(b[3]):
                return b
        if b[0] == "ite" and b[2] == a and c[0] == "and" and (b[1] in c[1] or (b[1][0] == "and" and all(k in c[1] for k in b[1][1]))):
            return b                    # (v if A and B else (v if A else z)) is (v if A else z)
        a2, b2 = assume(a, c, True), assume(b, c, False)
        if (a2, b2) != (a, b):
            return simp(("ite", c, a2, b2))
        return t
    if h == "not":
        x = t[1]
        if x == TRUE:
            return FALSE
        if x == FALSE:
            return TRUE
        if x[0] == "not":
            return x[1]
        if x[0] == "cmp":
            inv = {"==": "!=", "!=": "==", "in": "notin", "notin": "in", "is": "isnot", "isnot": "is"}
            if x[1] in inv:
                return ("cmp", inv[x[1]], x[2], x[3])
            if x[1] == "<":      # not (a < b)  ==  b <= a
                return ("cmp", "<=", x[3], x[2])
            if x[1] == "<=":
                return ("cmp", "<", x[3], x[2])
        import os as _os
        if x[0] in ("and", "or") and not _os.environ.get("SA_NODEMORGAN"):
            # De Morgan: the negation goes to the atoms, so `not (a != 0 or not b)` and `a == 0 and b` are one term
            return simp(("or" if x[0] == "and" else "and", tuple(simp(("not", y)) for y in x[1])))
        return t
    if h in ("and", "or"):
        items = []
        for x in t[1]:
            if x[0] == h:
                items.extend(x[1])
            else:
                items.append(x)
        unit, zero = (TRUE, FALSE) if h == "and" else (FALSE, TRUE)
        out = []
        for x in items:
            if x == unit:
                continue
            if x == zero:
                return zero
            if x not in out:
                out.append(x)
        if not out:
            return unit
        if len(out) == 1:
            return out[0]
        return (h, tuple(out))
    if h == "cmp":
        op, a, b = t[1], t[2], t[3]
        if op in ("in", "notin"):
            b2 = _membership_base(b)
            if b2 != b:
                return simp(("cmp", op, a, b2))
        if op == ">":
            return simp(("cmp", "<", b, a))
        if op == ">=":
            return simp(("cmp", "<=", b, a))
        if op in ("==", "!=") and key(a) > key(b):
            a, b = b, a
            t = ("cmp", op, a, b)
        if op in ("in", "notin") and is_const(a) and b[0] in ("tup", "list") and all(is_const(x) for x in b[1]) \
                and all(isinstance(x[1], (str, int, float, type(None))) for x in b[1] + (a,)):
            hit = any(x[1] == a[1] for x in b[1])
            return C(hit if op == "in" else not hit)
        if op in ("is", "isnot") and is_const(a) and is_const(b) and (a[1] is None or b[1] is None):
            same = a[1] is None and b[1] is None
            return C(same if op == "is" else not same)
        if op in ("is", "isnot", "==", "!=") and C(None) in (a, b):
            o = b if a == C(None) else a
            if o[0] == "ite":
                # (None if c else xs) is None: decided branch by branch
                return simp(("ite", o[1], simp(("cmp", op, o[2], C(None))), simp(("cmp", op, o[3], C(None)))))
            if o[0] in ("list", "tup", "dict", "set", "compr", "cat") or (o[0] == "call" and o[1] in ("list", "set", "dict", "tuple", "frozenset", "sorted", "len", "range")):
                return C(op in ("isnot", "!="))          # a freshly built container is not None
        if is_const(a) and is_const(b) and op in ("<", "<=", "==", "!="):
            try:
                return C({"<": a[1] < b[1], "<=": a[1] <= b[1], "==": a[1] == b[1], "!=": a[1] != b[1]}[op])
            except TypeError:
                return t
        return t
    if h == "idx":
        base, i = t[1], t[2]
        if base[0] in ("tup", "list") and is_const(i) and isinstance(i[1], int) and -len(base[1]) <= i[1] < len(base[1]):
            return base[1][i[1]]
        if base[0] == "dict" and is_const(i) and all(is_const(k) for k, _ in base[1]):
            hits = [v for k, v in base[1] if k == i and type(k[1]) is type(i[1])]
            if hits:
                return hits[-1]
        if base[0] == "dict" and len(base[1]) == 2 and {k for k, _ in base[1]} == {C(True), C(False)} \
                and ((i[0] == "call" and i[1] == "bool" and len(i[2]) == 1 and not i[3]) or i[0] in ("truthy", "not")):
            # TABLE[bool(flag)] with the two entries True / False: one or the other
            c = ("truthy", i[2][0]) if i[0] == "call" else i
            d = dict(base[1])
            return simp(("ite", c, d[C(True)], d[C(False)]))
        if base[0] == "call" and base[1] == "dict" and len(base[2]) == 1 and not base[3]:
            return simp(("idx", base[2][0], i))            # dict(d)[k] == d[k]
        if base[0] == "call" and base[1] == "range" and len(base[2]) == 1 and not base[3] and not (is_const(i) and (not isinstance(i[1], int) or i[1] < 0)) \
                and i[0] in ("elem", "v", "c", "pos"):
            return i                                       # range(n)[k] is k (for a k the program can use there without an IndexError)
        if base[0] == "call" and base[1] == "vars" and len(base[2]) == 1 and not base[3] and is_const(i) and isinstance(i[1], str) and i[1].isidentifier():
            return simp(("attr", base[2][0], i[1]))        # vars(ns)["x"] == ns.x for a plain namespace object
        if base[0] == "call" and base[1] in ("tuple", "list") and len(base[2]) == 1 and not base[3] and is_const(i) and isinstance(i[1], int) \
                and base[2][0][0] in ("slice", "mcall", "call", "v", "res", "tup", "list"):
            return simp(("idx", base[2][0], i))            # tuple(s)[k] == s[k]
        if base[0] == "slice" and is_const(i) and isinstance(i[1], int) and not isinstance(i[1], bool) and i[1] >= 0 and is_const(base[2]) \
                and isinstance(base[2][1], int) and not isinstance(base[2][1], bool) and base[2][1] > 0 and base[3] == C(None) and base[4] in (C(None), C(1)):
            return simp(("idx", base[1], C(base[2][1] + i[1])))          # s[a:][k] == s[a + k]
        if base[0] == "slice" and is_const(i) and isinstance(i[1], int) and not isinstance(i[1], bool) and i[1] >= 0 and base[2] in (C(None), C(0)) \
                and base[4] in (C(None), C(1)) and is_const(base[3]) and isinstance(base[3][1], int) and i[1] < base[3][1]:
            return simp(("idx", base[1], i))               # s[:n][k] == s[k] for 0 <= k < n (both fail alike when s is shorter)
        if is_const(base) and isinstance(base[1], dict) and is_const(i):
            try:
                if i[1] in base[1]:
                    return C(base[1][i[1]])
            except TypeError:
                pass
        if base[0] == "ite":
            a, b = simp(("idx", base[2], i)), simp(("idx", base[3], i))
            if a[0] != "idx" or b[0] != "idx":
                return simp(("ite", base[1], a, b))
        return t
    if h == "mcall" and t[2] == "get" and t[1][0] == "dict" and 1 <= len(t[3]) <= 2 and not t[4] and is_const(t[3][0]) \
            and all(is_const(k) for k, _ in t[1][1]):
        hits = [v for k, v in t[1][1] if k == t[3][0]]
        return hits[-1] if hits else (t[3][1] if len(t[3]) == 2 else C(None))
    if h == "mcall" and t[2] == "format" and is_const(t[1]) and isinstance(t[1][1], str) and not t[4] and not any(a[0] == "star" for a in t[3]):
        # "a{}b{}".format(x, y) == "a" + str(x) + "b" + str(y)   (plain fields only)
        import string
        try:
            parts = list(string.Formatter().parse(t[1][1]))
        except ValueError:
            return t
        out, auto, okf = C(""), 0, True
        for lit, field, spec, conv in parts:
            if lit:
                out = simp(("strcat", out, C(lit)))
            if field is None:
                continue
            if spec or conv or not (field == "" or field.isdigit()):
                okf = False
                break
            k = auto if field == "" else int(field)
            auto += 1
            if k >= len(t[3]):
                okf = False
                break
            a = t[3][k]
            out = simp(("strcat", out, a if (is_const(a) and isinstance(a[1], str)) else ("call", "str", (a,), ())))
        if okf:
            return out
        return t
    if h == "mcall" and t[2] == "join" and is_const(t[1]) and isinstance(t[1][1], str) and len(t[3]) == 1 and not t[4]:
        arg = t[3][0]
        if arg[0] in ("list", "tup"):
            out = None
            for i, x in enumerate(arg[1]):
                out = x if out is None else simp(("strcat", simp(("strcat", out, t[1])), x))
            return out if out is not None else C("")
        if arg[0] == "ite":
            return simp(("ite", arg[1], simp(("mcall", t[1], "join", (arg[2],), ())), simp(("mcall", t[1], "join", (arg[3],), ()))))
        return t
    if h == "flatten" and t[1][0] in ("list", "tup"):
        # flatten([A, B, C]) == A + B + C
        out = None
        for x in t[1][1]:
            out = x if out is None else simp(("cat", out, x))
        return out if out is not None else ("list", ())
    if h == "cat":
        a, b = t[1], t[2]
        if a[0] == "list" and b[0] == "list":
            return ("list", a[1] + b[1])
        return t
    if h == "truthy":
        x = t[1]
        if is_const(x):
            return C(bool(x[1]))
        if x[0] == "list":
            return C(len(x[1]) > 0)
        if x[0] in ("truthy", "cmp", "not", "and", "or"):
            return x                       # the truth value of a truth value
        return t
    if h == "strcat":
        a, b = t[1], t[2]
        if is_const(a) and is_const(b) and isinstance(a[1], str) and isinstance(b[1], str):
            return C(a[1] + b[1])
        if is_const(b) and b[1] == "":
            return a
        if is_const(a) and a[1] == "":
            return b
        return t
    if h == "boolval":
        # value of `a and b` / `a or b`: constants decide from the left
        op, vals = t[1], list(t[2])
        out = []
        for i, v in enumerate(vals):
            if is_const(v):
                if bool(v[1]) == (op == "or"):
                    out.append(v)          # `x or True...`: evaluation stops here
                    break
                if i == len(vals) - 1:
                    out.append(v)
                continue                    # neutral constant in front of further operands
            out.append(v)
        if len(out) == 1:
            return out[0]
        if not out:
            return vals[-1]
        return ("boolval", op, tuple(out)) if tuple(out) != t[2] else t
    if h == "setitem" and t[1][0] == "ite" and is_const(t[2]) and all(x[0] in ("dict", "ite") for x in (t[1][2], t[1][3])):
        return simp(("ite", t[1][1], simp(("setitem", t[1][2], t[2], t[3])), simp(("setitem", t[1][3], t[2], t[3]))))
    if h == "setitem" and t[1][0] == "dict" and is_const(t[2]):
        items = [(k, v) for k, v in t[1][1] if k != t[2]]
        if len(items) == len(t[1][1]):
            return ("dict", tuple(items) + ((t[2], t[3]),))
        return ("dict", tuple((k, (t[3] if k == t[2] else v)) for k, v in t[1][1]))
    if h == "call" and t[1] == "dict" and len(t[2]) == 1 and not t[3] and t[2][0][0] == "dict":
        return t[2][0]                                  # dict(D): a copy, the same value
    if h == "call" and t[1] == "dict" and len(t[2]) == 1 and not t[3] and t[2][0][0] == "call" and t[2][0][1] == "zip" and len(t[2][0][2]) == 2:
        d = _dict_of_zip(t[2][0])
        if d is not None:
            return d
    if h == "slice" and t[1][0] in ("tup", "list") and all(is_const(x) and (x[1] is None or (isinstance(x[1], int) and not isinstance(x[1], bool))) for x in t[2:5]) \
            and t[4][1] != 0:
        return (t[1][0], tuple(t[1][1][slice(t[2][1], t[3][1], t[4][1])]))      # a slice of a display with constant bounds
    if h == "call" and t[1] == "tuple" and len(t[2]) == 1 and not t[3] and t[2][0][0] == "tup":
        return t[2][0]
    if h == "call" and t[1] == "len" and len(t[2]) == 1 and not t[3] and t[2][0][0] in ("list", "tup") and not any(x[0] == "star" for x in t[2][0][1]):
        return C(len(t[2][0][1]))                      # len of a display
    if h == "call" and t[1] in ("list", "tuple") and len(t[2]) == 1 and not t[3] and t[2][0][0] == "call" and t[2][0][1] == "range" and len(t[2][0][2]) == 1 \
            and is_const(t[2][0][2][0]) and isinstance(t[2][0][2][0][1], int) and not isinstance(t[2][0][2][0][1], bool) and 0 <= t[2][0][2][0][1] <= 64:
        return ("list" if t[1] == "list" else "tup", tuple(C(i) for i in range(t[2][0][2][0][1])))      # list(range(n)) for a small constant n
    if h == "call":
        name, args = t[1], t[2]
        if name == "abs" and len(args) == 1:
            x = args[0]
            if is_const(x) and isinstance(x[1], (int, float)):
                return C(abs(x[1]))
            n = negate(x)
            if key(n) < key(x):
                return ("call", "abs", (n,), t[3])
        if name in ("max", "min") and len(args) == 1 and args[0][0] in ("list", "tup") and len(args[0][1]) > 1 and not t[3]:
            return simp(("call", name, args[0][1], t[3]))
        if name in ("max", "min") and len(args) > 1 and not t[3]:
            return ("call", name, tuple(sorted(args, key=key)), t[3])
        return t
    return t


def deep_simp(t):
    """simp applied bottom-up at every node (after substitutions that leave parents unsimplified)."""
    if not isinstance(t, tuple) or not t:
        return t
    if is_term(t):
        new = (t[0],) + tuple(deep_simp(x) if isinstance(x, tuple) else x for x in t[1:])
        if new[0] == "truthy" and new[1][0] == "ite":
            return deep_simp(("ite", new[1][1], ("truthy", new[1][2]), ("truthy", new[1][3])))
        if new[0] == "ite" and new[2] == new[3]:
            return new[2]
        if new[0] == "ite" and _is_bool(new[1], True):
            return new[2]
        if new[0] == "ite" and _is_bool(new[1], False):
            return new[3]
        if new[0] == "ite" and _is_bool(new[2], True) and _is_bool(new[3], False):
            return new[1]
        if new[0] in ("and", "or"):
            neutral, absorbing = (True, False) if new[0] == "and" else (False, True)
            items = [x for x in new[1] if not _is_bool(x, neutral)]
            if any(_is_bool(x, absorbing) for x in items):
                return C(absorbing)
            neutral = C(neutral)
            if not items:
                return neutral
            if len(items) == 1:
                return items[0]
            new = (new[0], tuple(items))
        return simp(new)
    if isinstance(t[0], str):          # a (keyword name, term) pair
        return (t[0],) + tuple(deep_simp(x) if isinstance(x, tuple) else x for x in t[1:])
    return tuple(deep_simp(x) if isinstance(x, tuple) else x for x in t)


def assume(t, c, val):
    """Simplify t under the assumption that boolean term c has truth value val."""
    if not isinstance(t, tuple) or not t:
        return t
    if t == c:
        return TRUE if val else FALSE
    if t[0] == "ite" and t[1] == c:
        return assume(t[2] if val else t[3], c, val)
    if t[0] == "not" and t[1] == c:
        return FALSE if val else TRUE
    if t[0] in ("ite", "and", "or", "not"):
        new = tuple(assume(x, c, val) if isinstance(x, tuple) and x and isinstance(x[0], str) else
                    (tuple(assume(y, c, val) for y in x) if isinstance(x, tuple) else x) for x in t)
        if new != t:
            return simp(new)
    return t


def path_simp(t, depth=0):
    """Simplify nested conditionals by their own path conditions: in ite(c, a, b) the sub-terms of a may assume c, those of b
    may assume not c (so `x if c else (y if c else z)` becomes `x if c else z`)."""
    if not is_term(t) or depth > 12:
        return t
    if t[0] == "ite":
        c = t[1]
        a = path_simp(deep_simp(assume_deep(t[2], c, True)), depth + 1)
        b = path_simp(deep_simp(assume_deep(t[3], c, False)), depth + 1)
        return deep_simp(("ite", c, a, b))
    return t


def assume_deep(t, c, val):
    """Like assume(), but rewrites everywhere inside t (call arguments, lists, ...)."""
    import os as _os
    nc = simp(("not", c)) if (c[0] == "cmp" and not _os.environ.get("SA_NONEG")) else None       # the negation of a comparison is a comparison (`not a < b` is `b <= a`)

    def f(x):
        if x == c:
            return TRUE if val else FALSE
        if nc is not None and x == nc:
            return FALSE if val else TRUE
        if x[0] == "ite" and x[1] == c:
            return assume_deep(x[2] if val else x[3], c, val)
        if nc is not None and x[0] == "ite" and x[1] == nc:
            return assume_deep(x[3] if val else x[2], c, val)
        if x[0] == "not" and x[1] == c:
            return FALSE if val else TRUE
        return None
    return subst(t, f)


def negate(x):
    if x[0] == "add":
        return simp(("add", tuple(negate(y) for y in x[1])))
    if x[0] == "neg":
        return x[1]
    if is_const(x) and isinstance(x[1], (int, float)):
        return C(-x[1])
    if x[0] == "mul":
        # flip the sign of the constant factor
        items = list(x[1])
        for i, y in enumerate(items):
            if is_const(y):
                items[i] = C(-y[1])
                return simp(("mul", tuple(items)))
        return simp(("mul", tuple(items + [C(-1)])))
    return ("neg", x)


def _hoist_ite(c, a, b):
    """ite(c, a, b) with a common leading test kept outside: ite(c, ite(k, x, A), ite(k, x, B)) is ite(k, x, ite(c, A, B))."""
    if a[0] == "ite" and b[0] == "ite" and len(a) == 4 and len(b) == 4 and a[1] == b[1] and a[2] == b[2] and a != b:
        return simp(("ite", a[1], a[2], _hoist_ite(c, a[3], b[3])))
    if a[0] == "ite" and b[0] == "ite" and len(a) == 4 and len(b) == 4 and a[1] == b[1] and a[3] == b[3] and a != b:
        return simp(("ite", a[1], _hoist_ite(c, a[2], b[2]), a[3]))          # the same with the test stored in its positive form
    return simp(("ite", c, a, b))


def _fill_ret(t, returned, v, depth=0):
    """The value returned so far (t, valid where `returned` holds) extended by `return v` on the paths that have not returned yet:
    the fall-through leaf of the chain is replaced, the tests stay in program order."""
    if returned == FALSE:
        return v
    if returned == TRUE:
        return t
    if t[0] == "ite" and len(t) == 4 and depth < 40:
        k = t[1]
        r1, r0 = assume(returned, k, True), assume(returned, k, False)
        if r1 == TRUE:
            return simp(("ite", k, t[2], _fill_ret(t[3], r0, v, depth + 1)))
        if r0 == TRUE:
            return simp(("ite", k, _fill_ret(t[2], r1, v, depth + 1), t[3]))
        if r1 != returned or r0 != returned:
            return simp(("ite", k, _fill_ret(t[2], r1, v, depth + 1), _fill_ret(t[3], r0, v, depth + 1)))
    return simp(("ite", returned, t, v))


def _flag_minus(x, r0):
    """x (a 'has returned' flag after a branch) on the paths where r0 (the flag before the branch) is false."""
    if x == r0:
        return FALSE
    if x == TRUE or x == FALSE:
        return x
    xs = x[1] if x[0] == "or" else (x,)
    rs = r0[1] if r0[0] == "or" else (r0,)
    if len(xs) > len(rs) and tuple(xs[:len(rs)]) == tuple(rs):
        return simp(("or", tuple(xs[len(rs):])))
    return assume(x, r0, False)


def mk_add(*xs):
    return simp(("add", tuple(xs)))


def mk_mul(*xs):
    return simp(("mul", tuple(xs)))


def mk_ite(c, a, b):
    return simp(("ite", c, a, b))


def mk_not(c):
    return simp(("not", c))


def mk_and(*xs):
    return simp(("and", tuple(xs)))


def mk_or(*xs):
    return simp(("or", tuple(xs)))


# ---- loops ------------------------------------------------------------------------

class Loop:
    def __init__(self, lid, kind, node):
        self.id = lid
        self.kind = kind            # 'for' | 'while' | 'compr'
        self.node = node
        self.source = None          # term of the iterated collection (enumerate stripped)
        self.enumerated = False
        self.whole = True           # iterates the whole source (no slice)
        self.init = {}              # var -> term before the loop
        self.update = {}            # var -> term after one iteration (over acc symbols)
        self.effects = []           # [(cond, 'store', target term, attr, value) | (cond,'call',term)]
        self.cond = None            # while: loop test over acc symbols
        self.has_break = False
        self.has_return = False
        self.elt = None             # comprehension element
        self.filters = []           # comprehension conditions
        self.ckind = None           # comprehension kind list/gen/set
        self.inner = []             # nested loop ids
        self.tgt_terms = {}         # loop target name -> term over the element

    def __repr__(self):
        return "<Loop %s %s over %s>" % (self.id, self.kind, show(self.source))


class State:
    def __init__(self, env=None, heap=None):
        self.env = dict(env or {})
        self.heap = dict(heap or {})
        self.dead = False
        self.effects = []
        self.snaps = []     # [(path condition, env)] of paths that left the loop body early (continue / break)

    def copy(self):
        s = State(self.env, self.heap)
        s.dead = self.dead
        s.effects = list(self.effects)
        s.snaps = list(self.snaps)
        return s


class SymX:
    """Symbolic execution of one function (methods: with `self` bound to a concrete class)."""

    def __init__(self, ctx, func, cls_name=None, inline_depth=3, no_inline=(), inline_foreign=False, unroll_literals=False):
        self.unroll_literals = unroll_literals    # run `for x in (a, b, c):` element by element instead of summarising it
        self.inline_foreign = inline_foreign      # also inline x.m(...) on other objects when m resolves to exactly one method
        self.ctx = ctx
        self.prog = ctx.prog
        self.func = func
        self.cls_name = cls_name or (func.cls.name if func.cls else None)
        self.loops = {}
        self._ids = itertools.count(1)
        self.inline_depth = inline_depth
        self.no_inline = set(no_inline)
        self.calls_inlined = []
        self.closures = {}
        self.final = None
        self.ret = None

    # ---- driver -------------------------------------------------------------
    def run(self, arg_terms=None):
        st = State()
        for p in self.func.params + self.func.kwonly:
            st.env[p] = (arg_terms or {}).get(p, ("v", p))
        st.env["$ret"] = C(None)
        st.env["$returned"] = FALSE
        is_gen = any(isinstance(n, (ast.Yield, ast.YieldFrom)) for n in ast.walk(self.func.node))
        if is_gen:
            st.env["$yield"] = ("list", ())
        st = self.block(self.func.node.body, st, self.func, 0)
        self.final = st
        self.ret = st.env["$yield"] if is_gen else st.env["$ret"]
        if self.func.name == "solve" and self.func.cls is not None:
            # what solve() returns when it returns: the rules about its result read the tuple, the raises are judged as effects
            def _value(t):
                if isinstance(t, tuple) and t and t[0] == "ite":
                    a, b = _value(t[2]), _value(t[3])
                    if a[0] == "raise":
                        return b
                    if b[0] == "raise":
                        return a
                    return ("ite", t[1], a, b)
                return t
            self.ret = _value(self.ret)
        return self

    # ---- statements ------------------------------------------------------------
    def block(self, stmts, st, f, depth):
        for s in stmts:
            if st.dead:
                break
            st = self.stmt(s, st, f, depth)
        return st

    def stmt(self, s, st, f, depth):
        ev = lambda e: self.expr(e, st, f, depth)
        if isinstance(s, ast.FunctionDef):
            cid = next(self._ids)
            self.closures[cid] = (s, dict(st.env), f)
            st.env[s.name] = ("closure", cid)
            return st
        if isinstance(s, ast.Expr) and isinstance(s.value, ast.Yield):
            v = ev(s.value.value) if s.value.value is not None else C(None)
            st.env["$yield"] = simp(("cat", st.env.get("$yield", ("list", ())), ("list", (v,))))
            return st
        if isinstance(s, ast.Expr):
            if isinstance(s.value, ast.Constant):
                return st  # docstring
            if isinstance(s.value, ast.Call):
                name = call_name(s.value)
                if name.startswith("logging."):
                    return st
                # mutator calls on locals: append
                c = s.value
                if isinstance(c.func, ast.Attribute) and isinstance(c.func.value, ast.Name) and c.func.value.id in st.env \
                        and c.func.attr in ("append", "extend", "add", "update") and len(c.args) == 1 and not self._resolves(c, f) \
                        and st.env[c.func.value.id][0] not in ("mcall", "idx", "attr", "call", "apply", "dict") \
                        and not (c.func.attr == "update" and not self._listy(st.env[c.func.value.id]) and st.env[c.func.value.id][0] != "set"):
                    n = c.func.value.id
                    arg = ev(c.args[0])
                    if c.func.attr in ("extend", "update"):
                        st.env[n] = simp(("cat", st.env[n], arg))
                    else:
                        st.env[n] = simp(("cat", st.env[n], ("list", (arg,))))
                    return st
                if isinstance(c.func, ast.Attribute) and isinstance(c.func.value, ast.Name) and c.func.value.id in st.env and c.func.attr == "update" \
                        and len(c.args) <= 1 and all(k.arg for k in c.keywords) and (c.args or c.keywords) and self._dict_valued(st.env[c.func.value.id]):
                    arg = ev(c.args[0]) if c.args else ("dict", ())
                    if arg[0] == "call" and arg[1] == "zip" and len(arg[2]) == 2:
                        arg = _dict_of_zip(arg) or arg
                    if arg[0] == "dict" and all(is_const(k) for k, _ in arg[1]):
                        d = st.env[c.func.value.id]
                        for k, v in arg[1]:
                            d = simp(("setitem", d, k, v))
                        for k in c.keywords:
                            d = simp(("setitem", d, C(k.arg), ev(k.value)))
                        st.env[c.func.value.id] = d
                        return st
                t = ev(s.value)
                st.effects.append((self._alive(st), "call", t))
                return st
            ev(s.value)
            return st
        if isinstance(s, ast.Assign):
            v = ev(s.value)
            self._value_call_effect(v, st)
            for t in s.targets:
                self.assign(t, v, st, f, depth)
            return st
        if isinstance(s, ast.AnnAssign):
            if s.value is not None:
                self.assign(s.target, ev(s.value), st, f, depth)
            return st
        if isinstance(s, ast.AugAssign):
            cur = ev(_as_load(s.target))
            v = self.binop(s.op, cur, ev(s.value))
            self.assign(s.target, v, st, f, depth)
            return st
        if isinstance(s, ast.If):
            c = self.truth(ev(s.test))
            walrus = [n.target.id for n in ast.walk(s.test) if isinstance(n, ast.NamedExpr) and isinstance(n.target, ast.Name)]
            st_then = st.copy()
            if walrus and c[0] == "and":
                # inside the body every operand of the conjunction held: a name bound in a later operand is bound
                for b in walrus:
                    v = st_then.env.get(b)
                    for conj in c[1]:
                        if v is not None and v[0] == "ite" and (v[1] == conj or (v[1][0] == "and" and all(k in c[1] for k in v[1][1]))):
                            v = v[2]
                    if v is not None:
                        st_then.env[b] = v
            s1 = self.block(s.body, st_then, f, depth)
            s2 = self.block(s.orelse, st.copy(), f, depth)
            return self.merge(c, s1, s2, base=st)
        if isinstance(s, ast.Return):
            v = ev(s.value) if s.value is not None else C(None)
            st.env["$ret"] = _fill_ret(st.env["$ret"], st.env["$returned"], v)
            st.env["$returned"] = TRUE
            st.dead = True
            return st
        if isinstance(s, ast.Raise):
            exc = ev(s.exc) if s.exc is not None else ("reraise",)
            st.effects.append((self._alive(st), "raise", exc))
            st.env["$ret"] = _fill_ret(st.env["$ret"], st.env["$returned"], ("raise", exc))
            st.env["$returned"] = TRUE
            st.dead = True
            return st
        if isinstance(s, ast.For):
            return self.for_loop(s, st, f, depth)
        if isinstance(s, ast.While):
            return self.while_loop(s, st, f, depth)
        if isinstance(s, ast.Pass):
            return st
        if isinstance(s, ast.Continue):
            st.env["$cont"] = TRUE
            st.snaps.append((TRUE, dict(st.env)))
            st.dead = True
            return st
        if isinstance(s, ast.Break):
            st.env["$cont"] = TRUE
            st.env["$broke"] = TRUE
            st.snaps.append((TRUE, dict(st.env)))
            st.dead = True
            return st
        if isinstance(s, ast.Assert):
            return st
        if isinstance(s, ast.With):
            for it in s.items:
                v = self.expr(it.context_expr, st, f, depth)
                if it.optional_vars is not None:
                    self.assign(it.optional_vars, v, st, f, depth)
            return self.block(s.body, st, f, depth)
        if isinstance(s, ast.Try):
            return self.try_stmt(s, st, f, depth)
        if isinstance(s, (ast.Import, ast.ImportFrom, ast.Global, ast.Nonlocal)):
            return st
        if isinstance(s, ast.Delete):
            st.effects.append((self._alive(st), "delete", C(src(s))))
            return st
        raise Unsupported("statement %s not supported by the symbolic executor (%s)" % (type(s).__name__, f.where(s)))

    def try_stmt(self, s, st, f, depth):
        """try/except with one handler: an exception is assumed to arise at the first statement of the body that
        contains a (non-logging) call; the handler runs on the state reached before that statement."""
        if not s.handlers and s.finalbody and not s.orelse:
            # try/finally: the final block runs after the body on every path, also after a return
            out = self.block(s.body, st, f, depth)
            saved = (out.env.get("$returned", FALSE), out.env.get("$ret", C(None)), getattr(out, "dead", False))
            out.env["$returned"] = FALSE
            out.dead = False
            out = self.block(s.finalbody, out, f, depth)
            if out.env.get("$returned", FALSE) == FALSE:
                out.env["$returned"], out.env["$ret"], out.dead = saved
            return out
        if len(s.handlers) != 1:
            raise Unsupported("try statement with %d handlers (%s)" % (len(s.handlers), f.where(s)))
        h = s.handlers[0]
        tid = next(self._ids)
        split = len(s.body)
        for i, b in enumerate(s.body):
            has_call = any(isinstance(n, ast.Call) and not call_name(n).startswith("logging.") for n in ast.walk(b))
            if has_call:
                split = i
                break
        pre = self.block(s.body[:split], st.copy(), f, depth)
        body = self.block(s.body[split:] + list(s.orelse), pre.copy(), f, depth)      # `else:` continues the path on which nothing was raised
        hst = pre.copy()
        if h.name:
            hst.env[h.name] = ("exc", tid)
        hst = self.block(h.body, hst, f, depth)
        self.tries = getattr(self, "tries", {})
        call_term = None
        if split < len(s.body) and isinstance(s.body[split], (ast.Expr, ast.Assign)) and isinstance(s.body[split].value, ast.Call):
            try:
                call_term = self.expr(s.body[split].value, pre.copy(), f, depth)     # what is attempted, as a term
            except Unsupported:
                call_term = None
        self.tries[tid] = {"node": s, "handler": h, "type": src(h.type) if h.type is not None else None,
                           "first_call_stmt": s.body[split] if split < len(s.body) else None, "call_term": call_term}
        out = self.merge(("raised", tid), hst, body)
        if s.finalbody:
            out = self.block(s.finalbody, out, f, depth)
        return out

    def _alive(self, st):
        conds = []
        for flag in ("$returned", "$cont"):
            if flag in st.env and st.env[flag] != FALSE:
                conds.append(mk_not(st.env[flag]))
        return mk_and(*conds) if conds else TRUE

    def merge(self, c, s1, s2, base=None):
        if s1.dead and s2.dead:
            out = State()
            out.dead = True
        else:
            out = State()
        names = set(s1.env) | set(s2.env)
        for n in names:
            a = s1.env.get(n, UNBOUND)
            b = s2.env.get(n, UNBOUND)
            flag = n.startswith("$")
            if not flag and s1.dead and not s2.dead:
                out.env[n] = b
            elif not flag and s2.dead and not s1.dead:
                out.env[n] = a
            elif n == "$ret":
                # the returned value as a chain in PROGRAM order (`if c1: return m1` / `if c2: return m2` is m1 if c1 else (m2 if c2 ..)):
                # logically the same as nesting the later test outside, but a reader that evaluates the term (the guard
                # evaluator) must meet the tests in the order the program does - a later test may only be safe after an earlier one
                out.env[n] = _hoist_ite(c, a, b)
            elif n == "$returned" and base is not None and base.env.get(n, FALSE) not in (FALSE, TRUE) and a != UNBOUND and b != UNBOUND:
                r0 = base.env[n]
                out.env[n] = mk_or(r0, mk_ite(c, _flag_minus(a, r0), _flag_minus(b, r0)))
            else:
                out.env[n] = mk_ite(c, a, b)
        for k in set(s1.heap) | set(s2.heap):
            a = s1.heap.get(k)
            b = s2.heap.get(k)
            if a is not None and b is not None and a == b:
                out.heap[k] = a
            else:
                base = ("attr", k[0], k[1])
                a = a if a is not None else base
                b = b if b is not None else base
                if s1.dead and not s2.dead:
                    out.heap[k] = b
                elif s2.dead and not s1.dead:
                    out.heap[k] = a
                else:
                    out.heap[k] = mk_ite(c, a, b)
        n1 = 0
        while n1 < len(s1.snaps) and n1 < len(s2.snaps) and s1.snaps[n1] is s2.snaps[n1]:
            n1 += 1
        out.snaps = list(s1.snaps[:n1]) + [(mk_and(c, k), e) for k, e in s1.snaps[n1:]] + \
            [(mk_and(mk_not(c), k), e) for k, e in s2.snaps[n1:]]
        n0 = 0
        # effects: common prefix is unconditional
        while n0 < len(s1.effects) and n0 < len(s2.effects) and s1.effects[n0] == s2.effects[n0]:
            n0 += 1
        out.effects = list(s1.effects[:n0])
        for e in s1.effects[n0:]:
            out.effects.append((mk_and(c, e[0]),) + e[1:])
        for e in s2.effects[n0:]:
            out.effects.append((mk_and(mk_not(c), e[0]),) + e[1:])
        return out

    def assign(self, t, v, st, f, depth):
        if isinstance(t, ast.Name):
            st.env[t.id] = v
        elif isinstance(t, (ast.Tuple, ast.List)):
            stars = [i for i, e in enumerate(t.elts) if isinstance(e, ast.Starred)]
            if len(stars) == 1:
                # `a, *mid, z = v`: a = v[0], z = v[-1], mid = list(v[1:-1])
                k = stars[0]
                m = len(t.elts) - k - 1
                for i, e in enumerate(t.elts[:k]):
                    self.assign(e, simp(("idx", v, C(i))), st, f, depth)
                for j, e in enumerate(t.elts[k + 1:]):
                    self.assign(e, simp(("idx", v, C(j - m))), st, f, depth)
                mid = simp(("slice", v, C(k) if k else C(None), C(-m) if m else C(None), C(None)))
                self.assign(t.elts[k].value, mid if mid[0] == "list" else ("call", "list", (mid,), ()), st, f, depth)
                return
            for i, e in enumerate(t.elts):
                if isinstance(e, ast.Starred):
                    raise Unsupported("starred assignment")
                self.assign(e, simp(("idx", v, C(i))), st, f, depth)
        elif isinstance(t, ast.Attribute):
            base = self.expr(t.value, st, f, depth)
            st.heap[(base, t.attr)] = v
            st.effects.append((self._alive(st), "store", base, t.attr, v))
        elif isinstance(t, ast.Subscript):
            base = self.expr(t.value, st, f, depth)
            i = self.expr(t.slice, st, f, depth)
            st.effects.append((self._alive(st), "setitem", base, i, v))
            if isinstance(t.value, ast.Name) and t.value.id in st.env:
                st.env[t.value.id] = simp(("setitem", st.env[t.value.id], i, v))
        else:
            raise Unsupported("assignment target %s" % type(t).__name__)

    # ---- loops -------------------------------------------------------------------
    @staticmethod
    def _assigned_in(stmts):
        names = []
        for s in stmts:
            for n in ast.walk(s):
                if isinstance(n, ast.Name) and isinstance(n.ctx, ast.Store) and n.id not in names:
                    # comprehension variables do not leak
                    p = getattr(n, "parent", None)
                    comp = False
                    while p is not None and not isinstance(p, ast.stmt):
                        if isinstance(p, ast.comprehension):
                            comp = True
                        p = getattr(p, "parent", None)
                    if not comp:
                        names.append(n.id)
                if isinstance(n, ast.Call) and isinstance(n.func, ast.Attribute) and isinstance(n.func.value, ast.Name) \
                        and n.func.attr in ("append", "extend", "add", "update") and n.func.value.id not in names:
                    names.append(n.func.value.id)
                if isinstance(n, ast.Subscript) and isinstance(n.ctx, ast.Store) and isinstance(n.value, ast.Name) \
                        and n.value.id not in names:
                    names.append(n.value.id)
                if isinstance(n, ast.Yield) and "$yield" not in names:
                    names.append("$yield")
        return names

    def _iter_source(self, it, st, f, depth, loop):
        """Strip enumerate(); record slices."""
        if isinstance(it, ast.Call) and call_name(it) == "enumerate" and len(it.args) >= 1:
            loop.enumerated = True
            it = it.args[0]
        if isinstance(it, ast.Subscript) and isinstance(it.slice, ast.Slice):
            loop.whole = False
        t = self.expr(it, st, f, depth)
        if self.unroll_literals and t[0] == "call" and t[1] == "zip" and len(t[2]) >= 2 and not t[3]:
            # zip(("a", "b", "c"), xs): a literal table of names paired with the slots of a tuple-valued term
            lits = [a for a in t[2] if a[0] in ("tup", "list")]
            if lits:
                n = min(len(a[1]) for a in lits)
                if n <= 8:
                    return ("list", tuple(("tup", tuple(a[1][i] if a[0] in ("tup", "list") else simp(("idx", a, C(i))) for a in t[2])) for i in range(n)))
        return t

    def _list_valued(self, t, depth=0):
        """A term that is known to be a list (the result of a loop that starts from [] and only appends / re-assigns lists) is shown
        as a list to the `is None` test: `[]` stands for "some list"."""
        if depth < 3 and t[0] == "res" and t[1] in self.loops:
            L = self.loops[t[1]]
            init = L.init.get(t[2])
            if init is not None and init[0] == "list":
                fo = classify(L).get(t[2])
                if fo is not None and fo.kind in ("COLLECT", "ARGSET"):
                    return ("list", ())
        if depth < 3 and t[0] == "ite":
            a, b = self._list_valued(t[2], depth + 1), self._list_valued(t[3], depth + 1)
            if (a, b) != (t[2], t[3]):
                return ("ite", t[1], a, b)
        return t

    def _subscript(self, base, i, depth=0):
        if base[0] == "compr" and base[1] in self.loops:
            # a table computed position by position from another list: table[k] is the element expression at source[k]
            L = self.loops[base[1]]
            if L.ckind == "list" and not L.filters and L.whole and not L.inner and L.elt is not None and not L.enumerated:
                el, ps = ("elem", L.id), ("pos", L.id)
                at = simp(("idx", L.source, i))
                return deep_simp(subst(L.elt, lambda x: at if x == el else (i if x == ps else None)))
        if base[0] == "ite" and depth < 3 and (C(None) in (base[2], base[3]) or "compr" in (base[2][0], base[3][0]) or all(x[0] in ("dict", "ite") for x in (base[2], base[3]))):
            # (None if c else table)[k]: the subscript of whichever it is
            return simp(("ite", base[1], self._subscript(base[2], i, depth + 1), self._subscript(base[3], i, depth + 1)))
        return simp(("idx", base, i))

    _PURE_METHODS = frozenset(("get", "items", "keys", "values", "index", "count", "copy", "join", "split", "format", "replace", "strip", "lower", "upper",
                               "startswith", "endswith", "union", "intersection", "difference", "issubset", "issuperset", "isdigit", "find", "rstrip", "lstrip",
                               "random", "randrange", "randint", "choices", "choice", "uniform", "sample", "getrandbits"))

    def _value_call_effect(self, v, st):
        """A method call whose result is kept (`removed = state.prune(...)`, `for x in state.prune(...)`) still happens: it is
        recorded like the same call in statement position, so that rules about *which calls are made* see it."""
        if isinstance(v, tuple) and v and v[0] == "mcall" and v[2] not in self._PURE_METHODS and not (is_const(v[1]) or v[1][0] in ("list", "tup", "dict", "set")):
            st.effects.append((self._alive(st), "call", v))

    def _bind_loop_target(self, tgt, loop, st, f, depth):
        elem = ("elem", loop.id)
        if loop.enumerated:
            if not (isinstance(tgt, (ast.Tuple, ast.List)) and len(tgt.elts) == 2):
                raise Unsupported("enumerate target")
            self.assign(tgt.elts[0], ("pos", loop.id), st, f, depth)
            self.assign(tgt.elts[1], elem, st, f, depth)
        else:
            self.assign(tgt, elem, st, f, depth)

    def for_loop(self, s, st, f, depth):
        if s.orelse:
            raise Unsupported("for-else")
        loop = Loop(next(self._ids), "for", s)
        loop.all_loops = self.loops
        self.loops[loop.id] = loop
        loop.source = self._iter_source(s.iter, st, f, depth, loop)
        self._value_call_effect(loop.source, st)
        # a search over a short literal table that leaves by `return` (`for k, v in TABLE: if x == k: return v`) is
        # executed element by element; the loop summary cannot express an early return anyway
        src_t = loop.source
        jumps = any(isinstance(n, (ast.Break, ast.Continue)) for b in s.body for n in ast.walk(b))
        if src_t[0] in ("tup", "list") and 1 <= len(src_t[1]) <= (16 if self.unroll_literals else 8) and loop.whole and not loop.enumerated \
                and (self.unroll_literals or any(isinstance(n, ast.Return) for b in s.body for n in ast.walk(b))) \
                and not any(isinstance(n, (ast.For, ast.While)) for b in s.body for n in ast.walk(b)):
            del self.loops[loop.id]
            if not jumps:
                for el in src_t[1]:
                    self.assign(s.target, el, st, f, depth)
                    st = self.block(s.body, st, f, depth)
                    st.dead = False
                return st
            # with break / continue: every iteration runs on a copy; its end state is the merge over all ways of leaving the
            # body; once a break has happened the remaining iterations leave the state as it was
            outer = {k_: st.env.get(k_, FALSE) for k_ in ("$cont", "$broke")}
            outer_snaps = getattr(st, "snaps", [])
            broke = FALSE
            for el in src_t[1]:
                before = st.copy()
                it = st.copy()
                it.env["$cont"], it.env["$broke"], it.snaps = FALSE, FALSE, []
                self.assign(s.target, el, it, f, depth)
                after = self.block(s.body, it, f, depth)
                names = set(after.env)
                for _, e_ in after.snaps:
                    names |= set(e_)
                env2 = {n_: self._with_snaps(after, n_) for n_ in names}
                b_i = env2.get("$broke", FALSE)
                after.env, after.snaps, after.dead = env2, [], False
                after.env["$cont"], after.env["$broke"] = FALSE, FALSE
                st = after if broke == FALSE else self.merge(broke, before, after)
                st.dead = False
                broke = mk_or(broke, b_i)
            st.env["$cont"], st.env["$broke"] = outer["$cont"], outer["$broke"]
            st.snaps = outer_snaps
            return st
        carried = [n for n in self._assigned_in(s.body)]
        tgt_names = [n.id for n in ast.walk(s.target) if isinstance(n, ast.Name)]
        carried = [n for n in carried if n not in tgt_names]
        body = st.copy()
        body.effects = []
        for v in carried:
            loop.init[v] = st.env.get(v, UNBOUND)
            body.env[v] = ("acc", loop.id, v)
        # heap locations written in the body are unknown at iteration start unless stored before in the body
        body.env["$cont"] = FALSE
        body.env["$broke"] = FALSE
        body.snaps = []
        self._bind_loop_target(s.target, loop, body, f, depth)
        loop.tgt_terms = {n: body.env[n] for n in tgt_names if n in body.env}
        nested_before = set(self.loops)
        after = self.block(s.body, body, f, depth)
        loop.inner = [i for i in self.loops if i not in nested_before]
        for v in carried:
            loop.update[v] = self._with_snaps(after, v)
        loop.effects = after.effects
        loop.has_break = after.env.get("$broke", FALSE) != FALSE
        loop.has_return = after.env.get("$returned", FALSE) != st.env.get("$returned", FALSE)
        loop.cont = after.env.get("$cont", FALSE)
        for v in carried:
            st.env[v] = ("res", loop.id, v)
        for n in tgt_names:
            st.env[n] = ("res", loop.id, n)
        for k in list(st.heap):
            if any(e[1] == "store" and (e[2], e[3]) == k for e in loop.effects):
                del st.heap[k]
        st.effects.append((self._alive(st), "loop", loop.id))
        if loop.has_return:
            st.env["$ret"] = ("res", loop.id, "$ret")
            st.env["$returned"] = ("res", loop.id, "$returned")
        return st

    @staticmethod
    def _with_snaps(after, v):
        """Value of v at the end of one iteration, over all ways of leaving the body."""
        u = after.env.get(v, UNBOUND)
        for k, e in reversed(after.snaps):
            u = mk_ite(k, e.get(v, UNBOUND), u)
        return u

    def while_loop(self, s, st, f, depth):
        if s.orelse:
            raise Unsupported("while-else")
        loop = Loop(next(self._ids), "while", s)
        loop.all_loops = self.loops
        self.loops[loop.id] = loop
        carried = self._assigned_in(s.body)
        body = st.copy()
        body.effects = []
        for v in carried:
            loop.init[v] = st.env.get(v, UNBOUND)
            body.env[v] = ("acc", loop.id, v)
        body.env["$cont"] = FALSE
        body.env["$broke"] = FALSE
        body.snaps = []
        loop.cond = self.truth(self.expr(s.test, body, f, depth))
        nested_before = set(self.loops)
        after = self.block(s.body, body, f, depth)
        loop.inner = [i for i in self.loops if i not in nested_before]
        for v in carried:
            loop.update[v] = self._with_snaps(after, v)
        loop.effects = after.effects
        loop.has_break = after.env.get("$broke", FALSE) != FALSE
        loop.break_cond = FALSE
        for k_, e_ in after.snaps:
            if e_.get("$broke", FALSE) != FALSE:
                loop.break_cond = mk_or(loop.break_cond, k_)
        loop.break_envs = [(k_, e_) for k_, e_ in after.snaps if e_.get("$broke", FALSE) != FALSE]
        loop.has_return = after.env.get("$returned", FALSE) != st.env.get("$returned", FALSE)
        loop.return_cond = self._with_snaps(after, "$returned")
        loop.cont = after.env.get("$cont", FALSE)
        for v in carried:
            st.env[v] = ("res", loop.id, v)
        st.heap.clear()
        st.effects.append((self._alive(st), "loop", loop.id))
        return st

    def comprehension(self, e, st, f, depth):
        if len(e.generators) == 2 and isinstance(e, ast.ListComp):
            g1, g2 = e.generators
            if isinstance(g1.target, ast.Name) and isinstance(g2.iter, ast.Name) and g2.iter.id == g1.target.id \
                    and isinstance(g2.target, ast.Name) and isinstance(e.elt, ast.Name) and e.elt.id == g2.target.id \
                    and not g1.ifs and not g2.ifs:
                return simp(("flatten", self.expr(g1.iter, st, f, depth)))
        if len(e.generators) >= 2 and isinstance(e, (ast.ListComp, ast.GeneratorExp)):
            # [E for a in A for b in B] == flatten([[E for b in B] for a in A])
            inner = type(e)(elt=e.elt, generators=e.generators[1:])
            outer = ast.ListComp(elt=inner, generators=e.generators[:1])
            for n in (inner, outer):
                ast.copy_location(n, e)
            inner.parent = outer
            outer.parent = getattr(e, "parent", None)
            return simp(("flatten", self.comprehension(outer, st, f, depth)))
        if len(e.generators) != 1:
            raise Unsupported("nested comprehension generators")
        gen = e.generators[0]
        loop = Loop(next(self._ids), "compr", e)
        loop.all_loops = self.loops
        self.loops[loop.id] = loop
        loop.ckind = {ast.ListComp: "list", ast.GeneratorExp: "gen", ast.SetComp: "set"}.get(type(e), "dict")
        inner = st.copy()
        loop.source = self._iter_source(gen.iter, st, f, depth, loop)
        if loop.source[0] in ("tup", "list") and len(loop.source[1]) <= 16 and loop.whole and not loop.enumerated:
            # a comprehension over a literal sequence is written out element by element
            items, okx = [], True
            for el in loop.source[1]:
                sub = st.copy()
                self.assign(gen.target, el, sub, f, depth)
                conds = [self.truth(self.expr(c, sub, f, depth)) for c in gen.ifs]
                if any(c not in (TRUE, FALSE) for c in conds):
                    okx = False
                    break
                if all(c == TRUE for c in conds):
                    if isinstance(e, ast.DictComp):
                        items.append((self.expr(e.key, sub, f, depth), self.expr(e.value, sub, f, depth)))
                    else:
                        items.append(self.expr(e.elt, sub, f, depth))
            if okx:
                del self.loops[loop.id]
                if isinstance(e, ast.DictComp):
                    return ("dict", tuple(items))
                return ("set" if isinstance(e, ast.SetComp) else "list", tuple(items))
        self._bind_loop_target(gen.target, loop, inner, f, depth)
        loop.filters = [self.truth(self.expr(c, inner, f, depth)) for c in gen.ifs]
        if isinstance(e, ast.DictComp):
            loop.elt = ("tup", (self.expr(e.key, inner, f, depth), self.expr(e.value, inner, f, depth)))
        else:
            loop.elt = self.expr(e.elt, inner, f, depth)
        return ("compr", loop.id)

    # ---- expressions -----------------------------------------------------------------
    def truth(self, t):
        """Truthiness of a term as a boolean term."""
        if t[0] in ("cmp", "not", "and", "or") or t in (TRUE, FALSE):
            return t
        if is_const(t):
            return C(bool(t[1]))
        if t[0] == "list":
            return C(len(t[1]) > 0)
        if t[0] == "call" and t[1] in ("isinstance",):
            return t
        if t[0] == "boolval":
            parts = [self.truth(x) for x in t[2]]
            return mk_and(*parts) if t[1] == "and" else mk_or(*parts)
        return ("truthy", t)

    def _listy(self, t, depth=0):
        if t[0] in ("list", "cat", "compr", "flatten", "repeat", "set"):
            return True
        if t[0] == "res" and depth < 6 and t[1] in self.loops:
            init = self.loops[t[1]].init.get(t[2])
            if init is not None:
                return self._listy(init, depth + 1)
        if t[0] == "acc" and depth < 6 and t[1] in self.loops:
            init = self.loops[t[1]].init.get(t[2])
            if init is not None:
                return self._listy(init, depth + 1)
        return False

    def _stringy(self, t):
        if is_const(t):
            return isinstance(t[1], str)
        if t[0] in ("strcat", "fstr"):
            return True
        if t[0] == "call" and t[1] in ("str", "repr", "prob_to_str"):
            return True
        if t[0] == "ite":
            return self._stringy(t[2]) or self._stringy(t[3])
        if t[0] == "mcall" and t[2] in ("replace", "join", "format", "strip", "lower", "upper"):
            return True
        return False

    def binop(self, op, a, b):
        if isinstance(op, ast.Add):
            if self._listy(a) or self._listy(b):
                return simp(("cat", a, b))
            if is_const(a) and is_const(b):
                try:
                    return C(a[1] + b[1])
                except TypeError:
                    pass
            if self._stringy(a) or self._stringy(b):
                return simp(("strcat", a, b))
            return mk_add(a, b)
        if isinstance(op, ast.Sub):
            return mk_add(a, negate(b))
        if isinstance(op, ast.Mult):
            if a[0] == "repeat":
                return ("repeat", a[1], mk_mul(a[2], b))
            if b[0] == "repeat":
                return ("repeat", b[1], mk_mul(b[2], a))
            if a[0] == "list":
                return ("repeat", a, b)
            if b[0] == "list":
                return ("repeat", b, a)
            return mk_mul(a, b)
        if isinstance(op, ast.Div):
            if is_const(a) and is_const(b):
                try:
                    return C(a[1] / b[1])
                except (ArithmeticError, TypeError):
                    pass
            return ("div", a, b)
        if isinstance(op, ast.Pow):
            if is_const(a) and is_const(b):
                try:
                    if abs(b[1]) <= 64:
                        return C(a[1] ** b[1])
                except (ArithmeticError, TypeError):
                    pass
            return ("pow", a, b)
        if isinstance(op, ast.Mod):
            return ("mod", a, b)
        if isinstance(op, ast.FloorDiv):
            return ("floordiv", a, b)
        return ("binop", type(op).__name__, a, b)

    def _sentinel_identity(self, l_ast, r_ast, left, right, st, f):
        """`x is S` for a module-level sentinel S (one object with identity, bound once at module level, reached only through
        its name): true exactly on the paths where x was taken from S. None when that is not what is written."""
        for name, other in ((l_ast, right), (r_ast, left)):
            if not (isinstance(name, ast.Name) and name.id not in st.env and name.id in f.mod.consts):
                continue
            v = left if name is l_ast else right
            if v[0] not in ("tup", "list", "dict") or self._module_object_modified(f.mod, name.id):
                continue
            # the value must not be obtainable in this function except through the name
            n_el = len(v[1])
            for n in ast.walk(f.node):
                if isinstance(n, (ast.Tuple, ast.List, ast.Dict)) and isinstance(getattr(n, "ctx", ast.Load()), ast.Load) \
                        and len(getattr(n, "elts", getattr(n, "keys", ()))) == n_el:
                    return None

            def leaf(x, d=0):
                if x[0] == "ite" and d < 12:
                    a, b = leaf(x[2], d + 1), leaf(x[3], d + 1)
                    if a is None or b is None:
                        return None
                    return mk_ite(x[1], a, b)
                if x == v:
                    return C(True)
                if is_const(x) or x[0] in ("call", "res", "tup", "list", "dict", "mcall"):
                    return C(False)
                return None
            return leaf(other)
        return None

    @staticmethod
    def _dict_items(t, d=0):
        """Entries of a dict-valued term with the same literal keys on every path: [(key, value)] (values merged by path) or None."""
        if t[0] == "dict":
            return list(t[1]) if all(is_const(k) for k, _ in t[1]) else None
        if t[0] == "ite" and d < 8:
            a, b = SymX._dict_items(t[2], d + 1), SymX._dict_items(t[3], d + 1)
            if a is None or b is None or [k for k, _ in a] != [k for k, _ in b]:
                return None
            return [(k, mk_ite(t[1], va, vb)) for (k, va), (_, vb) in zip(a, b)]
        return None

    @staticmethod
    def _dict_valued(t, d=0):
        if t[0] == "dict":
            return True
        return t[0] == "ite" and d < 8 and SymX._dict_valued(t[2], d + 1) and SymX._dict_valued(t[3], d + 1)

    def _resolves(self, call, f):
        return bool(self.ctx.cg.resolve(call, f))

    def expr(self, e, st, f, depth):
        ev = lambda x: self.expr(x, st, f, depth)
        if isinstance(e, ast.Constant):
            return C(e.value)
        if isinstance(e, ast.Name):
            if e.id in st.env:
                return st.env[e.id]
            ok, v = self.prog.try_const(e, f.mod)
            if ok and isinstance(v, (int, float, str, bool, type(None))):
                return C(v)
            if ok and isinstance(v, (tuple, list)) and all(isinstance(x, (int, float, str, bool, type(None))) for x in v) and e.id not in f.mod.funcs:
                return ("tup" if isinstance(v, tuple) else "list", tuple(C(x) for x in v))
            if ok and isinstance(v, (tuple, list)) and e.id not in f.mod.funcs and not self._module_object_modified(f.mod, e.id):
                def _lit(x, d=0):
                    if isinstance(x, (int, float, str, bool, type(None))):
                        return C(x)
                    if isinstance(x, (tuple, list)) and d < 3 and len(x) <= 32:
                        items = [_lit(y, d + 1) for y in x]
                        if all(i is not None for i in items):
                            return ("tup" if isinstance(x, tuple) else "list", tuple(items))
                    return None
                lit = _lit(v)
                if lit is not None:
                    return lit
            if not ok and e.id in f.mod.consts and isinstance(f.mod.consts[e.id], (ast.Tuple, ast.List)) and len(f.mod.consts[e.id].elts) <= 12 \
                    and not any(isinstance(n, (ast.Call, ast.Lambda, ast.ListComp, ast.GeneratorExp, ast.Starred)) for n in ast.walk(f.mod.consts[e.id])) \
                    and not self._module_object_modified(f.mod, e.id):
                # a module-level table of constants and class / function names: ((PLAYER_1, PlayerOne), ...)
                return self.expr(f.mod.consts[e.id], State(), f, depth)
            if ok and isinstance(v, dict) and all(isinstance(k_, (int, str)) for k_ in v) and not self._module_object_modified(f.mod, e.id):
                def _lit2(x, d=0):
                    if isinstance(x, (int, float, str, bool, type(None))):
                        return C(x)
                    if isinstance(x, (tuple, list)) and d < 3 and len(x) <= 32:
                        items = [_lit2(y, d + 1) for y in x]
                        if all(i is not None for i in items):
                            return ("tup" if isinstance(x, tuple) else "list", tuple(items))
                    return None
                vals = [(C(k_), _lit2(x)) for k_, x in v.items()]
                if all(x is not None for _, x in vals):
                    return ("dict", tuple(vals))
            if e.id in f.mod.consts and isinstance(f.mod.consts[e.id], ast.Call) and call_name(f.mod.consts[e.id]) in (
                    "attrgetter", "operator.attrgetter", "itemgetter", "operator.itemgetter") and not self._module_object_modified(f.mod, e.id) \
                    and all(self.prog.try_const(a_, f.mod)[0] for a_ in f.mod.consts[e.id].args) and not f.mod.consts[e.id].keywords:
                return self.expr(f.mod.consts[e.id], State(), f, depth)         # a module-level accessor: GET = operator.attrgetter("a", "b")
            return ("v", e.id)
        if isinstance(e, ast.Attribute):
            p = attr_path(e)
            if p and p.split(".")[0] not in st.env:
                ok, v = (False, None)
                if p.startswith("math.") or p.startswith("logging."):
                    return ("v", p)
            base = ev(e.value)
            k = (base, e.attr)
            if k in st.heap:
                return st.heap[k]
            if base[0] == "dict" and base[1] and base[1][0][0] == C(self.RECORD_KEY):
                hit = [v for k_, v in base[1] if k_ == C(e.attr)]
                if hit:
                    return hit[0]
            if base == ("v", "self") and self.cls_name in ("Solver", "StochasticGame") and not self.ctx.cache.get("_option_consts_busy"):
                # an option of the game / the solver outside the documented description (`initial_state=0`), at its default
                self.ctx.cache["_option_consts_busy"] = True
                try:
                    from .rules import shared as _shared
                    oc = _shared.option_field_consts(self.ctx, self.cls_name)
                except AnalysisError:
                    oc = {}
                finally:
                    self.ctx.cache["_option_consts_busy"] = False
                if e.attr in oc:
                    return C(oc[e.attr])
            if base == ("v", "self") and self.cls_name:
                # class-level default (`label_type = None` in a class body), looked up along the MRO
                for cn in self.prog.mro(self.cls_name):
                    for stc in self.prog.classes[cn].node.body:
                        if isinstance(stc, ast.Assign) and any(isinstance(t_, ast.Name) and t_.id == e.attr for t_ in stc.targets):
                            ok_, v_ = self.prog.try_const(stc.value, self.prog.classes[cn].mod)
                            if ok_ and isinstance(v_, (int, float, str, bool, type(None))):
                                return C(v_)
            return ("attr", base, e.attr)
        if isinstance(e, ast.Subscript):
            base = ev(e.value)
            if isinstance(e.slice, ast.Slice):
                lo = ev(e.slice.lower) if e.slice.lower else C(None)
                hi = ev(e.slice.upper) if e.slice.upper else C(None)
                stp = ev(e.slice.step) if e.slice.step else C(None)
                return simp(("slice", base, lo, hi, stp))
            i = ev(e.slice)
            return self._subscript(base, i)
        if isinstance(e, ast.List) and len(e.elts) == 1 and isinstance(e.elts[0], ast.Starred):
            return simp(("call", "list", (ev(e.elts[0].value),), ()))        # [*xs] is list(xs)
        if isinstance(e, ast.Tuple):
            return ("tup", tuple(ev(x) for x in e.elts))
        if isinstance(e, ast.List):
            return ("list", tuple(ev(x) for x in e.elts))
        if isinstance(e, ast.Set):
            return ("set", tuple(sorted((ev(x) for x in e.elts), key=key)))
        if isinstance(e, ast.Dict):
            items = []
            for k, v in zip(e.keys, e.values):
                if k is not None:
                    items.append((ev(k), ev(v)))
                    continue
                sv = ev(v)
                flat = self._dict_items(sv)
                if flat is not None and all(is_const(k_) and isinstance(k_[1], str) for k_, _ in flat) and all(is_const(k_) for k_, _ in items):
                    # `**d` of a dictionary whose keys are known: its entries, later ones replacing earlier ones
                    for k_, v_ in flat:
                        if any(k0 == k_ for k0, _ in items):
                            items = [(k0, (v_ if k0 == k_ else v0)) for k0, v0 in items]
                        else:
                            items.append((k_, v_))
                else:
                    items.append((C(None), sv))
            return ("dict", tuple(items))
        if isinstance(e, ast.BinOp):
            return self.binop(e.op, ev(e.left), ev(e.right))
        if isinstance(e, ast.UnaryOp):
            v = ev(e.operand)
            if isinstance(e.op, ast.Not):
                return mk_not(self.truth(v))
            if isinstance(e.op, ast.USub):
                return negate(v)
            return v
        if isinstance(e, ast.BoolOp):
            vals = []
            for i_, x in enumerate(e.values):
                bound = [n.target.id for n in ast.walk(x) if isinstance(n, ast.NamedExpr) and isinstance(n.target, ast.Name)] if i_ else []
                before = {b: st.env.get(b, UNBOUND) for b in bound}
                vals.append(ev(x))
                if bound:
                    # a binding in a later operand happens only when the earlier operands let the evaluation get there
                    reach = [self.truth(v) for v in vals[:-1]]
                    reach = mk_and(*reach) if isinstance(e.op, ast.And) else mk_and(*[mk_not(r) for r in reach])
                    for b in bound:
                        st.env[b] = mk_ite(reach, st.env[b], before[b])
            tv = [self.truth(v) for v in vals]
            # value-level `a or b` used as fallback keeps a distinct head so rules can see it
            if any(t[0] == "truthy" for t in tv):
                return ("boolval", "and" if isinstance(e.op, ast.And) else "or", tuple(vals))
            return mk_and(*tv) if isinstance(e.op, ast.And) else mk_or(*tv)
        if isinstance(e, ast.Compare):
            left = ev(e.left)
            parts = []
            for op, r in zip(e.ops, e.comparators):
                right = ev(r)
                o = {ast.Lt: "<", ast.LtE: "<=", ast.Gt: ">", ast.GtE: ">=", ast.Eq: "==", ast.NotEq: "!=",
                     ast.In: "in", ast.NotIn: "notin", ast.Is: "is", ast.IsNot: "isnot"}[type(op)]
                if o in ("is", "isnot") and C(None) in (left, right):
                    left, right = self._list_valued(left), self._list_valued(right)
                ident = None
                if o in ("is", "isnot"):
                    l_ast = e.left if r is e.comparators[0] else e.comparators[e.comparators.index(r) - 1]
                    ident = self._sentinel_identity(l_ast, r, left, right, st, f)
                    if ident is not None and o == "isnot":
                        ident = mk_not(ident)
                parts.append(ident if ident is not None else simp(("cmp", o, left, right)))
                left = right
            return mk_and(*parts)
        if isinstance(e, ast.IfExp):
            return mk_ite(self.truth(ev(e.test)), ev(e.body), ev(e.orelse))
        if isinstance(e, ast.NamedExpr) and isinstance(e.target, ast.Name) and not getattr(self, "_in_compr", 0):
            v = ev(e.value)                     # `(x := value)`: binds x and is the value
            st.env[e.target.id] = v
            return v
        if isinstance(e, (ast.ListComp, ast.GeneratorExp, ast.SetComp, ast.DictComp)):
            return self.comprehension(e, st, f, depth)
        if isinstance(e, ast.JoinedStr):
            parts = []
            for v in e.values:
                if isinstance(v, ast.Constant):
                    parts.append(C(v.value))
                else:
                    spec = None
                    if v.format_spec is not None:
                        fs = v.format_spec
                        if isinstance(fs, ast.JoinedStr) and all(isinstance(x, ast.Constant) for x in fs.values):
                            spec = "".join(str(x.value) for x in fs.values)
                        else:
                            spec = src(fs)
                            if isinstance(fs, ast.JoinedStr):
                                # a computed format spec `{x:<{WIDTH}}` whose pieces are all constants
                                bits = []
                                for x in fs.values:
                                    if isinstance(x, ast.Constant):
                                        bits.append(str(x.value))
                                    elif isinstance(x, ast.FormattedValue) and x.format_spec is None and x.conversion == -1:
                                        xv = ev(x.value)
                                        if is_const(xv) and isinstance(xv[1], (int, str)) and not isinstance(xv[1], bool):
                                            bits.append(str(xv[1]))
                                        else:
                                            bits = None
                                            break
                                    else:
                                        bits = None
                                        break
                                if bits is not None:
                                    spec = "".join(bits)
                    val = ev(v.value)
                    if is_const(val) and v.conversion == -1 and isinstance(val[1], (str, int)) and not isinstance(val[1], bool):
                        try:
                            parts.append(C(format(val[1], spec or "")))    # constant folding of a literal under a literal spec
                            continue
                        except (ValueError, TypeError):
                            pass
                    parts.append(("fmt", val, v.conversion, spec))
            merged = []
            for p_ in parts:
                if is_const(p_) and merged and is_const(merged[-1]) and isinstance(p_[1], str) and isinstance(merged[-1][1], str):
                    merged[-1] = C(merged[-1][1] + p_[1])
                else:
                    merged.append(p_)
            if len(merged) == 1 and is_const(merged[0]):
                return merged[0]
            if len(merged) == 1 and merged[0][0] == "fmt" and merged[0][2] == -1 and not merged[0][3]:
                return simp(("call", "str", (merged[0][1],), ()))          # f"{x}" is str(x) (format(x, "") for the numbers and strings met here)
            return ("fstr", tuple(merged))
        if isinstance(e, ast.Call):
            return self.call(e, st, f, depth)
        if isinstance(e, ast.Starred):
            return ("star", ev(e.value))
        if isinstance(e, ast.Lambda):
            cid = next(self._ids)
            self.closures[cid] = (e, dict(st.env), f)
            return ("closure", cid)
        raise Unsupported("expression %s" % type(e).__name__)

    def call(self, c, st, f, depth):
        ev = lambda x: self.expr(x, st, f, depth)
        name = call_name(c)
        args = tuple(ev(a) for a in c.args)
        kws = tuple((k.arg, ev(k.value)) for k in c.keywords)
        if name == "setattr" and len(args) == 3 and is_const(args[1]) and isinstance(args[1][1], str) and not kws:
            st.heap[(args[0], args[1][1])] = args[2]
            st.effects.append((self._alive(st), "store", args[0], args[1][1], args[2]))
            return C(None)
        if name == "getattr" and len(args) == 2 and is_const(args[1]) and isinstance(args[1][1], str) and not kws:
            k_ = (args[0], args[1][1])
            return st.heap[k_] if k_ in st.heap else ("attr", args[0], args[1][1])
        if name in ("os.path.join", "posixpath.join") and args and not kws and all(not (is_const(a) and (not isinstance(a[1], str) or a[1].startswith("/"))) for a in args):
            out = args[0]
            for a in args[1:]:
                if not (is_const(out) and isinstance(out[1], str) and out[1].endswith("/")):
                    out = simp(("strcat", out, C("/")))
                out = simp(("strcat", out, a))
            return out
        if isinstance(c.func, ast.Name) and c.func.id not in st.env and c.func.id in f.mod.consts and isinstance(f.mod.consts[c.func.id], ast.Call) and len(args) == 1 and not kws:
            acc_ = self.expr(c.func, st, f, depth)           # GET = operator.attrgetter("a", "b") at module level; GET(obj)
            if acc_[0] == "call" and acc_[1] in ("attrgetter", "operator.attrgetter") and all(is_const(x) and isinstance(x[1], str) and "." not in x[1] for x in acc_[2]):
                vals_ = tuple(st.heap[(args[0], x[1])] if (args[0], x[1]) in st.heap else ("attr", args[0], x[1]) for x in acc_[2])
                return vals_[0] if len(vals_) == 1 else ("tup", vals_)
            if acc_[0] == "call" and acc_[1] in ("itemgetter", "operator.itemgetter") and acc_[2]:
                vals_ = tuple(simp(("idx", args[0], x)) for x in acc_[2])
                return vals_[0] if len(vals_) == 1 else ("tup", vals_)
        if name == "next" and 1 <= len(args) <= 2 and not kws and args[0][0] == "compr" and args[0][1] in self.loops:
            # next(<generator over a short literal table> [, default]): the first entry that passes the filter, written as a chain
            # of choices (`next((cls for kind, cls in TABLE if kind == player), None)`)
            L = self.loops[args[0][1]]
            if L.source[0] in ("tup", "list") and len(L.source[1]) <= 8 and L.whole and not L.inner and L.elt is not None and not L.enumerated and len(args) == 2:
                el = ("elem", L.id)
                out = args[1]
                for item in reversed(L.source[1]):
                    cond = deep_simp(subst(mk_and(*L.filters) if L.filters else TRUE, lambda x: item if x == el else None))
                    val = deep_simp(subst(L.elt, lambda x: item if x == el else None))
                    out = simp(("ite", cond, val, out))
                return out
        if name in ("map", "filter") and len(c.args) == 2 and not c.keywords and not any(isinstance(a, ast.Starred) for a in c.args):
            r = self._map_as_comprehension(c, name, st, f, depth)
            if r is not None:
                return r
        if name in ("functools.reduce", "reduce") and len(c.args) == 3 and not c.keywords and not any(isinstance(a, ast.Starred) for a in c.args):
            r = self._reduce_as_loop(c, st, f, depth)
            if r is not None:
                return r
        # self.method(...) -> inline
        if isinstance(c.func, ast.Attribute) and isinstance(c.func.value, ast.Name) and c.func.value.id == "self" \
                and self.cls_name and st.env.get("self") == ("v", "self"):
            m = self.prog.resolve_method(self.cls_name, c.func.attr)
            if m is not None and depth < self.inline_depth:
                static = any(isinstance(d, ast.Name) and d.id == "staticmethod" for d in m.node.decorator_list)
                return self.inline(m, (args if static else (("v", "self"),) + args), kws, st, depth)
        if isinstance(c.func, ast.Name) and c.func.id in st.env:
            fv = st.env[c.func.id]
            if fv[0] == "closure" and depth < self.inline_depth + 2:
                return self.inline_closure(fv[1], args, kws, st, depth)
            if fv[0] == "v" and fv[1] in f.mod.funcs and depth < self.inline_depth and fv[1] not in self.no_inline:
                return self.inline(f.mod.funcs[fv[1]], args, kws, st, depth)
            if fv[0] == "call" and fv[1] in ("attrgetter", "operator.attrgetter") and len(fv[2]) > 1 and len(args) == 1 and not kws \
                    and all(is_const(x) and isinstance(x[1], str) and "." not in x[1] for x in fv[2]):
                # attrgetter("a", "b")(obj) is (obj.a, obj.b)
                return ("tup", tuple(st.heap[(args[0], x[1])] if (args[0], x[1]) in st.heap else ("attr", args[0], x[1]) for x in fv[2]))
            if fv[0] == "call" and fv[1] in ("itemgetter", "operator.itemgetter") and len(fv[2]) > 1 and len(args) == 1 and not kws:
                return ("tup", tuple(simp(("idx", args[0], x)) for x in fv[2]))
            if fv[0] == "call" and fv[1] in ("attrgetter", "operator.attrgetter") and len(fv[2]) == 1 and is_const(fv[2][0]) and isinstance(fv[2][0][1], str) \
                    and "." not in fv[2][0][1] and len(args) == 1 and not kws:
                k_ = (args[0], fv[2][0][1])
                return st.heap[k_] if k_ in st.heap else ("attr", args[0], fv[2][0][1])
            if fv[0] == "call" and fv[1] in ("itemgetter", "operator.itemgetter") and len(fv[2]) == 1 and len(args) == 1 and not kws:
                return simp(("idx", args[0], fv[2][0]))
            if fv[0] == "call" and fv[1] in ("methodcaller", "operator.methodcaller") and fv[2] and is_const(fv[2][0]) and isinstance(fv[2][0][1], str) and len(args) == 1:
                return ("mcall", args[0], fv[2][0][1], tuple(fv[2][1:]), tuple(fv[3]))
            if fv[0] == "attr" and fv[1] == ("v", "operator") and fv[2] in ("gt", "lt", "ge", "le", "eq", "ne") and len(args) == 2:
                op_ = {"gt": ">", "lt": "<", "ge": ">=", "le": "<=", "eq": "==", "ne": "!="}[fv[2]]
                return simp(("cmp", op_, args[0], args[1]))
            if fv[0] == "attr" and fv[1] == ("v", "self") and self.cls_name and st.env.get("self") == ("v", "self") and depth < self.inline_depth:
                m = self.prog.resolve_method(self.cls_name, fv[2])     # a bound method passed around as a value
                if m is not None and not any(isinstance(d, ast.Name) and d.id == "staticmethod" for d in m.node.decorator_list):
                    return self.inline(m, (("v", "self"),) + args, kws, st, depth)
            if fv[0] == "v" and fv[1] != c.func.id and fv[1] in ("max", "min", "sum", "len", "sorted", "abs", "round", "any", "all", "list", "tuple", "set", "frozenset") \
                    and fv[1] not in f.mod.funcs and fv[1] not in f.mod.consts:
                return simp(("call", fv[1], args, kws))           # a builtin handed over as a value (`pick=max`) and called
            if fv[0] == "v" and isinstance(fv[1], str) and "." in fv[1] and fv[1].split(".")[0] in ("math", "random", "logging", "copy", "os", "time", "operator", "itertools", "functools"):
                return simp(("call", fv[1], args, kws))           # a local name for a library function: `log = math.log`
            if fv[0] == "attr" and fv[1][0] == "v" and fv[1][1] in ("math", "random", "copy", "os", "time", "operator", "itertools", "functools") and fv[1][1] not in st.env \
                    and fv[1][1] not in f.mod.funcs and fv[1][1] not in f.mod.consts:
                return simp(("call", "%s.%s" % (fv[1][1], fv[2]), args, kws))
            if fv[0] != "v" or fv[1] != c.func.id:
                return ("apply", fv, args, kws)
        if isinstance(c.func, ast.Attribute) and isinstance(c.func.value, ast.Call) and isinstance(c.func.value.func, ast.Name) \
                and c.func.value.func.id == "super" and f.cls is not None and depth < self.inline_depth and st.env.get("self") == ("v", "self"):
            for b_ in self.prog.mro(f.cls.name)[1:]:
                m = self.prog.classes[b_].methods.get(c.func.attr)
                if m is not None:
                    return self.inline(m, (("v", "self"),) + args, kws, st, depth)
        if isinstance(c.func, ast.Name) and c.func.id in self.prog.classes and c.func.id not in st.env:
            rec = self._record(c.func.id, args, kws, f, depth)
            if rec is not None:
                return rec
        callees = self.ctx.cg.resolve(c, f)
        if isinstance(c.func, ast.Name) and len(callees) == 1 and callees[0].cls is None and depth < self.inline_depth \
                and callees[0].name not in self.no_inline:
            return self.inline(callees[0], args, kws, st, depth)
        if isinstance(c.func, ast.Attribute) and not name.startswith(("math.", "logging.", "random.", "copy.", "time.")):
            recv = ev(c.func.value)
            if self.inline_foreign and len(callees) == 1 and callees[0].cls is not None and depth < self.inline_depth and not kws \
                    and callees[0].name not in self.no_inline and not callees[0].node.args.vararg \
                    and not any(isinstance(d, ast.Name) and d.id in ("staticmethod", "classmethod", "property") for d in callees[0].node.decorator_list):
                m = callees[0]
                npar = len(m.params) - 1
                flat = []
                stars = [a for a in args if a[0] == "star"]
                if len(stars) == 1 and len(args) - 1 <= npar:
                    k = npar - (len(args) - 1)
                    for a in args:
                        if a[0] == "star":
                            flat.extend(simp(("idx", a[1], C(i))) for i in range(k))
                        else:
                            flat.append(a)
                elif not stars:
                    flat = list(args)
                if flat or not args:
                    saved = self.cls_name
                    self.cls_name = m.cls.name
                    try:
                        return self.inline(m, (recv,) + tuple(flat), kws, st, depth)
                    finally:
                        self.cls_name = saved
            if callees or not isinstance(c.func.value, ast.Name) or c.func.value.id in st.env:
                return simp(("mcall", recv, c.func.attr, args, kws))
        if isinstance(c.func, ast.Attribute) and isinstance(c.func.value, ast.Name) and c.func.value.id in f.mod.consts \
                and c.func.attr in ("get", "index", "count", "keys", "values", "items"):
            recv = ev(c.func.value)                           # a method of a module-level literal table: TABLE.get(k)
            if recv[0] in ("dict", "tup", "list"):
                return simp(("mcall", recv, c.func.attr, args, kws))
        if not isinstance(c.func, (ast.Name, ast.Attribute)):
            fv = ev(c.func)                                   # table[key](...), factory()(...)
            if fv[0] == "closure" and depth < self.inline_depth + 2:
                return self.inline_closure(fv[1], args, kws, st, depth)
            return ("apply", fv, args, kws)
        return simp(("call", name, args, kws))

    @staticmethod
    def _module_object_modified(mod, name):
        """A module-level object `name` is subscript-assigned, deleted from, or has a mutating method called on it anywhere in its module."""
        for n in ast.walk(mod.tree):
            if isinstance(n, ast.Subscript) and isinstance(n.ctx, (ast.Store, ast.Del)) and isinstance(n.value, ast.Name) and n.value.id == name:
                return True
            if isinstance(n, ast.Call) and isinstance(n.func, ast.Attribute) and isinstance(n.func.value, ast.Name) and n.func.value.id == name \
                    and n.func.attr in ("update", "pop", "popitem", "clear", "setdefault", "__setitem__", "__delitem__"):
                return True
            if isinstance(n, ast.Global) and name in n.names:
                return True
        return False

    def _map_as_comprehension(self, c, name, st, f, depth):
        """map(fn, xs) == (fn(x) for x in xs); filter(fn, xs) == (x for x in xs if fn(x)) - evaluated as that generator."""
        a0 = c.args[0]
        if isinstance(a0, ast.Name) and a0.id in ("max", "min", "len", "abs", "str", "int", "float", "sum", "sorted", "round", "bool", "tuple", "list", "set") \
                and a0.id not in st.env and a0.id not in f.mod.funcs and a0.id not in f.mod.consts and len(c.args) == 2:
            # a builtin applied to every element: map(max, rows) == (max(row) for row in rows)
            x = "$mx%d" % next(self._ids)
            call = ast.Call(func=ast.Name(id=a0.id, ctx=ast.Load()), args=[ast.Name(id=x, ctx=ast.Load())], keywords=[])
            gen = ast.comprehension(target=ast.Name(id=x, ctx=ast.Store()), iter=c.args[1], ifs=[call] if name == "filter" else [], is_async=0)
            ge = ast.GeneratorExp(elt=call if name == "map" else ast.Name(id=x, ctx=ast.Load()), generators=[gen])
            for node in ast.walk(ge):
                if node is not c.args[1] and not hasattr(node, "lineno"):
                    ast.copy_location(node, c)
            ast.copy_location(ge, c)
            ge.parent = c
            gen.parent = ge
            return self.expr(ge, st, f, depth)
        fv = self.expr(c.args[0], st, f, depth)
        known = fv[0] == "closure" or (fv[0] == "v" and fv[1] in f.mod.funcs) or \
            (fv[0] == "call" and fv[1] in ("attrgetter", "operator.attrgetter", "itemgetter", "operator.itemgetter", "methodcaller", "operator.methodcaller"))
        if not known:
            return None
        n = next(self._ids)
        fn, x = "$mf%d" % n, "$mx%d" % n
        st.env[fn] = fv
        call = ast.Call(func=ast.Name(id=fn, ctx=ast.Load()), args=[ast.Name(id=x, ctx=ast.Load())], keywords=[])
        gen = ast.comprehension(target=ast.Name(id=x, ctx=ast.Store()), iter=c.args[1], ifs=[call] if name == "filter" else [], is_async=0)
        ge = ast.GeneratorExp(elt=call if name == "map" else ast.Name(id=x, ctx=ast.Load()), generators=[gen])
        for node in ast.walk(ge):
            if node is not c.args[1] and not hasattr(node, "lineno"):
                ast.copy_location(node, c)
        ast.copy_location(ge, c)
        ge.parent = c
        gen.parent = ge
        return self.expr(ge, st, f, depth)

    def _reduce_as_loop(self, c, st, f, depth):
        """functools.reduce(fn, xs, start)  ==  acc = start; for x in xs: acc = fn(acc, x) - evaluated as that loop."""
        fv = self.expr(c.args[0], st, f, depth)
        builtin = isinstance(c.args[0], ast.Name) and c.args[0].id in ("min", "max") and c.args[0].id not in st.env
        if not builtin and fv[0] != "closure" and not (fv[0] == "v" and fv[1] in f.mod.funcs):
            return None
        n = next(self._ids)
        fn, acc, x = "$rf%d" % n, "$racc%d" % n, "$rx%d" % n
        if builtin:
            fn = c.args[0].id
        else:
            st.env[fn] = fv
        st.env[acc] = self.expr(c.args[2], st, f, depth)
        step = ast.Assign(targets=[ast.Name(id=acc, ctx=ast.Store())],
                          value=ast.Call(func=ast.Name(id=fn, ctx=ast.Load()), args=[ast.Name(id=acc, ctx=ast.Load()), ast.Name(id=x, ctx=ast.Load())], keywords=[]))
        loop = ast.For(target=ast.Name(id=x, ctx=ast.Store()), iter=c.args[1], body=[step], orelse=[])
        for node in ast.walk(loop):
            if node is not c.args[1] and not hasattr(node, "lineno"):
                ast.copy_location(node, c)
        for node in (loop, step):
            ast.copy_location(node, c)
        loop.parent = c
        step.parent = loop
        self.for_loop(loop, st, f, depth)
        return st.env[acc]

    RECORD_KEY = "__record_of__"

    def _record(self, cname, args, kws, f, depth):
        """An object of a plain record class - no base class, a constructor that only does `self.<field> = <expression of its
        parameters>` - is the table of its fields: `Phase(states, strategies).strategies` is `strategies`.  Methods called on it stay
        unresolved.  None for every other class."""
        if cname in ("StochasticGame", "Node", "ProbabilisticNode", "PlayerOne", "PlayerTwo", "Solver"):
            return None                     # the classes the rules are about
        cls = self.prog.classes[cname]
        if cls.bases or any(not (isinstance(b, ast.Name) and b.id == "object") for b in cls.node.bases) or cls.node.decorator_list:
            return None
        init = cls.methods.get("__init__")
        if init is None or init.node.decorator_list or init.node.args.vararg or init.node.args.kwarg:
            return None
        me = init.params[0] if init.params else None
        body = [b for b in init.node.body if not (isinstance(b, ast.Expr) and isinstance(b.value, ast.Constant))]
        fields = []
        for b in body:
            if not (isinstance(b, ast.Assign) and len(b.targets) == 1 and isinstance(b.targets[0], ast.Attribute) and isinstance(b.targets[0].value, ast.Name)
                    and b.targets[0].value.id == me):
                return None
            if b.targets[0].attr in [x for x, _ in fields]:
                return None
            fields.append((b.targets[0].attr, b.value))
        # fields written anywhere else make the table stale
        for g in self.prog.all_funcs():
            if g is init:
                continue
            for n in ast.walk(g.node):
                if isinstance(n, ast.Attribute) and isinstance(n.ctx, (ast.Store, ast.Del)) and n.attr in [x for x, _ in fields] \
                        and not (isinstance(n.value, ast.Name) and n.value.id == "self" and g.cls is not None and g.cls.name != cname):
                    return None
        params = [p for p in init.params if p != me]
        if any(a[0] == "star" for a in args) or len(args) > len(params):
            return None
        sub = State()
        for p_, a in zip(params, args):
            sub.env[p_] = a
        for k, v in kws:
            if k not in params:
                return None
            sub.env[k] = v
        for p_ in params + list(init.kwonly):
            if p_ not in sub.env:
                if p_ not in init.defaults:
                    return None
                ok, v = self.prog.try_const(init.defaults[p_], init.mod)
                if not ok:
                    return None
                sub.env[p_] = C(v)
        sub.env[me] = ("v", "$new_" + cname)
        items = [(C(self.RECORD_KEY), C(cname))]
        for name, val in fields:
            try:
                t = self.expr(val, sub, init, depth + 1)
            except Unsupported:
                return None
            items.append((C(name), t))
        return ("dict", tuple(items))

    def inline(self, m, args, kws, st, depth):
        sub = State()
        params = m.params + m.kwonly
        for p, a in zip(m.params, args):
            sub.env[p] = a
        for k, v in kws:
            sub.env[k] = v
        for p in params:
            if p not in sub.env:
                if p in m.defaults:
                    ok, v = self.prog.try_const(m.defaults[p], m.mod)
                    sub.env[p] = C(v) if ok else ("v", p)
                else:
                    sub.env[p] = ("v", p)
        sub.env["$ret"] = C(None)
        sub.env["$returned"] = FALSE
        is_gen = any(isinstance(n, (ast.Yield, ast.YieldFrom)) for n in ast.walk(m.node))
        if is_gen:
            sub.env["$yield"] = ("list", ())
        sub.heap = dict(st.heap)
        out = self.block(m.node.body, sub, m, depth + 1)
        self.calls_inlined.append(m.qual)
        st.heap = out.heap
        alive = self._alive(st)
        for e in out.effects:
            st.effects.append((mk_and(alive, e[0]),) + e[1:])
        if is_gen:
            return out.env["$yield"]
        return out.env["$ret"]

    def inline_closure(self, cid, args, kws, st, depth):
        node, env, f = self.closures[cid]
        sub = State()
        sub.env = dict(env)
        a = node.args
        params = [x.arg for x in a.posonlyargs + a.args]
        for p_, v in zip(params, args):
            sub.env[p_] = v
        for k, v in kws:
            sub.env[k] = v
        sub.env["$ret"] = C(None)
        sub.env["$returned"] = FALSE
        sub.heap = dict(st.heap)
        if isinstance(node, ast.Lambda):
            return self.expr(node.body, sub, f, depth + 1)
        is_gen = any(isinstance(n, (ast.Yield, ast.YieldFrom)) for b in node.body for n in ast.walk(b)
                     if not isinstance(b, (ast.FunctionDef, ast.AsyncFunctionDef)))
        if is_gen:
            sub.env["$yield"] = ("list", ())       # a local generator function: what it yields, collected (as for module-level ones)
        out = self.block(node.body, sub, f, depth + 1)
        alive = self._alive(st)
        for e in out.effects:
            st.effects.append((mk_and(alive, e[0]),) + e[1:])
        if is_gen:
            return out.env["$yield"]
        return out.env["$ret"]


def _as_load(t):
    import copy
    t2 = copy.copy(t)
    t2.ctx = ast.Load()
    return t2


# ---- pretty printer ---------------------------------------------------------------

def show(t):
    if not isinstance(t, tuple) or not t:
        return repr(t)
    h = t[0]
    if h == "c":
        return repr(t[1])
    if h == "v":
        return t[1]
    if h == "attr":
        return "%s.%s" % (show(t[1]), t[2])
    if h == "idx":
        return "%s[%s]" % (show(t[1]), show(t[2]))
    if h in ("tup", "list", "set"):
        o, c = {"tup": "()", "list": "[]", "set": "{}"}[h]
        return o + ", ".join(show(x) for x in t[1]) + c
    if h == "add":
        return "(" + " + ".join(show(x) for x in t[1]) + ")"
    if h == "mul":
        return "(" + " * ".join(show(x) for x in t[1]) + ")"
    if h == "neg":
        return "-" + show(t[1])
    if h == "div":
        return "(%s / %s)" % (show(t[1]), show(t[2]))
    if h == "cmp":
        return "(%s %s %s)" % (show(t[2]), {"notin": "not in", "isnot": "is not"}.get(t[1], t[1]), show(t[3]))
    if h == "not":
        return "not " + show(t[1])
    if h in ("and", "or"):
        return "(" + (" %s " % h).join(show(x) for x in t[1]) + ")"
    if h == "ite":
        return "(%s if %s else %s)" % (show(t[2]), show(t[1]), show(t[3]))
    if h == "call":
        a = [show(x) for x in t[2]] + ["%s=%s" % (k, show(v)) for k, v in t[3]]
        return "%s(%s)" % (t[1], ", ".join(a))
    if h == "mcall":
        a = [show(x) for x in t[3]] + ["%s=%s" % (k, show(v)) for k, v in t[4]]
        return "%s.%s(%s)" % (show(t[1]), t[2], ", ".join(a))
    if h == "apply" and len(t) == 4:
        a = [show(x) for x in t[2]] + ["%s=%s" % (k, show(v)) for k, v in t[3]]
        return "(%s)(%s)" % (show(t[1]), ", ".join(a))
    if h == "acc":
        return "%s@L%d" % (t[2], t[1])
    if h == "res":
        return "%s'L%d" % (t[2], t[1])
    if h == "elem":
        return "elem%d" % t[1]
    if h == "pos":
        return "pos%d" % t[1]
    if h == "cat":
        return "%s ++ %s" % (show(t[1]), show(t[2]))
    if h == "compr":
        return "compr%d" % t[1]
    if h == "unbound":
        return "<unbound>"
    if h == "p":
        return "elem.0"
    if h == "t":
        return "elem.1"
    if h == "e":
        return "elem"
    if h == "sf":
        return "state[%s].%s" % (show(t[1]), t[2])
    if h == "filtered":
        return "[%s | %s]" % (show(t[1]), show(t[2]))
    if h == "truthy":
        return "bool(%s)" % show(t[1])
    return "%s(%s)" % (h, ", ".join(show(x) if isinstance(x, tuple) else repr(x) for x in t[1:]))


# ---- fold classification ----------------------------------------------------------------

class Fold:
    """Normal form of one carried variable of a loop."""

    def __init__(self, kind, **kw):
        self.kind = kind
        self.__dict__.update(kw)

    def __repr__(self):
        d = {k: (show(v) if isinstance(v, tuple) and v and isinstance(v[0], str) else v)
             for k, v in self.__dict__.items() if k != "kind"}
        return "%s(%s)" % (self.kind, ", ".join("%s=%s" % kv for kv in sorted(d.items())))


def strip_filter(loop, updates):
    """If every changing update is ite(F, u, acc) with one accumulator-free F, return (F, {var: u})."""
    filt = []
    while True:
        conds = set()
        for v, u in updates.items():
            acc = ("acc", loop.id, v)
            if u == acc or not mentions_acc(u, loop.id):
                continue    # unchanged, or a per-iteration temporary that does not accumulate
            if u[0] == "ite" and u[3] == acc and not mentions_acc(u[1], loop.id):
                conds.add(u[1])
            elif u[0] == "ite" and u[2] == acc and not mentions_acc(u[1], loop.id):
                conds.add(mk_not(u[1]))
            else:
                conds.add(None)
        if len(conds) != 1 or None in conds:
            break
        F = conds.pop()
        new = {}
        for v, u in updates.items():
            acc = ("acc", loop.id, v)
            if u == acc or not mentions_acc(u, loop.id):
                new[v] = u
            elif u[3] == acc and u[1] == F:
                new[v] = u[2]
            else:
                new[v] = u[3]
        updates = new
        filt.append(F)
    # a `continue` guard: updates of the form ite(cont, acc, u)
    return (mk_and(*filt) if filt else TRUE), updates


def _split_compound_guards(u, loop):
    """An update whose outer guard is a conjunction / disjunction of tests on the running value (the shape a `continue` in the
    middle of an if / elif chain leaves: `ite(not better and different, acc, ...)`) is split on the improvement test first, so
    that it reads `ite(better, ..., ite(tie, ..., acc))` again."""
    if not (isinstance(u, tuple) and u and u[0] == "ite" and u[1][0] in ("and", "or")):
        return u
    if not (u[1][0] == "and" and u[2][0] == "acc" and u[2][1] == loop.id):
        return u            # not `skip this element when neither better nor equal`: some other construction (a seed test, a tolerance
                            # test, a tie-first chain) that the recognisers know in its own shape
    guards = []

    def walk(x):
        if isinstance(x, tuple) and x:
            if x[0] == "ite":
                guards.append(x[1])
            for y in x:
                walk(y)
    walk(u)
    atoms = []
    for g in guards:
        for a in (g[1] if g[0] in ("and", "or") else (g,)):
            if a[0] == "cmp" and a[1] in ("<", "<=") and mentions_acc(a, loop.id):
                for cand in (a, simp(("not", a))):
                    if cand[1] == "<" and cand not in atoms:
                        atoms.append(cand)
    for A in atoms:
        u2 = path_simp(("ite", A, deep_simp(assume_deep(u, A, True)), deep_simp(assume_deep(u, A, False))))
        gs = []

        def walk2(x):
            if isinstance(x, tuple) and x:
                if x[0] == "ite":
                    gs.append(x[1])
                for y in x:
                    walk2(y)
        walk2(u2)
        if u2[0] == "ite" and u2[1] == A and not any(g[0] in ("and", "or") for g in gs):
            # the tie test with the positive comparison first: `acc if k != best else acc ++ [l]` is `acc ++ [l] if k == best else acc`
            return subst(u2, lambda x: ("ite", ("cmp", "==", x[1][2], x[1][3]), x[3], x[2]) if x[0] == "ite" and x[1][0] == "cmp" and x[1][1] == "!=" else None)
    return u


def classify(loop):
    """{var: Fold} for a for-loop; loop.filter is set to the accumulator-free guard of the whole body."""
    ups0 = dict(loop.update)
    for v0, u0 in list(ups0.items()):
        # `if wanted(e) and key(e) < best: best = key(e)`: the element filter and the improvement test in one condition
        acc0 = ("acc", loop.id, v0)
        if u0[0] == "ite" and u0[3] == acc0 and u0[1][0] == "and":
            free = [a for a in u0[1][1] if not mentions_acc(a, loop.id)]
            tied = [a for a in u0[1][1] if mentions_acc(a, loop.id)]
            if free and tied:
                ups0[v0] = ("ite", mk_and(*free), ("ite", mk_and(*tied), u0[2], acc0), acc0)
    F, ups = strip_filter(loop, ups0)
    loop.filter = F
    import os as _os
    if not _os.environ.get("SA_NOSPLIT"):
        ups = {v0: _split_compound_guards(u0, loop) for v0, u0 in ups.items()}
    # a seed test that cannot hold: `if best is None or e >= best` with best started from a number (a `bound=0` handed to a shared
    # helper whose other callers pass None) - the accumulator is only ever the seed or an element's key, never None.  The same
    # condition guards the companions of `best` (the arg variable): it is rewritten wherever it occurs
    rewrites = {}
    for v0, u0 in ups.items():
        acc0 = ("acc", loop.id, v0)
        init0 = loop.init.get(v0, UNBOUND)
        if u0[0] == "ite" and u0[3] == acc0 and u0[1][0] == "or" and len(u0[1][1]) == 2 and is_const(init0) and isinstance(init0[1], (int, float)) and not isinstance(init0[1], bool):
            dead = [x for x in u0[1][1] if x[0] == "cmp" and x[1] in ("is", "==") and C(None) in (x[2], x[3]) and acc0 in (x[2], x[3])]
            live = [x for x in u0[1][1] if x not in dead]
            if len(dead) == 1 and len(live) == 1 and not mentions_acc(u0[2], loop.id):
                rewrites[u0[1]] = live[0]
    if rewrites:
        ups = {v0: (("ite", rewrites[u0[1]], u0[2], u0[3]) if u0[0] == "ite" and u0[1] in rewrites else u0) for v0, u0 in ups.items()}
    out = {}
    ext = {}
    for v, u in ups.items():
        acc = ("acc", loop.id, v)
        init = loop.init.get(v, UNBOUND)
        if u == acc:
            out[v] = Fold("UNCHANGED", init=init)
            continue
        if not mentions_acc(u, loop.id) and _deep_mentions_acc(u, loop):
            # the accumulator is read inside a comprehension / nested loop of the update (`acc = tuple(a + x for a, x in zip(acc, xs))`):
            # not the value of the last iteration - an accumulation this classifier does not name
            out[v] = Fold("OTHER", init=init, term=u)
            continue
        if not mentions_acc(u, loop.id):
            out[v] = Fold("LAST", init=init, value=u)
            continue
        # SUM
        if u[0] == "add" and acc in u[1]:
            rest = [x for x in u[1]]
            rest.remove(acc)
            rest_t = simp(("add", tuple(rest)))
            if not mentions_acc(rest_t, loop.id):
                out[v] = Fold("SUM", init=init, term=rest_t)
                continue
        # COLLECT
        if u[0] == "cat" and u[1] == acc and u[2][0] == "list" and len(u[2][1]) == 1 and not mentions_acc(u[2], loop.id):
            out[v] = Fold("COLLECT", init=init, term=u[2][1][0])
            continue
        # COLLECT under a guard of its own (a partition loop: `if c: a.append(x) else: b.append(x)` - the two lists have
        # complementary filters, so there is no common guard for strip_filter to take out)
        if u[0] == "ite" and not mentions_acc(u[1], loop.id) and (u[3] == acc or u[2] == acc):
            inner, own = (u[2], u[1]) if u[3] == acc else (u[3], mk_not(u[1]))
            if inner[0] == "cat" and inner[1] == acc and inner[2][0] == "list" and len(inner[2][1]) == 1 and not mentions_acc(inner[2], loop.id):
                out[v] = Fold("COLLECT", init=init, term=inner[2][1][0], own_filter=own)
                continue
        # MAX / MIN, including the None-seeded idiom `if best is None or e < best: best = e`
        none_seeded = False
        truthy_seed = False
        if u[0] == "ite" and u[3] == acc and u[1][0] == "or" and len(u[1][1]) == 2 and init == C(None):
            def _is_seed_test(x):
                # `best is None` on this accumulator or on one that is assigned jointly with it (also None-initialised)
                if x[0] == "cmp" and x[1] in ("is", "==") and C(None) in (x[2], x[3]):
                    o = x[3] if x[2] == C(None) else x[2]
                    return o[0] == "acc" and o[1] == loop.id and loop.init.get(o[2]) == C(None)
                return False

            def _is_truthy_seed(x):
                return x[0] == "not" and x[1][0] == "truthy" and x[1][1][0] == "acc" and x[1][1][1] == loop.id and loop.init.get(x[1][1][2]) == C(None)
            isnone = [x for x in u[1][1] if _is_seed_test(x) or _is_truthy_seed(x)]
            others = [x for x in u[1][1] if x not in isnone]
            if len(isnone) == 1 and len(others) == 1 and others[0][0] == "cmp" and others[0][1] in ("<", "<="):
                truthy_seed = _is_truthy_seed(isnone[0])
                seed_cond = u[1]
                u = ("ite", others[0], u[2], u[3])
                none_seeded = True
        if u[0] == "ite" and u[3] == acc and u[1][0] == "cmp" and u[1][1] in ("<", "<="):
            c = u[1]
            e = u[2]
            if c[2] == acc and c[3] == e and not mentions_acc(e, loop.id):
                out[v] = Fold("EXT", sense="max", strict=(c[1] == "<"), init=init, term=e, cond=c, none_seeded=none_seeded, truthy_seed=truthy_seed)
                ext[c] = v
                if none_seeded:
                    ext[seed_cond] = v
                continue
            if c[3] == acc and c[2] == e and not mentions_acc(e, loop.id):
                out[v] = Fold("EXT", sense="min", strict=(c[1] == "<"), init=init, term=e, cond=c, none_seeded=none_seeded, truthy_seed=truthy_seed)
                ext[c] = v
                if none_seeded:
                    ext[seed_cond] = v
                continue
        # acc = max(acc, e) / min(acc, e)
        if u[0] == "call" and u[1] in ("max", "min") and len(u[2]) > 2 and not u[3] and list(u[2]).count(acc) == 1:
            # acc = max(acc, a, b, c): the running maximum of max(a, b, c)
            rest_ = tuple(x for x in u[2] if x != acc)
            if not any(mentions_acc(x, loop.id) for x in rest_):
                out[v] = Fold("EXT", sense=u[1], strict=None, init=init, term=simp(("call", u[1], rest_, ())), cond=None, none_seeded=False, truthy_seed=False)
                continue
        if u[0] == "call" and u[1] in ("max", "min") and len(u[2]) == 2 and not u[3] and acc in u[2]:
            e = u[2][1] if u[2][0] == acc else u[2][0]
            if not mentions_acc(e, loop.id):
                out[v] = Fold("EXT", sense=u[1], strict=None, init=init, term=e, cond=None, none_seeded=False, truthy_seed=False)
                continue
        # tie test first: `if tie(e, best): ... elif e > best: best = e`
        if u[0] == "ite" and u[2] == acc and u[3][0] == "ite" and u[3][3] == acc and u[3][1][0] == "cmp" and u[3][1][1] in ("<", "<=") \
                and mentions(u[1], lambda x: x == acc) and not mentions_acc(u[3][2], loop.id):
            c, e, T = u[3][1], u[3][2], u[1]
            sense = "max" if (c[2] == acc and c[3] == e) else ("min" if (c[3] == acc and c[2] == e) else None)
            if sense is not None:
                exact = T == simp(("cmp", "==", e, acc))
                out[v] = Fold("EXT", sense=sense, strict=(c[1] == "<"), init=init, term=e, cond=c, none_seeded=False,
                              band=(None if exact else True), tie_first=T)
                if not exact:
                    out[v].cond_text = T
                ext[c] = v
                continue
        # running optimum updated under an inexact (tolerance band) comparison
        if u[0] == "ite" and u[3] == acc and u[1][0] == "cmp" and u[1][1] in ("<", "<=") and not mentions_acc(u[2], loop.id) \
                and mentions(u[1], lambda x: x == acc) and mentions(u[1], lambda x: x == u[2]):
            c = u[1]
            lhs_has_acc = mentions(c[2], lambda x: x == acc)
            out[v] = Fold("EXT", sense="max" if lhs_has_acc else "min", strict=(c[1] == "<"), init=init, term=u[2], cond=c,
                          none_seeded=False, band=True)
            ext[c] = v
            continue
        out[v] = None
    # second pass: ARG and ARGSET relative to an EXT variable
    def _second(v, u, acc, init):
        # tie-first arg-set: ite(T, acc ++ [l], ite(C1, [l], acc))
        if u[0] == "ite" and u[3][0] == "ite" and u[3][1] in ext and u[3][3] == acc and u[3][2][0] == "list" and len(u[3][2][1]) == 1 \
                and u[2] == simp(("cat", acc, u[3][2])):
            bestv = ext[u[3][1]]
            best = out[bestv]
            if getattr(best, "tie_first", None) == u[1]:
                label = u[3][2][1][0]
                if getattr(best, "band", None):
                    return Fold("ARGSET", of=bestv, init=init, label=label, ties="band", tie_cond=u[1])
                else:
                    return Fold("ARGSET", of=bestv, init=init, label=label, ties=True)
        if u[0] == "ite" and u[1] in ext and u[3] == acc and not mentions_acc(u[2], loop.id) \
                and not (u[2][0] == "list" and len(u[2][1]) == 1 and init == ("list", ())):
            return Fold("ARG", of=ext[u[1]], init=init, term=u[2])
        if u[0] == "ite" and u[1] in ext and u[2][0] == "list" and len(u[2][1]) == 1:
            bestv = ext[u[1]]
            best = out[bestv]
            label = u[2][1][0]
            rest = u[3]
            eqc = simp(("cmp", "==", best.term, ("acc", loop.id, bestv)))
            if getattr(best, "band", False) and rest[0] == "ite" and rest[3] == acc and rest[2] == simp(("cat", acc, ("list", (label,)))):
                return Fold("ARGSET", of=bestv, init=init, label=label, ties="band", tie_cond=rest[1])
            tie = (rest[0] == "ite" and rest[1] == eqc and rest[3] == acc
                   and rest[2] == simp(("cat", acc, ("list", (label,)))))
            if tie and not mentions_acc(label, loop.id):
                return Fold("ARGSET", of=bestv, init=init, label=label, ties=True)
            if rest == acc and not mentions_acc(label, loop.id):
                return Fold("ARGSET", of=bestv, init=init, label=label, ties=False)
            if rest[0] == "ite" and rest[3] == acc and rest[2] == simp(("cat", acc, ("list", (label,)))) and mentions_acc(rest[1], loop.id) \
                    and mentions(rest[1], lambda x: x[0] == "call" and x[1] in ("math.isclose", "isclose", "numpy.isclose")):
                # the tie branch compares within a tolerance while the reset branch compares exactly
                return Fold("ARGSET", of=bestv, init=init, label=label, ties="band", tie_cond=rest[1])
            if rest[0] == "ite" and rest[3] == acc and rest[2] == simp(("cat", acc, ("list", (label,)))) \
                    and rest[1][0] == "cmp" and rest[1][1] == "==" and mentions_acc(rest[1], loop.id):
                # reset and tie are judged on different keys
                return Fold("ARGSET", of=bestv, init=init, label=label, ties="inconsistent", tie_cond=rest[1])
        return None

    for v, u in ups.items():
        if out[v] is not None:
            continue
        acc = ("acc", loop.id, v)
        init = loop.init.get(v, UNBOUND)
        got = _second(v, u, acc, init)
        if got is not None:
            out[v] = got
            continue
        # two independent ifs (`if e > best: best = e; group = []` / `if e == best: group.append(l)`): the second test reads the
        # optimum the first one has just updated, so the improvement test sits inside the other guard.  Split on it: where it
        # holds, `e == e` is true (e compared greater/less than something: not a NaN)
        if not (u[0] == "ite" and u[1] in ext):
            for c0 in ext:
                if c0[0] == "cmp" and mentions(u, lambda x: x[0] == "ite" and x[1] == c0):
                    def _refl(x):
                        if x[0] == "cmp" and x[1] == "==" and x[2] == x[3] and mentions(c0, lambda y: y == x[2]):
                            return TRUE
                        return None
                    yes = deep_simp(subst(deep_simp(assume_deep(u, c0, True)), _refl))
                    no = deep_simp(assume_deep(u, c0, False))
                    u2 = path_simp(("ite", c0, yes, no))
                    if u2[0] == "ite" and u2[1] == c0:
                        got = _second(v, u2, acc, init)
                        if got is not None:
                            break
        if got is not None:
            out[v] = got
            continue
        out[v] = Fold("OTHER", init=init, term=u)
    return out


def strip_perm(t):
    """The sequence underlying a wrapper that only permutes / copies it (reversed, sorted, list, tuple, x[::-1]): the
    same elements are visited, in another order.  Returns (inner, whole) - whole False for any other slice."""
    while True:
        if t[0] == "call" and t[1] in ("reversed", "sorted", "list", "tuple") and len(t[2]) == 1:
            t = t[2][0]
            continue
        if t[0] == "slice" and t[2] == C(None) and t[3] == C(None) and t[4] in (C(-1), C(1), C(None)):
            t = t[1]
            continue
        return t
