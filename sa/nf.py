"""Normal forms of solver kernels (built on symx): canonical folds comparable with specification rows.

Canonical element vocabulary inside a fold over a successor list:
    ('p',)            slot 0 of the current element (action label or probability)
    ('t',)            slot 1 of the current element (successor index)
    ('e',)            the whole current element
    ('sf', X, field)  state_list[X].field            (field of the successor state X)
"""
from .loader import AnalysisError
from .symx import (SymX, classify, show, simp, subst, mentions, C, TRUE, FALSE, UNBOUND, is_const, key)

SELF_NEXT = ("attr", ("v", "self"), "next_states")


class KFold:
    def __init__(self, **kw):
        self.kind = None        # SUM | EXT | ARG | ARGSET | COLLECT | COMPR | LAST | UNCHANGED | OTHER
        self.sense = None
        self.strict = None
        self.init = None        # canonical term, ('first',) = value at the first element, None = builtin without default
        self.term = None
        self.label = None
        self.of = None          # KFold of the extremum an ARG/ARGSET depends on
        self.ties = None
        self.source = None
        self.filter = TRUE
        self.whole = True
        self.has_break = False
        self.has_return = False
        self.loop = None
        self.via = "loop"
        self.band = None
        self.__dict__.update(kw)

    def text(self):
        bits = []
        if self.kind == "SUM":
            bits.append("SUM(init=%s, %s)" % (show(self.init), show(self.term)))
        elif self.kind == "EXT":
            bits.append("%s(init=%s, %s%s)" % (self.sense.upper(), _init_text(self.init), show(self.term),
                                               "" if self.strict is None else (", strict" if self.strict else ", non-strict")))
        elif self.kind == "ARG":
            bits.append("ARG%s(%s) of %s" % (self.of.sense.upper() if self.of else "?", show(self.term), self.of.text() if self.of else "?"))
        elif self.kind == "ARGSET":
            bits.append("ARGSET_%s(key=%s, init=%s, label=%s, ties=%s)" % (
                self.of.sense.upper(), show(self.of.term), _init_text(self.of.init), show(self.label), self.ties))
        elif self.kind == "COMPR":
            bits.append("[%s]" % show(self.term))
        elif self.kind == "COLLECT":
            bits.append("COLLECT(%s)" % show(self.term))
        else:
            bits.append("%s(%s)" % (self.kind, show(self.term) if self.term else ""))
        bits.append("over %s%s" % (show(self.source), "" if self.whole else " (SLICED)"))
        if self.filter != TRUE:
            bits.append("where %s" % show(self.filter))
        if self.has_break:
            bits.append("with break")
        if self.has_return:
            bits.append("with early return")
        return " ".join(bits)

    __repr__ = text


def _init_text(i):
    if i == ("first",):
        return "value at first element"
    if i is None:
        return "none"
    return show(i)


class Kernel:
    def __init__(self, ctx, qual, cls_name=None):
        self.ctx = ctx
        self.func = ctx.func(qual)
        self.sx = SymX(ctx, self.func, cls_name).run()
        self.ret = self.sx.ret
        ps = [p for p in self.func.params if p != "self"]
        self.slist = ps[0] if ps else None
        self._cls = {}

    # -- canonicalisation -----------------------------------------------------
    def canon(self, t, lid):
        sl = self.slist

        def f(x):
            if x == ("idx", ("elem", lid), C(0)):
                return ("p",)
            if x == ("idx", ("elem", lid), C(1)):
                return ("t",)
            if x == ("elem", lid):
                return ("e",)
            if x[0] == "attr" and x[1][0] == "idx" and x[1][1] == ("v", sl):
                return ("sf", subst(x[1][2], f), x[2])
            return None
        return subst(t, f)

    def canon_top(self, t):
        sl = self.slist

        def f(x):
            if x[0] == "attr" and x[1][0] == "idx" and x[1][1] == ("v", sl):
                return ("sf", subst(x[1][2], f), x[2])
            return None
        return subst(t, f)

    def _classified(self, lid):
        if lid not in self._cls:
            self._cls[lid] = classify(self.sx.loops[lid])
        return self._cls[lid]

    def first_elem_init(self, init, loop):
        """Recognise `state_list[S[0][1]].f` style seeds: the fold's term evaluated at the first element of S.
        Returns the canonical term if init is the value at source[0] (or filtered_source[0]), else None."""
        src_t = loop.source

        def f(x):
            if x[0] == "idx" and x[2] == C(0) and (x[1] == src_t):
                return ("elem", loop.id)
            # first element of `[e for e in S if F]`
            if x[0] == "idx" and x[2] == C(0) and x[1][0] == "compr":
                l2 = self.sx.loops[x[1][1]]
                if l2.source == src_t and l2.elt == ("elem", l2.id):
                    return ("elem", loop.id)
            return None
        r = subst(init, f)
        if r != init:
            return self.canon(r, loop.id)
        return None

    def first_filter(self, init, loop):
        """Filter (canonical) of the comprehension whose [0] seeds the fold, or None."""
        found = []

        def f(x):
            if x[0] == "idx" and x[2] == C(0) and x[1][0] == "compr":
                l2 = self.sx.loops[x[1][1]]
                flt = simp(("and", tuple(l2.filters))) if l2.filters else TRUE
                found.append(self.canon(subst(flt, lambda y: ("elem", loop.id) if y == ("elem", l2.id) else None), loop.id))
            return None
        subst(init, f)
        return found[0] if found else None

    def kfold(self, t):
        """Canonical fold behind a term: ('res', L, v), ('compr', L) or sum/max/min over a comprehension."""
        if not isinstance(t, tuple):
            return None
        if t[0] == "res":
            lid, v = t[1], t[2]
            loop = self.sx.loops[lid]
            if loop.kind != "for":
                return None
            fo = self._classified(lid).get(v)
            if fo is None:
                return None
            return self._from_fold(loop, v, fo)
        if t[0] == "compr":
            loop = self.sx.loops[t[1]]
            flt = simp(("and", tuple(loop.filters))) if loop.filters else TRUE
            arg = self._argset_by_filter(loop, flt)
            if arg is not None:
                return arg
            return KFold(kind="COMPR", term=self.canon(loop.elt, loop.id), source=self._src(loop), filter=self.canon(flt, loop.id),
                         whole=loop.whole, loop=loop, via="comprehension", ckind=loop.ckind)
        if t[0] == "call" and t[1] in ("sum", "max", "min") and len(t[2]) >= 1 and t[2][0][0] == "compr" and len(t[2]) == 1:
            loop = self.sx.loops[t[2][0][1]]
            flt = simp(("and", tuple(loop.filters))) if loop.filters else TRUE
            kws = dict(t[3])
            base = dict(term=self.canon(loop.elt, loop.id), source=self._src(loop), filter=self.canon(flt, loop.id),
                        whole=loop.whole, loop=loop, via="builtin " + t[1])
            if t[1] == "sum":
                init = self.canon_top(kws.get("start", C(0)))
                return KFold(kind="SUM", init=init, **base)
            init = self.canon_top(kws["default"]) if "default" in kws else None
            return KFold(kind="EXT", sense=t[1], strict=None, init=init, **base)
        if t[0] == "call" and t[1] == "sum" and len(t[2]) == 2 and t[2][0][0] == "compr":
            loop = self.sx.loops[t[2][0][1]]
            flt = simp(("and", tuple(loop.filters))) if loop.filters else TRUE
            return KFold(kind="SUM", init=self.canon_top(t[2][1]), term=self.canon(loop.elt, loop.id), source=self._src(loop),
                         filter=self.canon(flt, loop.id), whole=loop.whole, loop=loop, via="builtin sum")
        return None

    def _argset_by_filter(self, loop, flt):
        """`[label for ... in S if key == max(keys)]` (directly or zipped with the key list) is an arg-set."""
        if flt[0] != "cmp" or flt[1] != "==" or loop.ckind != "list":
            return None
        sides = (flt[2], flt[3])
        ext = [x for x in sides if x[0] == "call" and x[1] in ("max", "min") and len(x[2]) == 1 and x[2][0][0] == "compr"]
        if len(ext) != 1:
            return None
        ext = ext[0]
        cur = sides[0] if sides[1] == ext else sides[1]
        Lk = self.sx.loops[ext[2][0][1]]
        if Lk.filters:
            return None
        src_t = loop.source
        elem = ("elem", loop.id)
        if src_t[0] == "call" and src_t[1] == "zip" and len(src_t[2]) == 2 and src_t[2][1] == ("compr", Lk.id) and src_t[2][0] == Lk.source:
            # elem = (S-element, key)
            if cur != simp(("idx", elem, C(1))):
                return None
            base = src_t[2][0]
            s_elem = simp(("idx", elem, C(0)))
            label = subst(loop.elt, lambda x: ("elem", Lk.id) if x == s_elem else None)
            if mentions(label, lambda x: x == elem):
                return None
            key_t = Lk.elt
        elif src_t == Lk.source:
            base = src_t
            key_here = subst(Lk.elt, lambda x: elem if x == ("elem", Lk.id) else None)
            if cur != key_here:
                return None
            label = subst(loop.elt, lambda x: ("elem", Lk.id) if x == elem else None)
            key_t = Lk.elt
        else:
            return None
        kws = dict(ext[3])
        init = self.canon_top(kws["default"]) if "default" in kws else None
        of = KFold(kind="EXT", sense=ext[1], strict=True, init=init, term=self.canon(key_t, Lk.id), source=self.canon_top(base),
                   whole=Lk.whole and loop.whole, loop=Lk, via="builtin " + ext[1])
        return KFold(kind="ARGSET", of=of, label=self.canon(label, Lk.id), ties=True, init=("list", ()), source=self.canon_top(base), filter=TRUE,
                     whole=Lk.whole and loop.whole, loop=loop, via="filter by == %s(...)" % ext[1])

    def _src(self, loop):
        s = loop.source
        if s[0] == "compr":
            inner = self.kfold(s)
            return ("filtered", inner.source, inner.filter) if inner and inner.term == ("e",) else self.canon_top(s)
        return self.canon_top(s)

    def _from_fold(self, loop, v, fo):
        k = KFold(kind=fo.kind, source=self._src(loop), filter=self.canon(loop.filter, loop.id), whole=loop.whole,
                  has_break=loop.has_break, has_return=loop.has_return, loop=loop, var=v)
        # a filtered source folds into the filter
        if isinstance(k.source, tuple) and k.source and k.source[0] == "filtered":
            k.filter = simp(("and", (k.source[2], k.filter)))
            k.source = k.source[1]
        init = getattr(fo, "init", None)
        if fo.kind in ("SUM", "EXT", "COLLECT", "LAST"):
            k.term = self.canon(fo.term if fo.kind != "LAST" else fo.value, loop.id)
        if fo.kind == "EXT":
            k.sense, k.strict = fo.sense, fo.strict
            k.band = self.canon(getattr(fo, "cond_text", fo.cond), loop.id) if getattr(fo, "band", False) else None
            fe = self.first_elem_init(init, loop) if init is not None else None
            if getattr(fo, "none_seeded", False):
                k.init = ("first",)
                k.first_filter = k.filter
            elif fe is not None and fe == k.term:
                k.init = ("first",)
                k.first_filter = self.first_filter(init, loop)
            else:
                k.init = self.canon_top(init) if init is not None else None
        elif fo.kind in ("SUM", "COLLECT"):
            k.init = self.canon_top(init)
        elif fo.kind == "ARG":
            k.term = self.canon(fo.term, loop.id)
            k.of = self._from_fold(loop, fo.of, self._classified(loop.id)[fo.of])
            k.init = self.canon_top(init)
        elif fo.kind == "ARGSET":
            k.label = self.canon(fo.label, loop.id)
            k.ties = fo.ties
            k.tie_cond = self.canon(getattr(fo, "tie_cond", None), loop.id) if getattr(fo, "tie_cond", None) else None
            k.of = self._from_fold(loop, fo.of, self._classified(loop.id)[fo.of])
            k.init = self.canon_top(init)
        elif fo.kind == "OTHER":
            k.term = self.canon(fo.term, loop.id)
            k.init = self.canon_top(init)
        return k


def const_value(t):
    return t[1] if is_const(t) else None


def SF(field, x=("t",)):
    return ("sf", x, field)
