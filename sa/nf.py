"""Normal forms of solver kernels (built on symx): canonical folds comparable with specification rows.

Canonical element vocabulary inside a fold over a successor list:
    ('p',)            slot 0 of the current element (action label or probability)
    ('t',)            slot 1 of the current element (successor index)
    ('e',)            the whole current element
    ('sf', X, field)  state_list[X].field            (field of the successor state X)
"""
from .loader import AnalysisError
from .symx import (SymX, classify, show, simp, subst, mentions, C, TRUE, FALSE, UNBOUND, is_const, key, deep_simp)

SELF_NEXT = ("attr", ("v", "self"), "next_states")


class KFold:
    def __init__(self, **kw):
        self.kind = None        # SUM | EXT | ARG | ARGSET | COLLECT | COMPR | LAST | UNCHANGED | OTHER
        self.sense = None
        self.strict = None
        self.init = None        # canonical term, ('first',) = value at the first element, None = builtin without default
        self.term = None
        self.label = None
        self.of = None          # KFold of the extremum an ARG/ARGSET depends on
        self.ties = None
        self.source = None
        self.filter = TRUE
        self.whole = True
        self.has_break = False
        self.has_return = False
        self.loop = None
        self.via = "loop"
        self.band = None
        self.truthy_seed = False
        self.__dict__.update(kw)

    def text(self):
        bits = []
        if self.kind == "SUM":
            bits.append("SUM(init=%s, %s)" % (show(self.init), show(self.term)))
        elif self.kind == "EXT":
            bits.append("%s(init=%s, %s%s)" % (self.sense.upper(), _init_text(self.init), show(self.term),
                                               "" if self.strict is None else (", strict" if self.strict else ", non-strict")))
        elif self.kind == "ARG":
            bits.append("ARG%s(%s) of %s" % (self.of.sense.upper() if self.of else "?", show(self.term), self.of.text() if self.of else "?"))
        elif self.kind == "ARGSET":
            bits.append("ARGSET_%s(key=%s, init=%s, label=%s, ties=%s)" % (
                self.of.sense.upper(), show(self.of.term), _init_text(self.of.init), show(self.label), self.ties))
        elif self.kind == "COMPR":
            bits.append("[%s]" % show(self.term))
        elif self.kind == "COLLECT":
            bits.append("COLLECT(%s)" % show(self.term))
        else:
            bits.append("%s(%s)" % (self.kind, show(self.term) if self.term else ""))
        bits.append("over %s%s" % (show(self.source), "" if self.whole else " (SLICED)"))
        if self.filter != TRUE:
            bits.append("where %s" % show(self.filter))
        if self.has_break:
            bits.append("with break")
        if self.has_return:
            bits.append("with early return")
        return " ".join(bits)

    __repr__ = text


def _init_text(i):
    if i == ("first",):
        return "value at first element"
    if i is None:
        return "none"
    return show(i)


class Kernel:
    def __init__(self, ctx, qual, cls_name=None, inline_foreign=False):
        self.ctx = ctx
        self.func = ctx.func(qual)
        if inline_foreign:
            # optional parameters that the solver fills in (a table computed once per pass, a tolerance) are read in the
            # call context; an optional parameter that nobody passes is its default
            from .ctxbind import specialise
            self.func = specialise(ctx, self.func)
        # node kernels: small methods of the successor objects are judged by content (inline_foreign)
        self.sx = SymX(ctx, self.func, cls_name, inline_foreign=inline_foreign).run()
        self.ret = self.sx.ret
        ps = [p for p in self.func.params if p != "self"]
        self.slist = ps[0] if ps else None
        self._cls = {}

    # -- canonicalisation -----------------------------------------------------
    def canon(self, t, lid):
        sl = self.slist

        def f(x):
            if x == ("idx", ("elem", lid), C(0)):
                return ("p",)
            if x == ("idx", ("elem", lid), C(1)):
                return ("t",)
            if x == ("elem", lid):
                return ("e",)
            if x[0] == "attr" and x[1][0] == "idx" and x[1][1] == ("v", sl):
                return ("sf", subst(x[1][2], f), x[2])
            return None
        return subst(t, f)

    def canon_top(self, t):
        sl = self.slist

        def f(x):
            if x[0] == "attr" and x[1][0] == "idx" and x[1][1] == ("v", sl):
                return ("sf", subst(x[1][2], f), x[2])
            return None
        return subst(t, f)

    def _classified(self, lid):
        if lid not in self._cls:
            self._cls[lid] = classify(self.sx.loops[lid])
        return self._cls[lid]

    def first_elem_init(self, init, loop):
        """Recognise `state_list[S[0][1]].f` style seeds: the fold's term evaluated at the first element of S.
        Returns the canonical term if init is the value at source[0] (or filtered_source[0]), else None."""
        src_t = loop.source

        def f(x):
            if x[0] == "idx" and x[2] == C(0) and (x[1] == src_t or x[1] == getattr(loop, "orig_source", None)):
                return ("elem", loop.id)
            # first element of `[e for e in S if F]`
            if x[0] == "idx" and x[2] == C(0) and x[1][0] == "compr":
                l2 = self.sx.loops[x[1][1]]
                if l2.source == src_t and l2.elt == ("elem", l2.id):
                    return ("elem", loop.id)
                # `[t for a, t in S if F][0]`: the mapped first element is the mapping of the first element
                if l2.source == src_t and not mentions(l2.elt, lambda y: y[0] in ("acc", "compr", "res") or (y[0] == "elem" and y[1] != l2.id)) \
                        and mentions(l2.elt, lambda y: y == ("elem", l2.id)):
                    return subst(l2.elt, lambda y: ("elem", loop.id) if y == ("elem", l2.id) else None)
            return None
        r = subst(init, f)
        if r != init:
            return self.canon(r, loop.id)
        return None

    def first_filter(self, init, loop):
        """Filter (canonical) of the comprehension whose [0] seeds the fold, or None."""
        found = []

        def f(x):
            if x[0] == "idx" and x[2] == C(0) and x[1][0] == "compr":
                l2 = self.sx.loops[x[1][1]]
                flt = simp(("and", tuple(l2.filters))) if l2.filters else TRUE
                found.append(self.canon(subst(flt, lambda y: ("elem", loop.id) if y == ("elem", l2.id) else None), loop.id))
            return None
        subst(init, f)
        return found[0] if found else None

    # -- list expressions: comprehensions and collect-loops over a base list, composed -------------------
    def _rebase(self, t, E1):
        """Rewrite a canonical term over an intermediate element y = E1(base element) into a term over the base element."""
        if E1 == ("e",):
            return t

        def f(x):
            if x == ("e",):
                return E1
            if x == ("p",):
                return simp(("idx", E1, C(0)))
            if x == ("t",):
                return simp(("idx", E1, C(1)))
            return None
        r = subst(t, f)
        # idx(('e',), k) produced by simp on an identity element
        def g(x):
            if x == ("idx", ("e",), C(0)):
                return ("p",)
            if x == ("idx", ("e",), C(1)):
                return ("t",)
            return None
        # an intermediate element that carries the successor *object* (label, state_list[target]): fields read from it are the
        # successor's fields
        return self.canon_top(deep_simp(subst(r, g)))

    def listexpr(self, t, depth=0):
        """(base source, filter, element, whole) of a list built from a base list by comprehensions / append-loops,
        with filter and element expressed over the BASE element; None if t is not such a list."""
        if depth > 6 or not isinstance(t, tuple) or not t:
            return None
        if t[0] == "call" and t[1] == "list" and len(t[2]) == 1 and not t[3]:
            return self.listexpr(t[2][0], depth + 1)          # list(<generator / list>) is that list
        if t[0] == "call" and t[1] == "zip" and len(t[2]) == 2 and not t[3]:
            # zip(S, [g(e) for e in S]) - a list walked together with values computed from it, position by position - is
            # [(e, g(e)) for e in S]
            parts = []
            for a in t[2]:
                le = self.listexpr(a, depth + 1)
                parts.append(le if le is not None else (self.canon_top(a), TRUE, ("e",), True))
            (b0, f0, e0, w0), (b1, f1, e1, w1) = parts
            if b0 == b1 and f0 == TRUE and f1 == TRUE and w0 and w1:
                return (b0, TRUE, ("tup", (e0, e1)), True)
            if b0 == b1 and f0 == f1 and w0 and w1:
                # two columns cut down by the same test of the same base list: the same positions survive in both
                return (b0, f0, ("tup", (e0, e1)), True)
            return None
        if t[0] == "compr":
            L = self.sx.loops[t[1]]
            if L.ckind not in ("list", "gen", "set"):
                return None
            flt = simp(("and", tuple(L.filters))) if L.filters else TRUE
            return self._compose(L, flt, L.elt, depth)
        if t[0] == "res" and t[1] in self.sx.loops:
            L = self.sx.loops[t[1]]
            if L.kind != "for" or L.has_break or L.has_return:
                return None
            fo = self._classified(L.id).get(t[2])
            if fo is None or fo.kind != "COLLECT" or L.init.get(t[2]) != ("list", ()):
                return None
            own = getattr(fo, "own_filter", None)
            return self._compose(L, L.filter if own is None else simp(("and", (L.filter, own))), fo.term, depth)
        return None

    def _compose(self, L, flt, elt, depth):
        inner = self.listexpr(L.source, depth + 1)
        f1 = self.canon(flt, L.id)
        e1 = self.canon(elt, L.id)
        if inner is None:
            S = self.canon_top(L.source)
            return (S, self._at_positions(f1, S), self._at_positions(e1, S), L.whole)
        S, F0, E0, w0 = inner
        return (S, self._at_positions(simp(("and", (F0, self._rebase(f1, E0)))), S), self._at_positions(self._rebase(e1, E0), S), w0 and L.whole)

    def _at_positions(self, t, S):
        """`X[pos]` with pos a position of a list that corresponds to the base list S position by position (S itself, or an
        unfiltered map of the whole of S - a 'column') is the element expression of X at the base element: index tables such as
        `live = [i for i, t in enumerate(targets) if alive(t)]` walked by `[S[i] for i in live]` are the filter they abbreviate."""
        def positional(lid):
            L = self.sx.loops.get(lid)
            if L is None or not L.enumerated or not L.whole:
                return False
            if self.canon_top(L.source) == S:
                return True
            le = self.listexpr(L.source, 3)
            return le is not None and le[0] == S and le[1] == TRUE and le[3]

        def f(x):
            if x[0] == "idx" and isinstance(x[2], tuple) and x[2] and x[2][0] == "pos" and positional(x[2][1]):
                if self.canon_top(x[1]) == S:
                    return ("e",)
                le = self.listexpr(x[1], 3)
                if le is not None and le[0] == S and le[1] == TRUE and le[3]:
                    return le[2]
            return None
        r = subst(t, f)
        if r == t:
            return t

        def g(x):
            if x == ("idx", ("e",), C(0)):
                return ("p",)
            if x == ("idx", ("e",), C(1)):
                return ("t",)
            return None
        return self.canon_top(deep_simp(subst(deep_simp(r), g)))

    def _list_arg(self, t):
        """For max/min/sum arguments: (listexpr, extra constant elements) for X, [c..] + X, X + [c..]."""
        le = self.listexpr(t)
        if le is not None:
            return le, []
        if t[0] in ("call", "mcall") and (t[1] in ("itertools.chain", "chain") if t[0] == "call" else (t[2] == "chain" and t[1] == ("v", "itertools"))):
            parts = t[2] if t[0] == "call" else t[3]
            if len(parts) == 2:
                for a, b in ((parts[0], parts[1]), (parts[1], parts[0])):
                    if a[0] in ("list", "tup") and all(is_const(x) or not mentions(x, lambda y: y[0] == "elem") for x in a[1]):
                        le = self.listexpr(b)
                        if le is not None:
                            return le, list(a[1])
        if t[0] == "cat":
            for a, b in ((t[1], t[2]), (t[2], t[1])):
                if a[0] == "list" and all(is_const(x) or not mentions(x, lambda y: y[0] == "elem") for x in a[1]):
                    le = self.listexpr(b)
                    if le is not None:
                        return le, list(a[1])
        return None, []

    def kfold(self, t):
        """Canonical fold behind a term: ('res', L, v), ('compr', L) or sum/max/min over a list expression."""
        if not isinstance(t, tuple):
            return None
        if t[0] == "ite" and len(t) == 4 and ("list", ()) in (t[2], t[3]):
            # `if not xs: return []` in front of a comprehension over xs: the comprehension is [] for an empty xs anyway
            cond, body = (t[1], t[2]) if t[3] == ("list", ()) else (simp(("not", t[1])), t[3])
            if cond[0] == "truthy":
                le_s, le_b = self.listexpr(cond[1]), self.listexpr(body)
                base_s = le_s[0] if le_s is not None else self.canon_top(cond[1])
                flt_s = le_s[1] if le_s is not None else TRUE
                if le_b is not None and le_b[0] == base_s and flt_s == TRUE:
                    return self.kfold(body)
                if body[0] == "res" and body[1] in self.sx.loops and flt_s == TRUE:
                    # ... or in front of a collecting loop over xs that starts from []: the loop leaves [] for an empty xs
                    Lb = self.sx.loops[body[1]]
                    le_l = self.listexpr(Lb.source)
                    base_l = le_l[0] if le_l is not None else self.canon_top(Lb.source)
                    if Lb.kind == "for" and base_l == base_s and Lb.init.get(body[2]) == ("list", ()):
                        return self.kfold(body)
        if t[0] == "ite" and len(t) == 4 and (is_const(t[2]) != is_const(t[3])):
            # `if not xs: return c` in front of a SUM / MAX / MIN over xs that starts from the same constant c: the fold leaves c for
            # an empty xs anyway (an explicit edge case, not another computation)
            c_, body, cond = (t[2], t[3], simp(("not", t[1]))) if is_const(t[2]) else (t[3], t[2], t[1])
            nonempty = self._nonempty_of(cond)
            if nonempty is not None:
                kb = self.kfold(body)
                if kb is not None and kb.kind in ("SUM", "EXT") and kb.init is not None and is_const(kb.init) and kb.init == c_ \
                        and type(kb.init[1]) is type(c_[1]) and kb.source == nonempty and not getattr(kb, "has_break", False) and not getattr(kb, "has_return", False):
                    return kb
        if t[0] == "ite" and len(t) == 4 and t[1][0] == "cmp" and t[1][1] == "==" and C(1) in (t[1][2], t[1][3]):
            # `if len(xs) == 1: return key(xs[0])` in front of a MIN / MAX over xs that is seeded with its first element: for a
            # one-element list that fold is the key of the element anyway
            ln = t[1][3] if t[1][2] == C(1) else t[1][2]
            if ln[0] == "call" and ln[1] == "len" and len(ln[2]) == 1:
                kb = self.kfold(t[3])
                le = self.listexpr(ln[2][0])
                if kb is not None and kb.kind == "EXT" and kb.init == ("first",) and le is not None and kb.source == le[0] and kb.filter == le[1]:
                    e0 = simp(("idx", ln[2][0], C(0)))
                    key_at_first = deep_simp(subst(kb.term, lambda x: e0 if x == ("e",) else (simp(("idx", e0, C(0))) if x == ("p",) else (simp(("idx", e0, C(1))) if x == ("t",) else None))))
                    cand = self.canon_top(t[2])
                    if cand == self.canon_top(key_at_first) or self._first_of(t[2], kb, ln[2][0]):
                        return kb
        if t[0] == "ite" and len(t) == 4 and ("list", ()) not in (t[2], t[3]):
            # the same fold computed on two paths (in two call contexts): it is that fold
            ka, kb = self.kfold(t[2]), self.kfold(t[3])
            if ka is not None and kb is not None and ka.kind == kb.kind and ka.text() == kb.text():
                return ka
        if t[0] == "attr" and t[1][0] == "res" and t[1][1] in self.sx.loops:
            # a field of the successor *object* that a search loop selected: `followed = <arg-max successor>; followed.F`
            ko = self.kfold(t[1])
            if ko is not None and ko.kind == "ARG" and ko.term == ("idx", ("v", self.slist), ("t",)):
                import copy as _copy
                k2 = _copy.copy(ko)
                k2.term = ("sf", ("t",), t[2])
                if ko.of is not None and ko.of.term == k2.term:
                    return ko.of          # the key of the selected successor is the extremum itself (whatever the tie rule)
                return k2
            if ko is not None and ko.kind == "LAST" and ko.term == ("idx", ("v", self.slist), ("t",)):
                # the loop variable itself, read after the loop: the successor the loop visited last
                import copy as _copy
                k2 = _copy.copy(ko)
                k2.term = ("sf", ("t",), t[2])
                return k2
            return None
        if t[0] == "res":
            lid, v = t[1], t[2]
            loop = self.sx.loops[lid]
            if loop.kind != "for":
                return None
            fo = self._classified(lid).get(v)
            if fo is None:
                return None
            if fo.kind == "COLLECT" and loop.init.get(v) == ("list", ()) and not loop.has_break and not loop.has_return:
                le = self.listexpr(t)
                if le is not None:
                    k0 = KFold(kind="COMPR", term=le[2], source=le[0], filter=le[1], whole=le[3], loop=loop, via="append loop", ckind="list")
                    return self._argset_from_canonical(k0) or k0
            return self._from_fold(loop, v, fo)
        if t[0] == "compr":
            loop = self.sx.loops[t[1]]
            flt = simp(("and", tuple(loop.filters))) if loop.filters else TRUE
            arg = self._argset_by_filter(loop, flt)
            if arg is not None:
                return arg
            le = self.listexpr(t)
            if le is not None:
                k0 = KFold(kind="COMPR", term=le[2], source=le[0], filter=le[1], whole=le[3], loop=loop, via="comprehension", ckind=loop.ckind)
                return self._argset_from_canonical(k0) or k0
            return KFold(kind="COMPR", term=self.canon(loop.elt, loop.id), source=self._src(loop), filter=self.canon(flt, loop.id),
                         whole=loop.whole, loop=loop, via="comprehension", ckind=loop.ckind)
        if t[0] == "attr" and t[1][0] == "call" and t[1][1] in ("max", "min") and len(t[1][2]) == 1 and dict(t[1][3]).get("key") is not None:
            # min(objects, key=attrgetter(F)).G  - the field G of the successor object with the smallest F
            keyf = dict(t[1][3])["key"]
            F = keyf[2][0][1] if keyf[0] == "call" and keyf[1] in ("attrgetter", "operator.attrgetter") and len(keyf[2]) == 1 and is_const(keyf[2][0]) else None
            if F is None and keyf[0] == "closure" and keyf[1] in self.sx.closures:
                # key=lambda s: s.F
                import ast as _ast
                lam = self.sx.closures[keyf[1]][0]
                if isinstance(lam, _ast.Lambda) and len(lam.args.args) == 1 and isinstance(lam.body, _ast.Attribute) and isinstance(lam.body.value, _ast.Name) \
                        and lam.body.value.id == lam.args.args[0].arg:
                    F = lam.body.attr
            arg = t[1][2][0]
            last_wins = False
            while arg[0] == "call" and arg[1] in ("reversed", "list", "tuple") and len(arg[2]) == 1:
                last_wins = last_wins != (arg[1] == "reversed")
                arg = arg[2][0]
            le = self.listexpr(arg)
            obj = ("idx", ("v", self.slist), ("t",))
            if F is not None and le is not None and le[2] == obj and set(dict(t[1][3])) == {"key"}:
                of = KFold(kind="EXT", sense=t[1][1], strict=(not last_wins), init=None, term=("sf", ("t",), F), source=le[0], filter=le[1], whole=le[3], loop=None,
                           via="builtin %s(key=attrgetter)" % t[1][1], has_break=False, has_return=False)
                if t[2] == F:
                    return of
                return KFold(kind="ARG", of=of, term=("sf", ("t",), t[2]), source=le[0], filter=le[1], whole=le[3], loop=None, init=None,
                             via="field of the arg-%s object" % t[1][1], has_break=False, has_return=False)
            return None
        if t[0] == "call" and t[1] in ("sum", "max", "min") and 1 <= len(t[2]) <= 2:
            le, extra = self._list_arg(t[2][0])
            if le is None:
                return None
            kws = dict(t[3])
            base = dict(term=le[2], source=le[0], filter=le[1], whole=le[3], loop=None, via="builtin " + t[1])
            if t[1] == "sum":
                if extra:
                    return None
                init = self.canon_top(t[2][1]) if len(t[2]) == 2 else self.canon_top(kws.get("start", C(0)))
                return KFold(kind="SUM", init=init, **base)
            if len(t[2]) != 1:
                return None
            init = self.canon_top(kws["default"]) if "default" in kws else None
            if extra:
                if len(extra) != 1:
                    return None
                init = self._seed_init(extra[0], le[2], le[0])
            return KFold(kind="EXT", sense=t[1], strict=None, init=init, **base)
        return None

    def _first_of(self, t, kb, xs):
        """t is the fold's key evaluated at the first element of the list xs (xs = filter/map of the base list)."""
        le = self.listexpr(xs)
        if le is None:
            return False
        # xs[0] = E(base element b0) for the first base element passing the filter: the key over the base element, read at xs[0]
        # through the element map, is what a seed `key(xs[0])` is - compare with the seed recogniser's own notion
        lp = kb.loop
        if lp is not None:
            r = self.first_elem_init(t, lp)
            if r is not None and r == kb.term:
                return True
        return False

    def _nonempty_of(self, cond):
        """Base list X when cond says 'X (or a list with one entry per element of X) is not empty', else None."""
        x = None
        if cond[0] == "truthy":
            x = cond[1]
            while x[0] == "call" and x[1] == "bool" and len(x[2]) == 1:
                x = x[2][0]
        elif cond[0] == "cmp" and cond[1] in ("!=", "<", ">", ">=", "<="):
            a, b = cond[2], cond[3]
            def ln(u):
                return u[2][0] if u[0] == "call" and u[1] == "len" and len(u[2]) == 1 else None
            if cond[1] == "!=" and C(0) in (a, b):
                x = ln(b if a == C(0) else a)
            elif cond[1] == "<" and a == C(0):
                x = ln(b)
            elif cond[1] == ">" and b == C(0):
                x = ln(a)
            elif cond[1] == "<=" and a == C(1):
                x = ln(b)
            elif cond[1] == ">=" and b == C(1):
                x = ln(a)
        if x is None:
            return None
        le = self.listexpr(x)
        if le is not None:
            return le[0] if le[1] == TRUE and le[3] else None
        return self.canon_top(x)

    def _seed_init(self, seed, key_term, base):
        """Canonical start value of min/max([seed] + keys): ('first',) when the seed is the key evaluated at the first element of
        the base list, else the seed in canonical form."""
        init = self.canon_top(seed)
        e0 = simp(("idx", base, C(0)))
        at_first = deep_simp(subst(key_term, lambda x: e0 if x == ("e",) else (simp(("idx", e0, C(0))) if x == ("p",) else (simp(("idx", e0, C(1))) if x == ("t",) else None))))
        if init == self.canon_top(at_first) or init == at_first:
            return ("first",)
        return init

    def _argset_by_filter(self, loop, flt):
        """`[label for ... in S if key == max(keys)]` (directly, or zipped with the key list; the extremum may be taken
        over `[seed] + keys`) is an arg-set."""
        if flt[0] != "cmp" or flt[1] != "==" or loop.ckind != "list":
            return None
        sides = (flt[2], flt[3])
        rounding = None
        if all(x[0] == "call" and x[1] == "round" and len(x[2]) == 2 for x in sides) and sides[0][2][1] == sides[1][2][1]:
            # round(min(values), d) == round(value, d): rounding is monotone, so this is the arg-set of the rounded keys
            rounding = sides[0][2][1]
            sides = (sides[0][2][0], sides[1][2][0])
        ext = [x for x in sides if x[0] == "call" and x[1] in ("max", "min") and len(x[2]) == 1]
        if len(ext) != 1:
            return None
        ext = ext[0]
        cur = sides[0] if sides[1] == ext else sides[1]
        kle, extra = self._list_arg(ext[2][0])
        if kle is not None and kle[1] != TRUE:
            # `if label in [all labels of the same list]` is no restriction
            f0 = kle[1]
            if f0[0] == "cmp" and f0[1] == "in" and f0[2] == ("p",):
                inner = self.listexpr(f0[3]) if isinstance(f0[3], tuple) else None
                if inner is not None and inner[0] == kle[0] and inner[1] == TRUE and inner[2] == ("p",) and inner[3]:
                    kle = (kle[0], TRUE, kle[2], kle[3])
        if kle is None or kle[1] != TRUE or len(extra) > 1:
            return None
        if rounding is not None:
            rd = self.canon_top(rounding)
            kle = (kle[0], kle[1], simp(("call", "round", (kle[2], rd), ())), kle[3])
            cur = simp(("call", "round", (cur, rounding), ()))
        src_t = loop.source
        elem = ("elem", loop.id)
        if src_t[0] == "call" and src_t[1] == "zip" and len(src_t[2]) == 2:
            S_t, K_t = src_t[2]
            k2 = self.listexpr(K_t)
            if k2 is None or k2 != kle or self.canon_top(S_t) != kle[0] or cur != simp(("idx", elem, C(1))):
                return None
            s_elem = simp(("idx", elem, C(0)))
            lab = subst(loop.elt, lambda x: ("elem", -1) if x == s_elem else None)
            if mentions(lab, lambda x: x == elem):
                return None
            label = self.canon(subst(lab, lambda x: elem if x == ("elem", -1) else None), loop.id)
            base = kle[0]
        else:
            le = self.listexpr(src_t)
            base = le[0] if le is not None and le[1] == TRUE and le[2] == ("e",) else self.canon_top(src_t)
            cur_c = self.canon(cur, loop.id)
            label_c = self.canon(loop.elt, loop.id)
            if le is not None and le[1] == TRUE and le[2] != ("e",) and le[3]:
                # the comprehension runs over a list of (label, key) pairs computed from the successor list: read both in
                # terms of the successor itself
                base = le[0]
                cur_c = deep_simp(self._rebase(cur_c, le[2]))
                label_c = deep_simp(self._rebase(label_c, le[2]))
            key_mismatch = None
            if base == kle[0] and cur_c != kle[2]:
                a_, b_ = kle[2], cur_c
                # same shape, another field of the successor: the optimum is taken over one quantity, membership is judged on another
                fa = [x for x in _walk(a_) if x[0] == "sf"]
                fb = [x for x in _walk(b_) if x[0] == "sf"]
                if len(fa) == 1 and len(fb) == 1 and fa[0][1] == fb[0][1] and fa[0][2] != fb[0][2] \
                        and subst(a_, lambda x: fb[0] if x == fa[0] else None) == b_:
                    key_mismatch = (a_, b_)
            if base != kle[0] or (cur_c != kle[2] and key_mismatch is None):
                return None
            label = label_c
        kws = dict(ext[3])
        init = self.canon_top(kws["default"]) if "default" in kws else None
        if extra:
            init = self._seed_init(extra[0], kle[2], base)
        of = KFold(kind="EXT", sense=ext[1], strict=True, init=init, term=kle[2], source=base, whole=kle[3] and loop.whole, loop=None,
                   via="builtin " + ext[1])
        kf = KFold(kind="ARGSET", of=of, label=label, ties=True, init=("list", ()), source=base, filter=TRUE,
                   whole=kle[3] and loop.whole, loop=loop, via="filter by == %s(...)" % ext[1])
        kf.key_mismatch = locals().get("key_mismatch")
        if kf.key_mismatch:
            of.term = kf.key_mismatch[1]        # the actions are listed by this key ...
        return kf

    def _argset_from_canonical(self, kf):
        """A comprehension already brought to [label | source, filter] whose filter is `key == max/min([seed] ++ keys)` with the keys
        taken over the same source: the arg-set (two passes over the list instead of one).  `max(keys) <= key` / `key <= min(keys)`
        say the same.  Rounding may sit on the keys, around the extremum (monotone: the extremum of the rounded keys) and on the
        compared value; when the extremum is taken over one precision of a quantity and membership is judged on another, the
        arg-set carries that as `key_mismatch` (the list is empty or wrong whenever the two differ)."""
        flt = kf.filter
        if kf.kind != "COMPR" or not isinstance(flt, tuple) or flt[0] != "cmp" or flt[1] not in ("==", "<=") or getattr(kf, "ckind", "list") != "list" or not kf.whole:
            return None

        def unround(t):
            if t[0] == "call" and t[1] == "round" and len(t[2]) == 2 and not t[3]:
                return t[2][0], t[2][1]
            return t, None

        def is_ext(x):
            return x[0] == "call" and x[1] in ("max", "min") and len(x[2]) == 1 and not [k for k, _ in x[3] if k != "default"]
        sides = (flt[2], flt[3])
        cands = [(i, unround(x)) for i, x in enumerate(sides) if is_ext(unround(x)[0])]
        if not cands:
            # the extremum computed by a loop of its own (a helper's running minimum), compared with the key afterwards
            for i, x in enumerate(sides):
                x0, xr = unround(x)
                if x0[0] == "res" and not mentions(x0, lambda y: y in (("e",), ("p",), ("t",))):
                    ke = self.kfold(x0)
                    if ke is not None and ke.kind == "EXT" and ke.source == kf.source and ke.filter == TRUE and ke.whole and not ke.has_break and not ke.band:
                        cur, cur_round = unround(sides[1 - i])
                        if flt[1] != "==":
                            return None
                        key, key_round = unround(ke.term)
                        if xr is not None and key_round is not None:
                            return None
                        dk = self.canon_top(xr) if xr is not None else key_round
                        dc = self.canon_top(cur_round) if cur_round is not None else None
                        if key != cur:
                            return None
                        full = lambda d: key if d is None else simp(("call", "round", (key, d), ()))
                        import copy as _copy
                        of = _copy.copy(ke)
                        of.term = full(dk)
                        out = KFold(kind="ARGSET", of=of, label=kf.term, ties=True, init=("list", ()), source=kf.source, filter=TRUE, whole=True, loop=kf.loop,
                                    via="filter by == <running %s>" % ke.sense)
                        out.key_mismatch = None
                        if dk != dc:
                            out.key_mismatch = (full(dk), full(dc))
                            of.term = full(dc)
                        return out
        if len(cands) != 1:
            return None
        i_ext, (ext, ext_round) = cands[0]
        cur, cur_round = unround(sides[1 - i_ext])
        if flt[1] == "<=" and not ((ext[1] == "max" and i_ext == 0) or (ext[1] == "min" and i_ext == 1)):
            return None             # `key <= max(keys)` holds for every element: not a selection
        kle, extra = self._list_arg(ext[2][0])
        if kle is None or kle[1] != TRUE or not kle[3] or len(extra) > 1 or kle[0] != kf.source:
            return None
        key, key_round = unround(kle[2])
        if ext_round is not None and key_round is not None:
            return None
        dk = self.canon_top(ext_round) if ext_round is not None else key_round           # precision of the extremum
        dc = self.canon_top(cur_round) if cur_round is not None else None                # precision of the compared value
        if key != cur:
            return None
        full = lambda d: key if d is None else simp(("call", "round", (key, d), ()))
        kws = dict(ext[3])
        init = self.canon_top(kws["default"]) if "default" in kws else None
        if extra:
            init = self._seed_init(extra[0], kle[2], kf.source)
        of = KFold(kind="EXT", sense=ext[1], strict=True, init=init, term=full(dk), source=kf.source, whole=True, loop=None, via="builtin " + ext[1])
        out = KFold(kind="ARGSET", of=of, label=kf.term, ties=True, init=("list", ()), source=kf.source, filter=TRUE, whole=True, loop=kf.loop,
                    via="filter by %s %s(...)" % (flt[1], ext[1]))
        out.key_mismatch = None
        if dk != dc:
            out.key_mismatch = (full(dk), full(dc))
            of.term = full(dc)          # the actions are listed by this key ...
        return out

    def _src(self, loop):
        s = loop.source
        le = self.listexpr(s)
        if le is not None and le[2] == ("e",):
            return ("filtered", le[0], le[1]) if le[1] != TRUE else le[0]
        return self.canon_top(s)

    def _from_fold(self, loop, v, fo):
        sliced_rest = None
        if loop.source[0] == "slice" and loop.source[2] == C(1) and loop.source[3] == C(None) and loop.source[4] == C(None) and fo.kind == "EXT":
            # `seed = f(X[0]); for e in X[1:]: ...` is the fold over the whole of X seeded with its first element
            X = loop.source[1]
            init = getattr(fo, "init", None)

            def f(x):
                if x == ("idx", X, C(0)):
                    return ("elem", loop.id)
                return None
            if init is not None and subst(init, f) == fo.term:
                sliced_rest = X
        if sliced_rest is not None:
            import copy as _copy
            l2 = _copy.copy(loop)
            l2.source, l2.whole = sliced_rest, True
            k = self._from_fold(l2, v, fo)
            k.init = ("first",)
            k.first_filter = k.filter
            return k
        mapped = self.listexpr(loop.source)
        if mapped is not None and mapped[2] != ("e",) and fo.kind in ("SUM", "EXT", "ARG", "ARGSET"):
            # a fold over a list of computed values [g(e) for e in S if F]: rewritten as the fold of g over S (filter F)
            base, F0, E0, w0 = mapped
            canon0 = self.canon

            class _Rebased:
                pass
            saved = self.canon
            self.canon = lambda t, lid, _c=canon0, _E=E0: self._rebase(_c(t, lid), _E) if lid == loop.id else _c(t, lid)
            try:
                import copy as _copy
                l2 = _copy.copy(loop)
                l2.source, l2.whole = base, loop.whole and w0
                l2.orig_source = loop.source          # `values[0]` of the computed list seeds the fold: its first element, rebased like the rest
                k = self._from_fold(l2, v, fo)
            finally:
                self.canon = saved
            k.filter = simp(("and", (F0, k.filter)))
            if getattr(k, "first_filter", None) is not None:
                k.first_filter = k.filter
            return k
        own = getattr(fo, "own_filter", None)
        k = KFold(kind=fo.kind, source=self._src(loop), filter=self.canon(loop.filter if own is None else simp(("and", (loop.filter, own))), loop.id), whole=loop.whole,
                  has_break=loop.has_break, has_return=loop.has_return, loop=loop, var=v)
        # a filtered source folds into the filter
        if isinstance(k.source, tuple) and k.source and k.source[0] == "filtered":
            k.filter = simp(("and", (k.source[2], k.filter)))
            k.source = k.source[1]
        init = getattr(fo, "init", None)
        if fo.kind in ("SUM", "EXT", "COLLECT", "LAST"):
            k.term = self.canon(fo.term if fo.kind != "LAST" else fo.value, loop.id)
        if fo.kind == "EXT":
            k.sense, k.strict = fo.sense, fo.strict
            k.band = self.canon(getattr(fo, "cond_text", fo.cond), loop.id) if getattr(fo, "band", False) else None
            if init is not None and init[0] == "call" and init[1] == fo.sense and len(init[2]) == 2 and not init[3] and k.filter == TRUE and loop.whole:
                # `best = min(1, key(first))` in front of a min-fold over the whole list: the first element is folded in again anyway,
                # so the fold starts from the constant
                consts = [a for a in init[2] if is_const(a) and isinstance(a[1], (int, float)) and not isinstance(a[1], bool)]
                rest = [a for a in init[2] if a not in consts]
                if len(consts) == 1 and len(rest) == 1 and self.first_elem_init(rest[0], loop) == k.term:
                    init = consts[0]
            fe = self.first_elem_init(init, loop) if init is not None else None
            fe_filter = None
            if fe is not None and fe != k.term:
                # the loop runs over a list computed from the successor list (`candidates = [state_list[t] for (a, t) in S if a in allowed]`)
                # and is seeded at candidates[0]: read the seed in terms of the successor itself, like the term
                le0 = self.listexpr(loop.source)
                if le0 is not None and le0[2] != ("e",) and le0[3]:
                    fe2 = deep_simp(self._rebase(fe, le0[2]))
                    if fe2 == k.term:
                        fe, fe_filter = fe2, le0[1]
            if getattr(fo, "none_seeded", False):
                k.init = ("first",)
                k.first_filter = k.filter
                k.truthy_seed = getattr(fo, "truthy_seed", False)
            elif fe is not None and fe == k.term:
                k.init = ("first",)
                k.first_filter = self.first_filter(init, loop) if fe_filter is None else fe_filter
            else:
                k.init = self.canon_top(init) if init is not None else None
                if init is not None and isinstance(k.source, tuple) and k.term is not None and self._seed_init(init, k.term, k.source) == ("first",):
                    k.init = ("first",)             # seeded with the key at the first element, written out (mapped source)
                    k.first_filter = TRUE
        elif fo.kind in ("SUM", "COLLECT"):
            k.init = self.canon_top(init)
        elif fo.kind == "ARG":
            k.term = self.canon(fo.term, loop.id)
            k.of = self._from_fold(loop, fo.of, self._classified(loop.id)[fo.of])
            k.init = self.canon_top(init)
        elif fo.kind == "ARGSET":
            k.label = self.canon(fo.label, loop.id)
            k.ties = fo.ties
            k.tie_cond = self.canon(getattr(fo, "tie_cond", None), loop.id) if getattr(fo, "tie_cond", None) else None
            k.of = self._from_fold(loop, fo.of, self._classified(loop.id)[fo.of])
            k.init = self.canon_top(init)
        elif fo.kind == "OTHER":
            k.term = self.canon(fo.term, loop.id)
            k.init = self.canon_top(init)
        return k


def _walk(t):
    out = []

    def w(x):
        if isinstance(x, tuple):
            if x and isinstance(x[0], str):
                out.append(x)
            for y in x:
                w(y)
    w(t)
    return out


def const_value(t):
    return t[1] if is_const(t) else None


def SF(field, x=("t",)):
    return ("sf", x, field)
