"""E8 - abstract interpretation of the Roborta generator over a polynomial + exact-case-partition domain.

The three `write_robot_*` functions are summarised by the symbolic executor (builder calls inlined).  A game is
then a concatenation of *blocks* (one per builder: a loop nest over range(length) x range(width) appending exactly
one entry per tile) and literal tail states.  Entries are evaluated per *case* of the exact partition induced by the
only comparisons the code makes on positions:

    columns: W=1 | W>=2,j=0 | W>=2,j=W-1 | W>=3,0<j<W-1        rows: L=1 | L>=2,i=L-1 | L>=2,i<L-1

Each case is re-parameterised by non-negative fresh variables, so every comparison between two index polynomials is
decided by the signs of the coefficients of their difference; an undecided comparison raises Undecided (-> exit 2).
No concrete board is built and nothing of the generator is executed.
"""
from fractions import Fraction

from .loader import AnalysisError
from .symx import SymX, show, simp, C, TRUE, FALSE, is_const, UNBOUND, is_term


class Undecided(AnalysisError):
    pass


# ---- polynomials -----------------------------------------------------------------------------------

class Poly:
    __slots__ = ("t",)

    def __init__(self, t=None):
        self.t = {k: v for k, v in (t or {}).items() if v != 0}

    @staticmethod
    def const(c):
        return Poly({(): Fraction(c)}) if c != 0 else Poly()

    @staticmethod
    def sym(name):
        return Poly({((name, 1),): Fraction(1)})

    def __add__(self, o):
        o = _p(o)
        t = dict(self.t)
        for k, v in o.t.items():
            t[k] = t.get(k, 0) + v
        return Poly(t)

    __radd__ = __add__

    def __neg__(self):
        return Poly({k: -v for k, v in self.t.items()})

    def __sub__(self, o):
        return self + (-_p(o))

    def __rsub__(self, o):
        return _p(o) - self

    def __mul__(self, o):
        o = _p(o)
        t = {}
        for k1, v1 in self.t.items():
            for k2, v2 in o.t.items():
                d = dict(k1)
                for s, p in k2:
                    d[s] = d.get(s, 0) + p
                k = tuple(sorted(d.items()))
                t[k] = t.get(k, 0) + v1 * v2
        return Poly(t)

    __rmul__ = __mul__

    def __eq__(self, o):
        return isinstance(o, Poly) and self.t == o.t

    def __hash__(self):
        return hash(tuple(sorted(self.t.items())))

    def is_zero(self):
        return not self.t

    def is_const(self):
        return all(k == () for k in self.t)

    def const_value(self):
        return self.t.get((), Fraction(0))

    def symbols(self):
        return {s for k in self.t for s, _ in k}

    def sign(self, nonneg):
        """'0', '+', '-', '>=0', '<=0' or '?' assuming the symbols in `nonneg` range over non-negative numbers."""
        if not self.t:
            return "0"
        if not self.symbols() <= nonneg:
            return "?"
        vals = list(self.t.values())
        c = self.t.get((), 0)
        if all(v >= 0 for v in vals):
            return "+" if c > 0 else ">=0"
        if all(v <= 0 for v in vals):
            return "-" if c < 0 else "<=0"
        return "?"

    def subst(self, m):
        out = Poly()
        for k, v in self.t.items():
            term = Poly.const(v)
            for s, p in k:
                base = m.get(s, Poly.sym(s))
                for _ in range(p):
                    term = term * base
            out = out + term
        return out

    def __repr__(self):
        if not self.t:
            return "0"
        parts = []
        for k, v in sorted(self.t.items(), key=lambda kv: (len(kv[0]), kv[0])):
            mono = "*".join(s if p == 1 else "%s^%d" % (s, p) for s, p in k)
            if not mono:
                parts.append(str(v))
            elif v == 1:
                parts.append(mono)
            elif v == -1:
                parts.append("-" + mono)
            else:
                parts.append("%s*%s" % (v, mono))
        return " + ".join(parts).replace("+ -", "- ")


def _p(x):
    return x if isinstance(x, Poly) else Poly.const(x)


# ---- cases ------------------------------------------------------------------------------------------------

FRESH = {"a_", "b_", "c_", "d_"}


class Case:
    def __init__(self, col, row, W, j, L, i):
        self.col, self.row, self.W, self.j, self.L, self.i = col, row, W, j, L, i
        self.n = L * W

    @property
    def name(self):
        return "%s, %s" % (self.col, self.row)


def position_cases(fine=False):
    b, c, a, d = Poly.sym("b_"), Poly.sym("c_"), Poly.sym("a_"), Poly.sym("d_")
    cols = [("W=1", _p(1), _p(0)),
            ("W>=2,j=0", 2 + c, _p(0)),
            ("W>=2,j=W-1", 2 + c, 1 + c),
            ("W>=3,0<j<W-1", 3 + b + c, 1 + b)]
    rows = [("L=1", _p(1), _p(0)),
            ("L>=2,i=L-1", 2 + d, 1 + d),
            ("L>=2,i<L-1", 2 + a + d, a)]
    if fine:
        # finer, redundant partition (thorough tier): W in {1,2,3,>=4}, L in {1,2,>=3}; must agree with the coarse one
        cols = [("W=1", _p(1), _p(0)),
                ("W=2,j=0", _p(2), _p(0)), ("W=2,j=1", _p(2), _p(1)),
                ("W=3,j=0", _p(3), _p(0)), ("W=3,j=1", _p(3), _p(1)), ("W=3,j=2", _p(3), _p(2)),
                ("W>=4,j=0", 4 + c, _p(0)), ("W>=4,j=W-1", 4 + c, 3 + c), ("W>=4,0<j<W-1", 4 + b + c, 1 + b)]
        rows = [("L=1", _p(1), _p(0)),
                ("L=2,i=0", _p(2), _p(0)), ("L=2,i=1", _p(2), _p(1)),
                ("L>=3,i=L-1", 3 + d, 2 + d), ("L>=3,i<L-1", 3 + a + d, a)]
    return [Case(cn, rn, W, j, L, i) for cn, W, j in cols for rn, L, i in rows]


# ---- term -> polynomial / case evaluation ----------------------------------------------------------------------

class WrongTile(Undecided):
    """A builder reads the board at a position that is not the tile it is building the state of."""


class WrongRowCount(Undecided):
    """A builder appends two (or more) entries for one tile in some case: the block has more states than tiles, every later
    state is shifted."""


class CaseEval:
    def __init__(self, sx, case, binds, m, lt, names, tile=None):
        """binds: {term: Poly} for length, width, i, j;  names: dict(moves=..., loose=...) parameter names;
        tile: (Poly row, Poly column) of the tile under construction, when there is one."""
        self.sx, self.case, self.binds, self.m, self.lt, self.names = sx, case, binds, m, lt, names
        self.tile = tile

    def _own_tile(self, row, col, what):
        if self.tile is None:
            return
        r, c = self.poly(row), self.poly(col)
        if not (r - self.tile[0]).is_zero() or not (c - self.tile[1]).is_zero():
            raise WrongTile("%s[%s][%s] is read while the state of tile (i, j) is built: in case %s that is the entry of tile (%r, %r), not of (%r, %r)" % (
                what, show(row), show(col), self.case.name, r, c, self.tile[0], self.tile[1]))

    def poly(self, t):
        if t[0] == "polyval":
            return t[1]
        if t in self.binds:
            return self.binds[t]
        h = t[0]
        if h == "c":
            if isinstance(t[1], bool) or not isinstance(t[1], (int, float)):
                raise Undecided("non-numeric constant %r in an index expression" % (t[1],))
            if isinstance(t[1], float) and t[1] != int(t[1]):
                return Poly.const(Fraction(t[1]).limit_denominator(10 ** 9))
            return Poly.const(int(t[1]))
        if h == "v":
            return Poly.sym(t[1])
        if h == "add":
            out = Poly()
            for x in t[1]:
                out = out + self.poly(x)
            return out
        if h == "mul":
            out = Poly.const(1)
            for x in t[1]:
                out = out * self.poly(x)
            return out
        if h == "neg":
            return -self.poly(t[1])
        if h == "mod":
            x, w = self.poly(t[1]), self.poly(t[2])
            if (w - 1).is_zero():
                return Poly()
            if (x - w).is_zero():
                return Poly()
            if (x + 1).is_zero():
                return w - 1
            lo, hi = x.sign(FRESH), (w - x).sign(FRESH)
            if lo in ("0", "+", ">=0") and hi == "+":
                return x
            raise Undecided("cannot reduce (%r) mod (%r) in case %s" % (x, w, self.case.name))
        if h == "ite":
            return self.poly(self.ev(t))
        if h == "idx":
            r = self.ev(t)
            if r != t:
                return self.poly(r)
        if h == "acc" and t[1] in self.sx.loops:
            # a hand-kept element number: started at 0, advanced by exactly one on EVERY path through the (inner) loop body, never
            # touched elsewhere - in iteration (i, j) of `for i in range(L): for j in range(W)` it is i*W + j
            from .symx import simp as _simp
            Lj, v = self.sx.loops[t[1]], t[2]
            acc_j = ("acc", Lj.id, v)
            if Lj.kind == "for" and Lj.update.get(v) == _simp(("add", (acc_j, ("c", 1)))) and ("elem", Lj.id) in self.binds and not Lj.has_break and not Lj.has_return \
                    and Lj.source[0] == "call" and Lj.source[1] == "range" and len(Lj.source[2]) == 1:
                init = Lj.init.get(v)
                if init == ("c", 0):
                    return self.binds[("elem", Lj.id)]
                if init is not None and init[0] == "acc" and init[1] in self.sx.loops and init[2] == v:
                    Li = self.sx.loops[init[1]]
                    if Li.kind == "for" and Li.update.get(v) == ("res", Lj.id, v) and Li.init.get(v) == ("c", 0) and ("elem", Li.id) in self.binds \
                            and not Li.has_break and not Li.has_return and Lj.id in Li.inner and Li.source[0] == "call" and Li.source[1] == "range" and len(Li.source[2]) == 1:
                        return self.binds[("elem", Li.id)] * self.poly(Lj.source[2][0]) + self.binds[("elem", Lj.id)]
        raise Undecided("term `%s` is not an index polynomial" % show(t))

    def cmp(self, op, a, b):
        if op in ("in", "notin") and is_const(a) and b[0] in ("list", "tup", "set", "dict"):
            keys = [k for k, _ in b[1]] if b[0] == "dict" else list(b[1])
            if all(is_const(k) for k in keys):
                return (a in keys) == (op == "in")
        # non-numeric comparisons
        if is_const(a) and is_const(b) and not (isinstance(a[1], (int, float)) and isinstance(b[1], (int, float))):
            if op == "==":
                return a[1] == b[1]
            if op == "!=":
                return a[1] != b[1]
        if (is_const(a) and a[1] is None) or (is_const(b) and b[1] is None):
            other = b if (is_const(a) and a[1] is None) else a
            same = is_const(other) and other[1] is None
            if op in ("==", "is"):
                return same
            if op in ("!=", "isnot"):
                return not same
        d = self.poly(b) - self.poly(a)     # b - a
        s = d.sign(FRESH)
        if op in ("is", "isnot"):
            op = "==" if op == "is" else "!="       # identity of numbers is judged as equality here; rule C08.5 reports the `is` itself
        if op == "==":
            if s == "0":
                return True
            if s in ("+", "-"):
                return False
        elif op == "!=":
            if s == "0":
                return False
            if s in ("+", "-"):
                return True
        elif op == "<":
            if s == "+":
                return True
            if s in ("0", "-", "<=0"):
                return False
        elif op == "<=":
            if s in ("+", "0", ">=0"):
                return True
            if s == "-":
                return False
        raise Undecided("comparison `%r %s %r` is not decided by coefficient signs in case %s" % (self.poly(a), op, self.poly(b), self.case.name))

    def _truthy(self, x):
        x = self.ev(x)
        if is_const(x):
            return bool(x[1])
        if x[0] == "list":
            return len(x[1]) > 0
        s = self.poly(x).sign(FRESH)
        if s in ("+", "-"):
            return True
        if s == "0":
            return False
        raise Undecided("truthiness of `%s` undecided" % show(x))

    def truth(self, t):
        if t[0] == "truthy":
            return self._truthy(t[1])
        t = self.ev(t)
        if t == TRUE:
            return True
        if t == FALSE:
            return False
        if is_const(t):
            return bool(t[1])
        if t[0] == "truthy":
            x = t[1]
            if is_const(x):
                return bool(x[1])
            s = self.poly(x).sign(FRESH)
            if s in ("+", "-"):
                return True
            if s == "0":
                return False
            raise Undecided("truthiness of `%s` undecided" % show(x))
        if t[0] == "list":
            return len(t[1]) > 0
        raise Undecided("condition `%s` undecided" % show(t))

    def ev(self, t):
        """Simplify a term under the case: board look-ups become constants, decidable conditions are decided."""
        if not isinstance(t, tuple) or not t or not isinstance(t[0], str):
            return t
        h = t[0]
        if h == "polyval":
            return t
        if h == "idx":
            base = t[1]
            if base[0] == "idx" and base[1] == ("v", self.names["moves"]):
                self._own_tile(base[2], t[2], self.names["moves"])
                return C(self.m)
            if base[0] == "idx" and base[1] == ("v", self.names["loose"]):
                self._own_tile(base[2], t[2], self.names["loose"])
                return C(self.lt)
            b = self.ev(base)
            i = self.ev(t[2])
            return simp(("idx", b, i))
        if h == "ite":
            return self.ev(t[2]) if self.truth(t[1]) else self.ev(t[3])
        if h == "cmp":
            a, b = self.ev(t[2]), self.ev(t[3])
            return C(self.cmp(t[1], a, b))
        if h == "not":
            return C(not self.truth(t[1]))
        if h == "and":
            return C(all(self.truth(x) for x in t[1]))
        if h == "or":
            return C(any(self.truth(x) for x in t[1]))
        if h == "truthy":
            return C(self._truthy(t[1]))
        if h in ("list", "tup"):
            return (h, tuple(self.ev(x) for x in t[1]))
        if h == "cat":
            return simp(("cat", self.ev(t[1]), self.ev(t[2])))
        if h == "dict":
            return ("dict", tuple((self.ev(k), self.ev(v)) for k, v in t[1]))
        if h == "mcall" and t[2] == "get" and 1 <= len(t[3]) <= 2 and not t[4]:
            d, k = self.ev(t[1]), self.ev(t[3][0])
            if d[0] == "dict" and is_const(k) and all(is_const(kk) for kk, _ in d[1]):
                hits = [v for kk, v in d[1] if kk == k]
                return hits[-1] if hits else (self.ev(t[3][1]) if len(t[3]) == 2 else C(None))
            return t
        if h == "compr" and t[1] in self.sx.loops:
            # a comprehension over a sequence that is concrete in this case (a tuple of move names picked from a table)
            from .symx import subst
            L = self.sx.loops[t[1]]
            src_v = self.ev(L.source)
            if L.ckind in ("list", "gen") and src_v[0] in ("list", "tup") and not L.enumerated:
                out = []
                el = ("elem", L.id)
                for x in src_v[1]:
                    bind = lambda y, _x=x: _x if y == el else None
                    if all(self.truth(subst(fl, bind)) for fl in (L.filters or [])):
                        out.append(self.ev(subst(L.elt, bind)))
                return ("list", tuple(out))
            return t
        return t


# ---- game extraction -----------------------------------------------------------------------------------------

class Block:
    def __init__(self, index, res_term, Lo, Li, var, elt=None):
        self.index, self.res, self.Lo, self.Li, self.var = index, res_term, Lo, Li, var
        self.elt = elt          # mapped block: entry term per tile (comprehension over a tile enumeration)
        self.builder = None


class Game:
    def __init__(self, ctx, qual):
        self.ctx = ctx
        self.func = ctx.func(qual)
        self.sx = SymX(ctx, self.func, inline_depth=3, unroll_literals=True).run()     # `for step in (width, -1, 1):` is three blocks
        ps = self.func.params
        self.names = {"moves": _pick(ps, "moves"), "loose": _pick(ps, "loose"), "length": _pick(ps, "length"),
                      "width": _pick(ps, "width"), "rewards": _pick(ps, "rewards")}
        g = self.sx.final.env.get("game")
        if g is None or g[0] != "dict":
            # any dict display passed to str() in a write call
            g = None
            for e in self.sx.final.effects:
                if e[1] == "call":
                    for t in _sub(e[2]):
                        if t[0] == "dict":
                            g = t
            if g is None:
                raise AnalysisError("%s: game dictionary not found" % qual)
        self.dict = {k[1]: v for k, v in g[1] if is_const(k)}
        if "transition_list" not in self.dict:
            raise AnalysisError("%s: game dictionary lacks 'transition_list'" % qual)
        self.missing_keys = [k for k in ("rewards", "players", "final_states") if k not in self.dict]
        self.L, self.W = ("v", self.names["length"]), ("v", self.names["width"])
        self._blocks()

    def _leaves(self, t):
        if t[0] == "cat":
            return self._leaves(t[1]) + self._leaves(t[2])
        return [t]

    def _post_processing(self, T):
        """`transition_list = helper(players, transition_list)`: a loop over (zip(players,) the block list that rebuilds every
        entry.  Returns (loop, variable, zipped?, underlying term) or None."""
        if T[0] != "res" or T[1] not in self.sx.loops:
            return None
        Lp = self.sx.loops[T[1]]
        if Lp.kind != "for" or Lp.has_break or Lp.has_return or Lp.init.get(T[2]) != ("list", ()):
            return None
        src_t = Lp.source
        if src_t[0] == "call" and src_t[1] == "zip" and len(src_t[2]) == 2:
            inner, zipped = src_t[2][1], True
        else:
            inner, zipped = src_t, False
        if inner[0] not in ("cat", "res", "list", "compr"):
            return None
        # the underlying term must itself decompose into blocks (range(length) loop nests)
        leaves = self._leaves(inner)
        if not any(l[0] in ("res", "compr") for l in leaves) or inner == T:
            return None
        for l in leaves:
            if l[0] == "res" and self.sx.loops[l[1]].source != ("call", "range", (self.L,), ()):
                return None
        return Lp, T[2], zipped, inner

    def _blocks(self):
        self.blocks, self.tail = [], []
        self.post = None
        T = self.dict["transition_list"]
        pp = self._post_processing(T)
        if pp is not None:
            self.post = pp[:3]
            T = pp[3]
        for leaf in self._leaves(T):
            if leaf[0] == "res":
                if self.tail:
                    raise AnalysisError("%s: a block follows the tail states" % self.func.short)
                Lo = self.sx.loops[leaf[1]]
                v = leaf[2]
                up = Lo.update.get(v)
                rng = lambda x: ("call", "range", (x,), ())
                if Lo.kind != "for" or Lo.source != rng(self.L) or up is None or up[0] != "res" or Lo.has_break or Lo.cont != FALSE \
                        or Lo.init.get(v) != ("list", ()):
                    raise Undecided("%s: block %d is not `for i in range(length)` over a fresh list (source %s)" % (
                        self.func.short, len(self.blocks), show(Lo.source)))
                Li = self.sx.loops[up[1]]
                # a `continue` in the tile loop is fine: the per-tile update term covers the paths that skip the append
                if Li.kind != "for" or Li.source != rng(self.W) or Li.has_break or Li.has_return or Li.init.get(v) != ("acc", Lo.id, v):
                    raise Undecided("%s: block %d inner loop is not `for j in range(width)` (source %s)" % (
                        self.func.short, len(self.blocks), show(Li.source)))
                b = Block(len(self.blocks), leaf, Lo, Li, v)
                fn = self.ctx.cfg  # placeholder
                b.builder = _enclosing_function(self.ctx, Li.node)
                self.blocks.append(b)
            elif leaf[0] == "compr":
                b = self._mapped_block(leaf)
                if b is None:
                    raise Undecided("%s: transition list part `%s` is a comprehension that is not a map over the tiles" % (self.func.short, show(leaf)[:80]))
                self.blocks.append(b)
            elif leaf[0] == "flatten" and leaf[1][0] == "compr" and self._nested_map_block(leaf) is not None:
                self.blocks.append(self._nested_map_block(leaf))
            elif leaf[0] == "list":
                self.tail.extend(leaf[1])
            else:
                raise Undecided("%s: transition list part `%s` is neither a builder block nor a literal" % (self.func.short, show(leaf)[:80]))

    def _tile_enumeration(self, t):
        """(Lo, Li, per-tile element term) if t enumerates the tiles row by row: nested range(length) x range(width) collect."""
        rng = lambda x: ("call", "range", (x,), ())
        if t[0] == "flatten" and t[1][0] == "compr":
            # ((i, j) for i in range(length) for j in range(width))
            Lo = self.sx.loops[t[1][1]]
            if Lo.filters or Lo.source != rng(self.L) or Lo.elt[0] != "compr" or Lo.ckind not in ("list", "gen"):
                return None
            Li = self.sx.loops[Lo.elt[1]]
            if Li.filters or Li.source != rng(self.W) or Li.ckind not in ("list", "gen"):
                return None
            return Lo, Li, Li.elt
        if t[0] != "res" or t[1] not in self.sx.loops:
            return None
        Lo = self.sx.loops[t[1]]
        v = t[2]
        up = Lo.update.get(v)
        if Lo.kind != "for" or Lo.source != rng(self.L) or up is None or up[0] != "res" or Lo.has_break or Lo.cont != FALSE or Lo.init.get(v) != ("list", ()):
            return None
        Li = self.sx.loops[up[1]]
        if Li.kind != "for" or Li.source != rng(self.W) or Li.has_break or Li.cont != FALSE or Li.init.get(v) != ("acc", Lo.id, v):
            return None
        u = Li.update.get(v)
        acc = ("acc", Li.id, v)
        if u is None or u[0] != "cat" or u[1] != acc or u[2][0] != "list" or len(u[2][1]) != 1:
            return None
        return Lo, Li, u[2][1][0]

    def _nested_map_block(self, leaf):
        """[E(i, j) for i in range(length) for j in range(width)]: one entry per tile, row by row."""
        rng = lambda x: ("call", "range", (x,), ())
        Lo = self.sx.loops[leaf[1][1]]
        if Lo.filters or Lo.ckind not in ("list", "gen") or Lo.source != rng(self.L) or Lo.elt[0] != "compr":
            return None
        Li = self.sx.loops[Lo.elt[1]]
        if Li.filters or Li.ckind not in ("list", "gen") or Li.source != rng(self.W):
            return None
        b = Block(len(self.blocks), leaf, Lo, Li, None, elt=Li.elt)
        b.builder = _enclosing_function(self.ctx, Li.node)
        return b

    def _mapped_block(self, leaf):
        from .symx import subst
        Lc = self.sx.loops[leaf[1]]
        if Lc.filters or Lc.ckind != "list" or not Lc.whole:
            return None
        te = self._tile_enumeration(Lc.source)
        if te is None:
            return None
        Lo, Li, T = te
        elem = ("elem", Lc.id)
        elt = subst(Lc.elt, lambda x: T if x == elem else None)
        b = Block(len(self.blocks), leaf, Lo, Li, None, elt=elt)
        b.builder = _enclosing_function(self.ctx, Lc.node)
        return b

    def entry(self, block, case, m, lt):
        """The transition list appended for tile (i,j) of `block` in `case` with moves[i][j]=m, loose[i][j]=lt."""
        binds = {self.L: case.L, self.W: case.W, ("elem", block.Lo.id): case.i, ("elem", block.Li.id): case.j}
        ce = CaseEval(self.sx, case, binds, m, lt, self.names, tile=(case.i, case.j))
        if self.post is not None:
            raw = self._raw_entry(block, ce)
            return ce, self._apply_post(block, case, ce, raw)
        return ce, self._raw_entry(block, ce)

    def _apply_post(self, block, case, ce, entry):
        """Run the entry through the post-processing loop (its summary, evaluated on the abstract entry)."""
        from .guards import Evaluator, EvalUnsupported, Crash
        if entry is None or entry[0] != "list":
            return entry
        items = []
        for t in entry[1]:
            t = ce.ev(t)
            if t[0] != "tup" or len(t[1]) != 2:
                raise Undecided("post-processing: transition `%s` is not a pair" % show(t)[:60])
            k, tgt = t[1]
            kv = k[1] if is_const(k) and isinstance(k[1], str) else ce.poly(k)
            items.append((kv, ce.poly(tgt)))
        # the helper may compare successor indices with each other: every pair must be decided in this case
        for a_ in range(len(items)):
            for b_ in range(a_ + 1, len(items)):
                d_ = (items[a_][1] - items[b_][1]).sign(FRESH)
                if d_ not in ("0", "+", "-"):
                    raise Undecided("post-processing compares successor indices %r and %r, whose equality is not decided in case %s (use the finer partition)" % (
                        items[a_][1], items[b_][1], case.name))
        Lp, var, zipped = self.post
        owner = self.owner_of_block(block.index, case)
        ev = Evaluator(self.sx, {})
        loc = {("elem", Lp.id): ((owner, items) if zipped else items), ("pos", Lp.id): 0, ("acc", Lp.id, var): []}
        for v_, init in Lp.init.items():
            if v_ != var:
                loc[("acc", Lp.id, v_)] = None
        try:
            out = ev.ev(Lp.update[var], loc)
        except (EvalUnsupported, Crash) as e:
            raise Undecided("post-processing of the transition list (%s) could not be evaluated on an abstract entry: %s" % (_enclosing_function(self.ctx, Lp.node), e))
        if not isinstance(out, list) or len(out) != 1:
            raise Undecided("post-processing yields %d entries for one state" % (len(out) if isinstance(out, list) else -1))
        return ("pyentry", out[0])

    def tail_entry(self, k, case):
        """Transition list of tail state k (after post-processing, if any) as [(key, target Poly)]; None if not a list."""
        t = self.tail[k]
        ce = CaseEval(self.sx, case, {self.L: case.L, self.W: case.W}, 0, 0, self.names)
        if self.post is not None:
            class _B:
                index = None
            owner_segments = self.segments("players", case)
            items = []
            if t[0] != "list":
                return None
            for x in t[1]:
                if x[0] != "tup" or len(x[1]) != 2:
                    return None
                items.append((x[1][0][1] if is_const(x[1][0]) and isinstance(x[1][0][1], str) else ce.poly(x[1][0]), ce.poly(x[1][1])))
            from .guards import Evaluator, EvalUnsupported, Crash
            Lp, var, zipped = self.post
            # owner of the tail state: the segment covering index nb*n + k
            start, owner = Poly(), None
            for val, ln in owner_segments:
                end = start + ln
                idx = len(self.blocks) * case.n + k
                if (idx - start).sign(FRESH) in ("0", "+", ">=0") and (end - idx - 1).sign(FRESH) in ("0", "+", ">=0"):
                    owner = val[1] if is_const(val) else None
                start = end
            loc = {("elem", Lp.id): ((owner, items) if zipped else items), ("pos", Lp.id): 0, ("acc", Lp.id, var): []}
            for v_ in Lp.init:
                if v_ != var:
                    loc[("acc", Lp.id, v_)] = None
            try:
                out = Evaluator(self.sx, {}).ev(Lp.update[var], loc)
            except (EvalUnsupported, Crash) as e:
                raise Undecided("post-processing of a tail state could not be evaluated: %s" % e)
            return out[0] if isinstance(out, list) and len(out) == 1 else None
        if t[0] != "list":
            return None
        items = []
        for x in t[1]:
            if x[0] != "tup" or len(x[1]) != 2:
                return None
            items.append((x[1][0][1] if is_const(x[1][0]) and isinstance(x[1][0][1], str) else ce.poly(x[1][0]), ce.poly(x[1][1])))
        return items

    def owner_of_block(self, b, case):
        start = Poly()
        for val, ln in self.segments("players", case):
            end = start + ln
            if (b * case.n - start).sign(FRESH) in ("0", "+", ">=0") and (end - (b + 1) * case.n).sign(FRESH) in ("0", "+", ">=0"):
                return val[1] if is_const(val) else None
            start = end
        return None

    def _raw_entry(self, block, ce):
        case = ce.case
        if block.elt is not None:
            return ce.ev(block.elt)
        u = ce.ev(block.Li.update[block.var])
        acc = ("acc", block.Li.id, block.var)
        if u[0] == "cat" and u[1] == acc and u[2][0] == "list" and len(u[2][1]) == 1:
            return ce.ev(u[2][1][0])
        if u == acc:
            return None
        # cat(cat(acc, [x1]), [x2]) ...: several appends in this case
        n, t = 0, u
        while t[0] == "cat" and t[2][0] == "list" and len(t[2][1]) == 1:
            n, t = n + 1, t[1]
        if t == acc and n >= 2:
            raise WrongRowCount("%s block %d appends %d entries for one tile in case %s (`%s`): the block gets more states than tiles and every later state of the game is shifted" % (
                self.func.short, block.index, n, case.name, show(u)[:100]))
        raise Undecided("%s block %d: per-tile update `%s` is not a single append" % (self.func.short, block.index, show(u)[:120]))

    def segments(self, key, case):
        """[(value term, length Poly)] for the rewards / players lists."""
        binds = {self.L: case.L, self.W: case.W}
        ce = CaseEval(self.sx, case, binds, 0, 0, self.names)
        out = []
        if key not in self.dict:
            raise Undecided("%s: the emitted game has no key %r" % (self.func.short, key))
        for leaf in self._leaves(self.dict[key]):
            if leaf[0] == "compr":
                L = self.sx.loops[leaf[1]]
                if L.source[0] == "call" and L.source[1] == "range" and len(L.source[2]) == 1 and not L.filters:
                    out.append((L.elt, ce.poly(L.source[2][0])))
                else:
                    raise Undecided("list segment `%s` not recognised" % show(leaf))
            elif leaf[0] == "repeat":
                if leaf[1][0] == "list" and len(leaf[1][1]) == 1:
                    out.append((leaf[1][1][0], ce.poly(leaf[2])))
                else:
                    raise Undecided("repeat segment `%s`" % show(leaf))
            elif leaf[0] == "list":
                for x in leaf[1]:
                    out.append((x, Poly.const(1)))
            elif leaf[0] == "flatten" or _flatten_arg(leaf) is not None:
                arg = leaf[1] if leaf[0] == "flatten" else _flatten_arg(leaf)
                out.append((("tile", arg), case.L * case.W))
            else:
                raise Undecided("list segment `%s` not recognised" % show(leaf)[:80])
        return out


def _flatten_arg(t):
    """X for list(itertools.chain.from_iterable(X)), list(itertools.chain(*X)), sum(X, [])."""
    if t[0] == "call" and t[1] == "list" and len(t[2]) == 1:
        a = t[2][0]
        if a[0] == "mcall" and a[2] == "from_iterable" and len(a[3]) == 1:
            return a[3][0]
        if a[0] in ("mcall", "call") and (a[2] if a[0] == "mcall" else a[1]) in ("chain", "itertools.chain"):
            args = a[3] if a[0] == "mcall" else a[2]
            if len(args) == 1 and args[0][0] == "star":
                return args[0][1]
    if t[0] == "call" and t[1] == "sum" and len(t[2]) == 2 and t[2][1] == ("list", ()):
        return t[2][0]
    return None


def _pick(params, stem):
    c = [p for p in params if stem in p]
    if not c:
        raise AnalysisError("parameter *%s* missing" % stem)
    return c[0]


def _sub(t):
    out = []

    def walk(x):
        if isinstance(x, tuple):
            if is_term(x):
                out.append(x)
            for y in x:
                walk(y)
    walk(t)
    return out


def _enclosing_function(ctx, node):
    n = node
    import ast
    while n is not None and not isinstance(n, ast.FunctionDef):
        n = getattr(n, "parent", None)
    return n.name if n is not None else "?"


# ---- the Roborta rule model ---------------------------------------------------------------------------------------

P2, P1, PR = "Player 2", "Player 1", "Probabilistic"
OWNER = {"Light": P2, "RobotDown": P1, "RobotLR": P1, "RobotFree": P1, "Arrive": PR, "DownTry": PR, "LeftTry": PR,
         "RightTry": PR, "GreenLamp": PR, "YellowLamp": PR}


def model_edges(game, role, m, lt, probs):
    """Edges of `role` on a tile with arrows m (0 '<-', 1 '<>', 2 '->', 3 'v') and loose flag lt.
    Targets: ('R', role, dj) same row, column j+dj (mod W);  ('BELOW',);  ('T','win'|'lose').
    Returns None if the role is not reachable for this tile (down-only tiles have no yellow side)."""
    p_tb, p_rb, p_lb = probs
    one = Poly.const(1)
    R = lambda r, dj=0: ("R", r, dj)
    if role == "Light":
        e = [("Green", R("RobotDown" if game in "AB" else "GreenLamp"))]
        if m != 3:
            e.append(("Yellow", R("RobotLR" if game in "AB" else "YellowLamp")))
        return e
    if role == "RobotDown":
        return [("Down", ("BELOW",) if game == "A" else R("DownTry"))]
    if role == "RobotLR":
        if m == 3:
            return None
        e = []
        if m in (0, 1):
            e.append(("Left", R("Arrive", -1) if game == "A" else R("LeftTry")))
        if m in (1, 2):
            e.append(("Right", R("Arrive", +1) if game == "A" else R("RightTry")))
        return e
    if role == "Arrive":
        if lt == 1:
            return [(p_tb, ("T", "lose")), (one - p_tb, R("Light"))]
        return [(one, R("Light"))]
    if role == "DownTry":
        return [(p_rb, R("Arrive")), (one - p_rb, ("BELOW",))]
    if role == "LeftTry":
        return [(p_rb, R("Arrive")), (one - p_rb, R("Arrive", -1))]
    if role == "RightTry":
        return [(p_rb, R("Arrive")), (one - p_rb, R("Arrive", +1))]
    if role == "GreenLamp":
        return [(p_lb, R("RobotFree")), (one - p_lb, R("RobotDown"))]
    if role == "YellowLamp":
        if m == 3:
            return None
        return [(p_lb, R("RobotFree")), (one - p_lb, R("RobotLR"))]
    if role == "RobotFree":
        e = [("Down", R("DownTry"))]
        if m in (0, 1):
            e.append(("Left", R("LeftTry")))
        if m in (1, 2):
            e.append(("Right", R("RightTry")))
        return e
    raise AnalysisError("unknown role %s" % role)


def wrap_column(case, dj):
    """Polynomial of (j+dj) mod W in the case."""
    j, W = case.j, case.W
    if dj == 0:
        return j
    if (W - 1).is_zero():
        return Poly()
    if dj == -1:
        return (W - 1) if j.is_zero() else j - 1
    if dj == +1:
        return Poly() if (j - (W - 1)).is_zero() else j + 1
    raise AnalysisError("dj")


def is_last_row(case):
    return (case.i - (case.L - 1)).is_zero()
