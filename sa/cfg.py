"""E3/E4 - statement-level control-flow graph, dominators, post-dominators,
path queries and reaching definitions for one function.

Statement kinds handled: simple statements, if/elif/else, for (+else), while (+else),
try/except/else/finally, with, return, raise, break, continue, pass, nested defs (opaque),
match is not used by the repository (-> AnalysisError).
"""
import ast

from .loader import AnalysisError, walk_no_nested_defs

ENTRY, EXIT, RAISE = "<entry>", "<exit>", "<raise>"


class CFG:
    def __init__(self, func_node, may_raise=None):
        """may_raise: optional predicate(stmt) -> bool: statement may raise (calls a raising function).
        Statements inside a try body always get an edge to the handlers."""
        self.func = func_node
        self.succ = {ENTRY: set(), EXIT: set(), RAISE: set()}
        self.pred = {}
        self.nodes = [ENTRY, EXIT, RAISE]
        self.may_raise = may_raise or (lambda s: False)
        self.loop_of = {}       # stmt -> innermost enclosing loop stmt (For/While) or None
        self._loops = []
        self._handlers = []     # stack of lists of handler entry nodes
        first = self._block(func_node.body, EXIT)
        self._edge(ENTRY, first)
        for n in self.nodes:
            self.succ.setdefault(n, set())
        self.pred = {n: set() for n in self.nodes}
        for a, ss in self.succ.items():
            for b in ss:
                self.pred[b].add(a)
        self._dom = None
        self._pdom = None

    # ---- construction -------------------------------------------------------
    def _add(self, n):
        if n not in self.succ:
            self.succ[n] = set()
            self.nodes.append(n)
            self.loop_of[n] = self._loops[-1][0] if self._loops else None

    def _edge(self, a, b):
        self.succ.setdefault(a, set()).add(b)

    def _exc_target(self):
        return self._handlers[-1] if self._handlers else [RAISE]

    def _block(self, stmts, follow):
        """Wire the statements of a block; return the entry node of the block (or follow if empty)."""
        nxt = follow
        for st in reversed(stmts):
            nxt = self._stmt(st, nxt)
        return nxt

    def _stmt(self, st, follow):
        self._add(st)
        if self._handlers or self.may_raise(st):
            for h in self._exc_target():
                self._edge(st, h)
        if isinstance(st, ast.If):
            t = self._block(st.body, follow)
            e = self._block(st.orelse, follow)
            self._edge(st, t)
            self._edge(st, e)
        elif isinstance(st, (ast.For, ast.While)):
            after = self._block(st.orelse, follow)
            self._loops.append((st, follow))
            body = self._block(st.body, st)
            self._loops.pop()
            self._edge(st, body)
            const_true = isinstance(st, ast.While) and isinstance(st.test, ast.Constant) and bool(st.test.value)
            if not const_true:
                self._edge(st, after)
        elif isinstance(st, ast.Try):
            fin = self._block(st.finalbody, follow) if st.finalbody else follow
            hentries = []
            for h in st.handlers:
                self._add(h)
                hb = self._block(h.body, fin)
                self._edge(h, hb)
                hentries.append(h)
            orelse = self._block(st.orelse, fin)
            self._handlers.append(hentries if hentries else self._exc_target())
            body = self._block(st.body, orelse)
            self._handlers.pop()
            self._edge(st, body)
            for h in hentries:
                self._edge(st, h)
        elif isinstance(st, ast.With):
            body = self._block(st.body, follow)
            self._edge(st, body)
        elif isinstance(st, ast.Return):
            self._edge(st, EXIT)
        elif isinstance(st, ast.Raise):
            for h in self._exc_target():
                self._edge(st, h)
        elif isinstance(st, ast.Break):
            if not self._loops:
                raise AnalysisError("break outside loop")
            self._edge(st, self._loops[-1][1])
        elif isinstance(st, ast.Continue):
            if not self._loops:
                raise AnalysisError("continue outside loop")
            self._edge(st, self._loops[-1][0])
        elif isinstance(st, (ast.Match,)):
            raise AnalysisError("match statement not supported by the CFG builder")
        else:
            self._edge(st, follow)
        return st

    # ---- dominators ---------------------------------------------------------
    def _dominators(self, root, succ, pred):
        reach = set()
        todo = [root]
        while todo:
            n = todo.pop()
            if n in reach:
                continue
            reach.add(n)
            todo.extend(succ[n])
        dom = {n: set(reach) for n in reach}
        dom[root] = {root}
        changed = True
        order = [n for n in self.nodes if n in reach]
        while changed:
            changed = False
            for n in order:
                if n == root:
                    continue
                ps = [dom[p] for p in pred[n] if p in reach]
                new = set.intersection(*ps) if ps else set()
                new = new | {n}
                if new != dom[n]:
                    dom[n] = new
                    changed = True
        return dom

    @property
    def dom(self):
        if self._dom is None:
            self._dom = self._dominators(ENTRY, self.succ, self.pred)
        return self._dom

    @property
    def pdom(self):
        if self._pdom is None:
            self._pdom = self._dominators(EXIT, self.pred, self.succ)
        return self._pdom

    def stmt_of(self, node):
        """The CFG statement node containing an arbitrary AST node of this function."""
        n = node
        while n is not None and n not in self.succ:
            n = getattr(n, "parent", None)
        if n is None:
            raise AnalysisError("node not in CFG")
        return n

    def reachable(self, n):
        return n in self.dom

    def dominates(self, a, b):
        """Every path entry->b passes through a (a, b: AST nodes inside the function)."""
        a, b = self.stmt_of(a), self.stmt_of(b)
        if b not in self.dom:
            return True  # unreachable
        return a in self.dom[b]

    def postdominates(self, a, b):
        """Every path b->normal exit passes through a."""
        a, b = self.stmt_of(a), self.stmt_of(b)
        if b not in self.pdom:
            return True  # b cannot reach normal exit
        return a in self.pdom[b]

    def on_every_normal_path(self, a):
        """a executes on every path from entry to the normal exit."""
        a = self.stmt_of(a)
        return EXIT not in self.dom or a in self.dom[EXIT]

    def path_exists(self, a, b, avoiding=()):
        """Is there a path a ->+ b that does not pass through a node in `avoiding` (a itself excluded)?"""
        avoiding = set(avoiding)
        seen = set()
        todo = list(self.succ[a])
        while todo:
            n = todo.pop()
            if n in seen or n in avoiding:
                continue
            if n == b:
                return True
            seen.add(n)
            todo.extend(self.succ[n])
        return False

    def statements(self):
        return [n for n in self.nodes if isinstance(n, ast.AST)]

    def in_loop(self, node, loop=None):
        st = self.stmt_of(node)
        l = self.loop_of.get(st)
        while l is not None:
            if loop is None or l is loop:
                return True
            l = self.loop_of.get(l)
        return False

    # ---- reaching definitions ---------------------------------------------
    @staticmethod
    def assigned_names(st):
        """Names (plain locals) bound by the statement itself (not by nested statements)."""
        out = []

        def targets(t):
            if isinstance(t, ast.Name):
                out.append(t.id)
            elif isinstance(t, (ast.Tuple, ast.List)):
                for e in t.elts:
                    targets(e)
            elif isinstance(t, ast.Starred):
                targets(t.value)

        if isinstance(st, ast.Assign):
            for t in st.targets:
                targets(t)
        elif isinstance(st, (ast.AugAssign, ast.AnnAssign)):
            targets(st.target)
        elif isinstance(st, ast.For):
            targets(st.target)
        elif isinstance(st, ast.With):
            for it in st.items:
                if it.optional_vars is not None:
                    targets(it.optional_vars)
        elif isinstance(st, ast.ExceptHandler):
            if st.name:
                out.append(st.name)
        elif isinstance(st, (ast.FunctionDef, ast.ClassDef)):
            out.append(st.name)
        elif isinstance(st, (ast.Import, ast.ImportFrom)):
            for al in st.names:
                out.append((al.asname or al.name).split(".")[0])
        # walrus
        for n in ([st.test] if isinstance(st, (ast.If, ast.While)) else
                  [st.iter] if isinstance(st, ast.For) else
                  [] if isinstance(st, (ast.Try, ast.With, ast.ExceptHandler, ast.FunctionDef, ast.ClassDef)) else [st]):
            for x in ast.walk(n):
                if isinstance(x, ast.NamedExpr) and isinstance(x.target, ast.Name):
                    out.append(x.target.id)
        return out

    def reaching_defs(self):
        """node -> {name: set(def nodes)} holding at node entry. Parameters are defined at ENTRY."""
        if getattr(self, "_rd", None) is not None:
            return self._rd
        a = self.func.args
        params = [x.arg for x in a.posonlyargs + a.args + a.kwonlyargs]
        if a.vararg:
            params.append(a.vararg.arg)
        if a.kwarg:
            params.append(a.kwarg.arg)
        gen = {n: (self.assigned_names(n) if isinstance(n, ast.AST) else []) for n in self.nodes}
        gen[ENTRY] = params
        IN = {n: {} for n in self.nodes}
        OUT = {n: {} for n in self.nodes}
        changed = True
        while changed:
            changed = False
            for n in self.nodes:
                newin = {}
                for p in self.pred[n]:
                    for k, v in OUT[p].items():
                        newin.setdefault(k, set()).update(v)
                out = {k: set(v) for k, v in newin.items()}
                for name in gen[n]:
                    if isinstance(n, ast.AugAssign):
                        out.setdefault(name, set()).add(n)   # augmented: old defs flow into it, keep n as def
                        out[name] = {n}
                    else:
                        out[name] = {n}
                if newin != IN[n] or out != OUT[n]:
                    IN[n], OUT[n] = newin, out
                    changed = True
        self._rd = IN
        self._rd_out = OUT
        return IN

    def defs_reaching(self, use_node, name):
        """Definition nodes of `name` that reach the statement containing use_node."""
        st = self.stmt_of(use_node)
        return set(self.reaching_defs().get(st, {}).get(name, set()))

    def uses_of(self, name):
        out = []
        for n in walk_no_nested_defs(self.func):
            if isinstance(n, ast.Name) and n.id == name and isinstance(n.ctx, ast.Load):
                out.append(n)
        return out
