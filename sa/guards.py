"""E7 - guard analysis by cell evaluation.

A validation function is first summarised by the symbolic executor (symx): its `raise` statements become
(condition term, exception term) effects, loops become per-element effect lists.  The guard conditions of this
repository are boolean combinations of type tests, length tests, membership tests and order comparisons against
constants and one symbolic bound (the number of states).  The truth value of such a formula is constant on every cell of
the partition induced by (type class of each component) x (length class) x (order class relative to the constants), so
evaluating the *summary terms* on one representative per cell decides exactly which inputs are rejected, with which
exception class, for all inputs.  The evaluator below interprets terms only; no repository code is executed.  A term
outside the fragment raises EvalUnsupported -> the rule is undecided.
"""
from .loader import AnalysisError
from .symx import show, TRUE, FALSE, C, is_const, UNBOUND


class EvalUnsupported(AnalysisError):
    pass


class Crash(Exception):
    """Evaluating the guard itself would raise this (non-ValueError) exception in the real code."""

    def __init__(self, kind, where):
        Exception.__init__(self, "%s at %s" % (kind, where))
        self.kind = kind
        self.where = where


TYPES = {"list": list, "tuple": tuple, "str": str, "int": int, "float": float, "dict": dict, "bool": bool, "set": set}


class ClassRef:
    """a class of the program as a first-class value: equal to itself, not None, truthy"""
    def __init__(self, name):
        self.name = name

    def __eq__(self, other):
        return isinstance(other, ClassRef) and other.name == self.name

    def __hash__(self):
        return hash(("ClassRef", self.name))

    def __repr__(self):
        return "<class %s>" % self.name


class FuncRef:
    def __init__(self, func):
        self.func = func

    def __repr__(self):
        return "<function %s>" % self.func.name


_SUMMARIES = {}


class Evaluator:
    def __init__(self, sx, env):
        """env: {term: python value} for free symbols, e.g. ('v','width'): 3, ('attr',('v','self'),'num_states'): 5."""
        self.sx = sx
        self.env = dict(env)

    # ---- terms --------------------------------------------------------------------
    def ev(self, t, loc=None):
        loc = loc or {}
        if t in loc:
            v = loc[t]
            if v is UNBOUND or v == UNBOUND:
                raise Crash("UnboundLocalError", show(t))
            return v
        if t in self.env:
            return self.env[t]
        h = t[0]
        if h == "c":
            return t[1]
        if h == "v":
            if t[1] in TYPES:
                return TYPES[t[1]]
            if t[1] in self.sx.func.mod.funcs:
                return FuncRef(self.sx.func.mod.funcs[t[1]])
            if t[1] in getattr(self.sx.func.mod, "classes", {}) or t[1] in getattr(self.sx, "prog", type("x", (), {"classes": {}})).classes:
                return ClassRef(t[1])          # a class used as a value (an entry of a table of node classes): only its identity matters
            mod_ = self.sx.func.mod
            if t[1] in getattr(mod_, "consts", {}):
                # a module-level constant (a tuple / frozenset of the player names, a table of limits): its folded value
                try:
                    return self.sx.ctx.prog.const_eval(mod_.consts[t[1]], mod_)
                except Exception:
                    pass
            raise EvalUnsupported("free symbol %s has no witness value" % t[1])
        if h == "apply":
            fv = self.ev(t[1], loc)
            args = [self.ev(a, loc) for a in t[2]]
            if isinstance(fv, FuncRef):
                return self.apply(fv, args, dict((k, self.ev(v, loc)) for k, v in t[3]))
            raise EvalUnsupported("call of a non-function value %r" % (fv,))
        if h == "closure":
            raise EvalUnsupported("closure value")
        if h == "attr":
            raise EvalUnsupported("attribute %s has no witness value" % show(t))
        if h == "unbound":
            raise Crash("UnboundLocalError", "use of an unbound local")
        if h == "idx":
            b, i = self.ev(t[1], loc), self.ev(t[2], loc)
            try:
                return b[i]
            except (TypeError, IndexError, KeyError) as e:
                raise Crash(type(e).__name__, show(t))
        if h == "slice":
            b = self.ev(t[1], loc)
            lo, hi, st = (self.ev(x, loc) for x in t[2:5])
            try:
                return b[lo:hi:st]
            except TypeError:
                raise Crash("TypeError", show(t))
        if h in ("tup", "list"):
            vals = [self.ev(x, loc) for x in t[1]]
            return tuple(vals) if h == "tup" else vals
        if h == "set":
            return set(self.ev(x, loc) for x in t[1])
        if h == "add":
            try:
                # a - b is kept as a + (-b): evaluated as the subtraction it was (sets subtract, they do not negate)
                pos_ = [x for x in t[1] if x[0] != "neg"]
                neg_ = [x[1] for x in t[1] if x[0] == "neg"]
                if pos_:
                    s = self.ev(pos_[0], loc)
                    for x in pos_[1:]:
                        s = s + self.ev(x, loc)
                    for x in neg_:
                        s = s - self.ev(x, loc)
                else:
                    s = -self.ev(neg_[0], loc)
                    for x in neg_[1:]:
                        s = s - self.ev(x, loc)
                return s
            except TypeError as e:
                raise Crash("TypeError", show(t))
        if h == "mul":
            try:
                s = self.ev(t[1][0], loc)
                for x in t[1][1:]:
                    s = s * self.ev(x, loc)
                return s
            except TypeError:
                raise Crash("TypeError", show(t))
        if h == "neg":
            try:
                return -self.ev(t[1], loc)
            except TypeError:
                raise Crash("TypeError", show(t))
        if h == "cmp":
            op = t[1]
            a, b = self.ev(t[2], loc), self.ev(t[3], loc)
            try:
                if op == "<":
                    return a < b
                if op == "<=":
                    return a <= b
                if op == "==":
                    return a == b
                if op == "!=":
                    return a != b
                if op == "in":
                    return a in b
                if op == "notin":
                    return a not in b
                if op == "is":
                    return a is b
                if op == "isnot":
                    return a is not b
            except TypeError:
                raise Crash("TypeError", show(t))
            raise EvalUnsupported("comparison %s" % op)
        if h == "not":
            return not self.truth(t[1], loc)
        if h == "and":
            for x in t[1]:
                if not self.truth(x, loc):
                    return False
            return True
        if h == "or":
            for x in t[1]:
                if self.truth(x, loc):
                    return True
            return False
        if h == "truthy":
            return bool(self.ev(t[1], loc))
        if h == "ite":
            return self.ev(t[2], loc) if self.truth(t[1], loc) else self.ev(t[3], loc)
        if h == "boolval":
            vals = t[2]
            r = None
            for x in vals:
                r = self.ev(x, loc)
                if (t[1] == "and" and not r) or (t[1] == "or" and r):
                    return r
            return r
        if h == "call":
            return self.call(t, loc)
        if h == "compr":
            return self.compr(t[1], loc)
        if h == "res":
            if t in loc:
                return loc[t]
            if t[1] in self.sx.loops and self.sx.loops[t[1]].kind == "for":
                r = self._loop(self.sx.loops[t[1]], loc)      # evaluate the (nested) loop on demand
                if r:
                    raise Crash(r[1], "raise inside a loop")
                if t in loc:
                    return loc[t]
            raise EvalUnsupported("loop result %s used outside an evaluated loop" % show(t))
        if h == "dict":
            return {self.ev(k, loc): self.ev(v, loc) for k, v in t[1]}
        if h == "setitem":
            base = self.ev(t[1], loc)
            k_, v_ = self.ev(t[2], loc), self.ev(t[3], loc)
            try:
                new = dict(base) if isinstance(base, dict) else list(base)
                new[k_] = v_
                return new
            except (TypeError, IndexError, KeyError) as e:
                raise Crash(type(e).__name__, show(t))
        if h == "raised":
            # did the guarded call of try statement t[1] raise something its handler catches?
            info = getattr(self.sx, "tries", {}).get(t[1])
            if info is None or info.get("call_term") is None:
                raise EvalUnsupported("outcome of the guarded call of a try statement")
            caught = [x.strip() for x in (info["type"] or "BaseException").strip("()").split(",")]
            try:
                self.ev(info["call_term"], loc)
            except Crash as c:
                if c.kind in caught or "Exception" in caught or "BaseException" in caught:
                    return True
                raise
            return False
        if h == "repeat":
            a_, n_ = self.ev(t[1], loc), self.ev(t[2], loc)
            try:
                return a_ * n_
            except TypeError:
                raise Crash("TypeError", show(t))
        if h == "cat":
            a_, b_ = self.ev(t[1], loc), self.ev(t[2], loc)
            try:
                return list(a_) + list(b_)
            except TypeError:
                raise Crash("TypeError", show(t))
        if h == "mcall":
            recv = self.ev(t[1], loc)
            args = [self.ev(a, loc) for a in t[3]]
            m = t[2]
            try:
                if isinstance(recv, dict) and m in ("items", "keys", "values", "get"):
                    r_ = getattr(recv, m)(*args)
                    return list(r_) if m != "get" else r_
                if isinstance(recv, (list, tuple)) and m in ("index", "count"):
                    return getattr(recv, m)(*args)
            except (TypeError, ValueError, KeyError) as e:
                raise Crash(type(e).__name__, show(t))
            raise EvalUnsupported("method call %s" % show(t)[:60])
        if h == "fstr" or h == "strcat":
            return "<text>"
        raise EvalUnsupported("term %s" % show(t))

    def truth(self, t, loc):
        return bool(self.ev(t, loc))

    def apply(self, fref, args, kws):
        """Value returned by a (small, loop-free) helper function of the same module on witness arguments."""
        from .symx import SymX
        key = fref.func.qual
        if key not in _SUMMARIES:
            _SUMMARIES[key] = SymX(self.sx.ctx, fref.func).run()
        sub = _SUMMARIES[key]
        env = {}
        params = list(fref.func.params)
        for p_, v in zip(params, args):
            env[("v", p_)] = v
        for k, v in kws.items():
            env[("v", k)] = v
        ev2 = Evaluator(sub, env)
        out = ev2.run()
        if out[0] == "raise":
            raise Crash(out[1], "raised inside %s" % fref.func.name)
        if out[0] == "crash":
            raise Crash(out[1], out[2])
        return ev2.ev(sub.ret, {})

    def call(self, t, loc):
        name, args, kws = t[1], t[2], t[3]
        if name == "isinstance":
            v = self.ev(args[0], loc)
            ty = self.ev(args[1], loc)
            return isinstance(v, ty)
        if name in ("ValueError", "TypeError", "KeyError", "Exception", "IndexError", "AssertionError", "RuntimeError"):
            return ("exc", name)
        vals = [self.ev(a, loc) for a in args]
        try:
            if name == "next" and 1 <= len(vals) <= 2:
                # the evaluator materialises generators as lists: next() of one is its first element (or the default)
                it_ = iter(vals[0])
                try:
                    return next(it_)
                except StopIteration:
                    if len(vals) == 2:
                        return vals[1]
                    raise Crash("StopIteration", show(t))
            if name == "len":
                return len(vals[0])
            if name == "min":
                return min(*vals) if len(vals) > 1 else min(vals[0])
            if name == "max":
                return max(*vals) if len(vals) > 1 else max(vals[0])
            if name == "any":
                return any(vals[0])
            if name == "all":
                return all(vals[0])
            if name == "abs":
                return abs(vals[0])
            if name == "sum":
                return sum(vals[0])
            if name == "range":
                return range(*vals)
            if name == "set":
                return set(*vals)
            if name == "list":
                return list(*vals)
            if name == "type":
                return type(vals[0])
            if name == "int":
                return int(vals[0])
            if name == "float":
                return float(vals[0])
            if name in ("math.isclose", "isclose"):
                import math as _math
                return _math.isclose(*vals, **{k: self.ev(v, loc) for k, v in kws})
            if name in ("math.floor", "math.ceil", "math.fsum", "math.isnan", "math.isinf", "math.isfinite"):
                import math as _math
                return getattr(_math, name.split(".")[1])(*vals)
            if name in ("round", "sorted", "tuple", "frozenset", "str", "bool", "dict", "enumerate", "zip", "reversed"):
                kwv = {k: self.ev(v, loc) for k, v in kws if isinstance(k, str)} if name in ("dict", "sorted", "round") else {}
                if name != "dict" and kwv and not (name == "sorted" and set(kwv) <= {"reverse"}):
                    raise EvalUnsupported("call %s with keywords" % name)
                if any(k is None or not isinstance(k, str) for k, _ in kws):
                    raise EvalUnsupported("call %s with ** arguments" % name)
                r_ = {"round": round, "sorted": sorted, "tuple": tuple, "frozenset": frozenset, "str": str, "bool": bool, "dict": dict,
                      "enumerate": enumerate, "zip": zip, "reversed": reversed}[name](*vals, **kwv)
                return list(r_) if name in ("enumerate", "zip", "reversed") else r_
        except TypeError:
            raise Crash("TypeError", show(t))
        except ValueError:
            raise Crash("ValueError", show(t))   # e.g. min([]) - the real code raises ValueError itself
        raise EvalUnsupported("call %s" % name)

    def compr(self, lid, loc):
        L = self.sx.loops[lid]
        src = self.ev(L.source, loc)
        out = []
        try:
            it = list(enumerate(src))
        except TypeError:
            raise Crash("TypeError", "iteration over %s" % show(L.source))
        for pos, e in it:
            l2 = dict(loc)
            l2[("elem", lid)] = e
            l2[("pos", lid)] = pos
            if all(self.truth(c, l2) for c in L.filters):
                out.append(self.ev(L.elt, l2))
        return out

    # ---- effects --------------------------------------------------------------------------
    def run(self, effects=None, loc=None):
        """Outcome of the function on the witness input: ('raise', class) | ('crash', kind, where) | ('accept',)."""
        try:
            r = self._effects(self.sx.final.effects if effects is None else effects, dict(loc or {}))
            return r or ("accept",)
        except Crash as c:
            if c.kind == "ValueError":
                return ("raise", "ValueError", "implicit: " + c.where)
            return ("crash", c.kind, c.where)

    def _effects(self, effects, loc):
        for e in effects:
            kind = e[1]
            if kind == "raise":
                if self.truth(e[0], loc):
                    exc = e[2]
                    name = exc[1] if exc[0] == "call" else (exc[1] if exc[0] == "v" else "?")
                    if name != "ValueError" and self.sx.ctx.prog.exc_is_a(name, "ValueError"):
                        name = "ValueError"         # a ValueError of the repository's own (class MalformedGame(ValueError))
                    return ("raise", name, None)
            elif kind == "loop":
                if not self.truth(e[0], loc):
                    continue
                r = self._loop(self.sx.loops[e[2]], loc)
                if r:
                    return r
            elif kind == "call":
                t = e[2]
                own = (t[0] == "mcall" and t[1] == ("v", "self")) or t[0] == "apply" or \
                    (t[0] == "call" and t[1] in self.sx.func.mod.funcs)
                if own and self.truth(e[0], loc):
                    # a helper of the repository that was not inlined may raise: the outcome of this witness is unknown
                    raise EvalUnsupported("call of `%s` was not resolved (helper nesting deeper than the inlining bound)" % show(t)[:80])
            elif kind in ("store", "setitem"):
                continue
        return None

    def _loop(self, L, loc):
        if L.kind != "for":
            raise EvalUnsupported("while loop in a validation function")
        src = self.ev(L.source, loc)
        try:
            items = list(enumerate(src))
        except TypeError:
            raise Crash("TypeError", "iteration over %s" % show(L.source))
        cur = {}
        last = None
        for v, init in L.init.items():
            try:
                cur[v] = self.ev(init, loc) if init != UNBOUND else UNBOUND
            except EvalUnsupported:
                cur[v] = None
        for pos, e in items:
            l2 = dict(loc)
            l2[("elem", L.id)] = e
            l2[("pos", L.id)] = pos
            for v, val in cur.items():
                l2[("acc", L.id, v)] = val
            last = l2
            r = self._effects(L.effects, l2)
            if r:
                return r
            new = {}
            for v, u in L.update.items():
                try:
                    new[v] = self.ev(u, l2)
                except EvalUnsupported:
                    new[v] = None
                except Crash:
                    new[v] = None
            cur = new
        for v, val in cur.items():
            loc[("res", L.id, v)] = val
        loc[("res", L.id, "$returned")] = False     # no raise fired inside the loop
        loc[("res", L.id, "$ret")] = None
        # loop target variables keep their last value (unbound if the loop did not run)
        for n, term in L.tgt_terms.items():
            if last is not None:
                try:
                    loc[("res", L.id, n)] = self.ev(term, last)
                except (Crash, EvalUnsupported):
                    loc[("res", L.id, n)] = None
            else:
                loc[("res", L.id, n)] = UNBOUND
        return None
