"""Obligation bookkeeping, three-valued verdicts, evidence and replay files."""
import hashlib
import json
import os
import sys
import time

VERIF = os.path.dirname(os.path.dirname(os.path.abspath(__file__)))
EVIDENCE_DIR = os.path.join(VERIF, "evidence")
REPLAY_DIR = os.path.join(EVIDENCE_DIR, "replays")
KNOWN_FINDINGS = os.path.join(VERIF, "known_findings.txt")

OK, VIOLATION, UNDECIDED = "discharged", "violation", "undecided"


class Obligation:
    def __init__(self, rule, where, status, detail, expected=None, found=None, construct=None):
        self.rule = rule
        self.where = where
        self.status = status
        self.detail = detail
        self.expected = expected
        self.found = found
        # construct: stable key (rule + qualified function + abstract operation), no line numbers
        self.construct = construct or where.split(" ", 1)[-1] if where else ""

    def as_dict(self):
        d = {"rule": self.rule, "where": self.where, "status": self.status, "detail": self.detail}
        if self.expected is not None:
            d["expected"] = self.expected
        if self.found is not None:
            d["found"] = self.found
        return d


def load_known_findings():
    """Open findings only ('finding:' lines).  'fixed:' lines suppress nothing."""
    out = []
    if os.path.exists(KNOWN_FINDINGS):
        for line in open(KNOWN_FINDINGS):
            line = line.strip()
            if line.startswith("finding:"):
                # finding: property=C03 rule=C03.1 construct=<text> :: description
                body = line[len("finding:"):].strip()
                head, _, desc = body.partition("::")
                kv = {}
                for tok in head.split():
                    if "=" in tok:
                        k, v = tok.split("=", 1)
                        kv[k] = v
                kv["desc"] = desc.strip()
                out.append(kv)
    return out


class Check:
    """One run of one property's rules."""

    def __init__(self, pid, tier="quick", seed=0, program=None, quiet=False):
        self.pid = pid
        self.tier = tier
        self.seed = seed
        self.program = program
        self.obls = []
        self.notes = []
        self.t0 = time.time()
        self.quiet = quiet
        self.extra = {}
        self.min_instances = {}     # rule -> minimum instance count (vacuity guard)
        self.canaries = []

    # -- recording ------------------------------------------------------------
    def ok(self, rule, where, detail="", expected=None, found=None):
        self.obls.append(Obligation(rule, where, OK, detail, expected, found))

    def violation(self, rule, where, detail, expected=None, found=None, construct=None):
        self.obls.append(Obligation(rule, where, VIOLATION, detail, expected, found, construct))

    def undecided(self, rule, where, detail):
        self.obls.append(Obligation(rule, where, UNDECIDED, detail))

    def note(self, text):
        self.notes.append(text)

    def require_instances(self, rule, minimum):
        self.min_instances[rule] = minimum

    def canary(self, name, fired, detail=""):
        self.canaries.append({"canary": name, "fired": bool(fired), "detail": detail})
        if not fired:
            self.undecided("canary", name, "canary not flagged: the rule would pass vacuously (%s)" % detail)

    def count(self, rule_prefix, status=None):
        return sum(1 for o in self.obls if o.rule.startswith(rule_prefix) and (status is None or o.status == status))

    # -- finishing ------------------------------------------------------------
    def finish(self, explanation, assumptions=None, technique=None):
        # vacuity guard
        for rule, minimum in self.min_instances.items():
            n = sum(1 for o in self.obls if o.rule == rule or o.rule.startswith(rule + "."))
            if n < minimum:
                self.undecided(rule, "-", "vacuity guard: %d instance(s) evaluated, %d confirmed by hand on the reference tree" % (n, minimum))
        known = load_known_findings()
        viols = [o for o in self.obls if o.status == VIOLATION]
        undec = [o for o in self.obls if o.status == UNDECIDED]
        oks = [o for o in self.obls if o.status == OK]
        reported, known_hit = [], []
        for o in viols:
            hit = None
            for k in known:
                if k.get("property") == self.pid and k.get("rule") == o.rule and k.get("construct", "") in (o.construct or ""):
                    hit = k
            if hit:
                known_hit.append((o, hit))
            else:
                reported.append(o)
        out = sys.stdout
        if not self.quiet:
            print("== %s tier=%s: %d obligations, %d discharged, %d violation(s), %d undecided" % (
                self.pid, self.tier, len(self.obls), len(oks), len(viols), len(undec)), file=out)
            for o in oks:
                print("  ok        %-8s %s :: %s" % (o.rule, o.where, o.detail), file=out)
        for o, k in known_hit:
            print("KNOWN-FINDING: property=%s %s %s" % (self.pid, o.rule, k.get("desc") or o.detail), file=out)
        replay_paths = []
        for o in reported:
            path = self._write_replay(o)
            replay_paths.append(path)
            print("  VIOLATED  %-8s %s :: %s" % (o.rule, o.where, o.detail), file=out)
            if o.expected is not None:
                print("            expected: %s" % (o.expected,), file=out)
            if o.found is not None:
                print("            found:    %s" % (o.found,), file=out)
            print("VIOLATION property=%s replay=%s" % (self.pid, path), file=out)
        for o in undec:
            print("  UNDECIDED %-8s %s :: %s" % (o.rule, o.where, o.detail), file=out)
        if reported:
            code = 1
        elif undec:
            code = 2
            print("ANALYSIS-ERROR property=%s %d obligation(s) could not be decided" % (self.pid, len(undec)), file=out)
        else:
            code = 0
        self._write_evidence(explanation, assumptions or [], technique, len(reported), code)
        out.flush()
        return code

    def _write_replay(self, o):
        os.makedirs(REPLAY_DIR, exist_ok=True)
        key = hashlib.sha256(("%s|%s|%s" % (self.pid, o.rule, o.construct)).encode()).hexdigest()[:12]
        path = os.path.join(REPLAY_DIR, "%s-%s.json" % (self.pid, key))
        with open(path, "w") as f:
            json.dump({"property": self.pid, "rule": o.rule, "where": o.where, "construct": o.construct,
                       "detail": o.detail, "expected": o.expected, "found": o.found,
                       "replay": "./check %s --replay %s" % (self.pid, path)}, f, indent=1, default=str)
        return path

    def _write_evidence(self, explanation, assumptions, technique, nviol, code):
        os.makedirs(EVIDENCE_DIR, exist_ok=True)
        oks = [o for o in self.obls if o.status == OK]
        distinct = len({(o.rule, o.where, o.detail) for o in self.obls})
        samples = [o.as_dict() for o in self.obls[:60]]
        if not samples:
            samples = [{"note": "no obligation could be generated"}]
        cov = {
            "explanation": explanation,
            "obligations": len(self.obls),
            "discharged": len(oks),
            "undecided": sum(1 for o in self.obls if o.status == UNDECIDED),
            "evaluations": max(1, len(self.obls)),
            "distinct_nontrivial": max(2, distinct) if distinct >= 2 else distinct,
            "rule": "one obligation per (rule, resolved construct) instance found in the current tree; distinct = distinct (rule, site, normal form) triples",
            "samples": samples,
            "checker_cmd": "/venv/bin/python check %s --tier %s" % (self.pid, self.tier),
            "trusted_base": ["CPython 3.12 ast module", "/verif/sa engines", "specification tables in /verif/sa/rules/%s.py" % self.pid],
            "exhaustive": False,
            "rules": sorted({o.rule for o in self.obls}),
            "canaries": self.canaries,
            "notes": self.notes,
            "exit_code": code,
        }
        if self.program is not None:
            cov["modules_sha256"] = self.program.digest()
        if technique:
            cov["technique"] = technique
        cov.update(self.extra)
        ev = {
            "property_id": self.pid,
            "tier": self.tier,
            "seed": int(self.seed),
            "level": "other",
            "coverage": cov,
            "assumptions": assumptions,
            "wall_s": round(time.time() - self.t0, 3),
            "violations": nviol,
        }
        with open(os.path.join(EVIDENCE_DIR, "%s.json" % self.pid), "w") as f:
            json.dump(ev, f, indent=1, default=str)
