"""E1 - loader, symbol tables, constant folding.

Parses the product modules of the repository (never imports or runs them) and
builds module / class / function tables.  Everything downstream is keyed by
qualified symbol ("tad.py::PlayerOne.prune_paths"), never by line number.
"""
import ast
import hashlib
import math
import os

REPO = os.environ.get("VERIF_REPO", "/repo")
MODULES = [
    "tad.py",
    "reverse_dfs.py",
    "conditionalrewards.py",
    "roberta_generator.py",
    "stochastic_game_from_roborta_board.py",
]


class AnalysisError(Exception):
    """The analysis cannot decide (anchor missing, unrecognised idiom...)."""


class NotConst(Exception):
    pass


def add_parents(tree):
    for node in ast.walk(tree):
        for child in ast.iter_child_nodes(node):
            child.parent = node
    tree.parent = None


def src(node):
    try:
        return ast.unparse(node)
    except Exception:  # pragma: no cover
        return "<%s>" % type(node).__name__


class Func:
    def __init__(self, mod, cls, node):
        self.mod = mod
        self.cls = cls
        self.node = node
        self.name = node.name
        self.qual = "%s::%s%s" % (mod.name, (cls.name + ".") if cls else "", node.name)
        a = node.args
        self.params = [x.arg for x in a.posonlyargs + a.args]
        self.kwonly = [x.arg for x in a.kwonlyargs]
        self.vararg = a.vararg.arg if a.vararg else None
        self.kwarg = a.kwarg.arg if a.kwarg else None
        nd = len(a.defaults)
        self.defaults = {}
        for p, d in zip(self.params[len(self.params) - nd:], a.defaults):
            self.defaults[p] = d
        for p, d in zip(a.kwonlyargs, a.kw_defaults):
            if d is not None:
                self.defaults[p.arg] = d

    @property
    def short(self):
        return (self.cls.name + "." if self.cls else "") + self.name

    def where(self, node=None):
        n = node if node is not None else self.node
        return "%s:%s %s" % (self.mod.name, getattr(n, "lineno", "?"), self.short)

    def __repr__(self):
        return "<Func %s>" % self.qual


class Cls:
    def __init__(self, mod, node):
        self.mod = mod
        self.node = node
        self.name = node.name
        self.bases = [b.id for b in node.bases if isinstance(b, ast.Name)]
        self.methods = {}

    def __repr__(self):
        return "<Cls %s>" % self.name


def canonicalise(tree):
    """Semantics-preserving rewrites applied to every module before any analysis, so that the rules see one spelling:
      * `xs += [e]`                      ->  `xs.append(e)`            (xs a plain name)
      * `t = <expr>` ; `if t:` / `if not t:` / `return t`  ->  the expression in place, when t is assigned once and read once,
        right after its assignment in the same block
      * `not (a in b)` -> `a not in b`, `not (a not in b)` -> `a in b`, `not (a == b)` -> `a != b`, `not (a != b)` -> `a == b`
    Positions are kept, so reports still point at the original lines."""
    for fn in [n for n in ast.walk(tree) if isinstance(n, (ast.FunctionDef, ast.AsyncFunctionDef))]:
        loads, stores = {}, {}
        for x in ast.walk(fn):
            if isinstance(x, ast.Name):
                (stores if isinstance(x.ctx, ast.Store) else loads).setdefault(x.id, []).append(x)
        for owner in [n for n in ast.walk(fn)]:
            for blk in ("body", "orelse", "finalbody"):
                seq = getattr(owner, blk, None)
                if not isinstance(seq, list) or not seq or not isinstance(seq[0], ast.stmt):
                    continue
                i = 0
                while i < len(seq):
                    st = seq[i]
                    if isinstance(st, ast.AugAssign) and isinstance(st.op, ast.Add) and isinstance(st.target, ast.Name) and isinstance(st.value, ast.List) \
                            and len(st.value.elts) == 1 and not isinstance(st.value.elts[0], ast.Starred):
                        call = ast.Call(func=ast.Attribute(value=ast.Name(id=st.target.id, ctx=ast.Load()), attr="append", ctx=ast.Load()), args=[st.value.elts[0]], keywords=[])
                        new = ast.Expr(value=call)
                        for x in (new, call, call.func, call.func.value):
                            ast.copy_location(x, st)
                        seq[i] = new
                    if i + 1 < len(seq) and isinstance(st, ast.Assign) and len(st.targets) == 1 and isinstance(st.targets[0], ast.Name) \
                            and len(stores.get(st.targets[0].id, [])) == 1 and len(loads.get(st.targets[0].id, [])) == 1:
                        t = st.targets[0].id
                        use = loads[t][0]
                        nxt = seq[i + 1]
                        done = False
                        if isinstance(nxt, ast.If):
                            if nxt.test is use:
                                nxt.test, done = st.value, True
                            elif isinstance(nxt.test, ast.UnaryOp) and isinstance(nxt.test.op, ast.Not) and nxt.test.operand is use:
                                nxt.test.operand, done = st.value, True
                        elif isinstance(nxt, ast.Return) and nxt.value is use:
                            nxt.value, done = st.value, True
                        if done:
                            del seq[i]
                            continue
                    i += 1
    class _Neg(ast.NodeTransformer):
        def visit_UnaryOp(self, node):
            self.generic_visit(node)
            if isinstance(node.op, ast.Not) and isinstance(node.operand, ast.Compare) and len(node.operand.ops) == 1:
                flip = {ast.In: ast.NotIn, ast.NotIn: ast.In, ast.Eq: ast.NotEq, ast.NotEq: ast.Eq, ast.Is: ast.IsNot, ast.IsNot: ast.Is}
                op = node.operand.ops[0]
                if type(op) in flip:
                    new = ast.Compare(left=node.operand.left, ops=[flip[type(op)]()], comparators=node.operand.comparators)
                    return ast.copy_location(new, node)
            return node
    _Neg().visit(tree)
    ast.fix_missing_locations(tree)


class Mod:
    def __init__(self, name, path):
        self.name = name
        self.path = path
        with open(path, "rb") as f:
            raw = f.read()
        self.sha256 = hashlib.sha256(raw).hexdigest()
        self.text = raw.decode("utf-8")
        self.tree = ast.parse(self.text, filename=path)
        canonicalise(self.tree)
        add_parents(self.tree)
        self.funcs = {}
        self.classes = {}
        self.consts = {}      # name -> ast expr of module-level simple assignments
        self.imports = {}     # local name -> (module file, attr or None)
        self._index()

    def _index(self):
        for st in self.tree.body:
            if isinstance(st, ast.FunctionDef):
                self.funcs[st.name] = Func(self, None, st)
            elif isinstance(st, ast.ClassDef):
                c = Cls(self, st)
                self.classes[st.name] = c
                for s2 in st.body:
                    if isinstance(s2, ast.FunctionDef):
                        c.methods[s2.name] = Func(self, c, s2)
                    elif isinstance(s2, ast.Assign) and len(s2.targets) == 1 and isinstance(s2.targets[0], ast.Name) and isinstance(s2.value, ast.Name) \
                            and s2.value.id in c.methods:
                        c.methods[s2.targets[0].id] = c.methods[s2.value.id]        # `strategy = get_best_strategies`: a second name of the method
            elif isinstance(st, ast.Assign) and len(st.targets) == 1 and isinstance(st.targets[0], ast.Name):
                self.consts[st.targets[0].id] = st.value
            elif isinstance(st, ast.AnnAssign) and isinstance(st.target, ast.Name) and st.value is not None:
                self.consts[st.target.id] = st.value          # PLAYER_1: str = "Player 1"
            elif isinstance(st, ast.Assign) and len(st.targets) == 1 and isinstance(st.targets[0], (ast.Tuple, ast.List)) and isinstance(st.value, (ast.Tuple, ast.List)) \
                    and len(st.targets[0].elts) == len(st.value.elts) and all(isinstance(t, ast.Name) for t in st.targets[0].elts) \
                    and not any(isinstance(v, ast.Starred) for v in st.value.elts):
                for t, v in zip(st.targets[0].elts, st.value.elts):          # LEFT, BOTH, RIGHT, DOWN = 0, 1, 2, 3
                    self.consts[t.id] = v
            elif isinstance(st, ast.Assign) and len(st.targets) == 1 and isinstance(st.targets[0], (ast.Tuple, ast.List)) and all(isinstance(t, ast.Name) for t in st.targets[0].elts) \
                    and isinstance(st.value, ast.Call) and isinstance(st.value.func, ast.Name) and st.value.func.id == "range":
                for i, t in enumerate(st.targets[0].elts):                    # LEFT, BOTH, RIGHT, DOWN = range(4)
                    self.consts[t.id] = ast.copy_location(ast.Subscript(value=st.value, slice=ast.Constant(value=i), ctx=ast.Load()), st)
            elif isinstance(st, ast.Assign):
                # a = b = 0 chains
                for t in st.targets:
                    if isinstance(t, ast.Name):
                        self.consts[t.id] = st.value
            elif isinstance(st, ast.ImportFrom):
                for al in st.names:
                    self.imports[al.asname or al.name] = (st.module + ".py", al.name)
            elif isinstance(st, ast.Import):
                for al in st.names:
                    self.imports[al.asname or al.name] = (al.name, None)


def _desugar_properties(mods):
    """A field that became a property with a backing field:
            @property
            def p(self): return self._p
            @p.setter
            def p(self, v): self._p = E(v)          (one assignment)
    is a plain field whose every store goes through E: `x.p = e` becomes `x.p = E(e)`, `_p` becomes `p`, the two definitions go.
    Done only when that is exact: trivial getter, one-assignment setter, no deleter, no augmented assignment to the field, and
    the name `p` stored as an attribute only on objects of that class family (through `self` inside the family)."""
    import copy as _copy
    classes = {}
    for m in mods.values():
        for st in m.tree.body:
            if isinstance(st, ast.ClassDef):
                classes[st.name] = (m, st)

    def family(name):
        out = {name}
        changed = True
        while changed:
            changed = False
            for n, (_, c) in classes.items():
                bs = {b.id for b in c.bases if isinstance(b, ast.Name)}
                if n not in out and bs & out:
                    out.add(n)
                    changed = True
                if n in out:
                    for b in bs:
                        if b in classes and b not in out:
                            out.add(b)
                            changed = True
        return out
    done = False
    for cname, (m, c) in list(classes.items()):
        getters = {s2.name: s2 for s2 in c.body if isinstance(s2, ast.FunctionDef) and any(isinstance(d, ast.Name) and d.id == "property" for d in s2.decorator_list)}
        for pname, g in getters.items():
            setters = [s2 for s2 in c.body if isinstance(s2, ast.FunctionDef) and s2.name == pname and any(
                isinstance(d, ast.Attribute) and d.attr == "setter" and isinstance(d.value, ast.Name) and d.value.id == pname for d in s2.decorator_list)]
            others = [s2 for s2 in c.body if isinstance(s2, ast.FunctionDef) and s2.name == pname and s2 is not g and s2 not in setters]
            if len(setters) != 1 or others:
                continue
            gb = [b for b in g.body if not (isinstance(b, ast.Expr) and isinstance(b.value, ast.Constant))]
            if not (len(gb) == 1 and isinstance(gb[0], ast.Return) and isinstance(gb[0].value, ast.Attribute) and isinstance(gb[0].value.value, ast.Name)
                    and gb[0].value.value.id == g.args.args[0].arg):
                continue
            back = gb[0].value.attr
            st_ = setters[0]
            sb = [b for b in st_.body if not (isinstance(b, ast.Expr) and isinstance(b.value, ast.Constant))]
            if len(st_.args.args) != 2:
                continue
            me, v = st_.args.args[0].arg, st_.args.args[1].arg
            # local aliases in front of the assignment (`as_named = self.transition_type`) are written into it
            aliases = {}
            while len(sb) > 1 and isinstance(sb[0], ast.Assign) and len(sb[0].targets) == 1 and isinstance(sb[0].targets[0], ast.Name) \
                    and isinstance(sb[0].value, (ast.Attribute, ast.Name, ast.Constant)) and sb[0].targets[0].id not in (me, v) \
                    and not any(isinstance(n, ast.Name) and n.id == sb[0].targets[0].id and isinstance(n.ctx, ast.Store) for b in sb[1:] for n in ast.walk(b)):
                aliases[sb[0].targets[0].id] = sb[0].value
                sb = sb[1:]
            if not (len(sb) == 1 and isinstance(sb[0], ast.Assign) and len(sb[0].targets) == 1 and isinstance(sb[0].targets[0], ast.Attribute)
                    and isinstance(sb[0].targets[0].value, ast.Name) and sb[0].targets[0].value.id == me and sb[0].targets[0].attr == back):
                continue
            E = sb[0].value
            if aliases:
                class AL(ast.NodeTransformer):
                    def visit_Name(self, x):
                        return _copy.deepcopy(aliases[x.id]) if (isinstance(x.ctx, ast.Load) and x.id in aliases) else x
                E = AL().visit(_copy.deepcopy(E))
            uses_me = any(isinstance(n, ast.Name) and n.id == me for n in ast.walk(E))
            if any(isinstance(n, (ast.Lambda, ast.Yield, ast.Await, ast.NamedExpr)) for n in ast.walk(E)):
                continue
            fam = family(cname)
            ok = True
            for m2 in mods.values():
                for cls2 in [None] + [x for x in m2.tree.body if isinstance(x, ast.ClassDef)]:
                    scope = cls2 if cls2 is not None else m2.tree
                    for n in ast.walk(scope):
                        if isinstance(n, ast.AugAssign) and isinstance(n.target, ast.Attribute) and n.target.attr in (pname, back):
                            ok = False
                        if isinstance(n, ast.Attribute) and n.attr == pname and isinstance(n.ctx, (ast.Store, ast.Del)):
                            if isinstance(n.ctx, ast.Del):
                                ok = False
                            if cls2 is not None and cls2.name not in fam and isinstance(n.value, ast.Name) and n.value.id == "self":
                                ok = False                # another class has a field of that name
                        if cls2 is not None and isinstance(n, ast.FunctionDef) and n.name in (pname, back) and cls2.name != cname:
                            ok = False
            # the backing field is not a name of its own anywhere else
            if any(isinstance(n, ast.Attribute) and n.attr == back and not (isinstance(n.value, ast.Name)) for m2 in mods.values() for n in ast.walk(m2.tree)):
                ok = False
            if not ok:
                continue

            class R(ast.NodeTransformer):
                def visit_Assign(self, n):
                    through_setter = len(n.targets) == 1 and isinstance(n.targets[0], ast.Attribute) and n.targets[0].attr == pname
                    self.generic_visit(n)
                    if through_setter and uses_me and not isinstance(n.targets[0].value, ast.Name):
                        return n
                    if through_setter:
                        val = n.value
                        recv = n.targets[0].value

                        class S(ast.NodeTransformer):
                            def visit_Name(self, x):
                                if x.id == me and isinstance(x.ctx, ast.Load):
                                    return ast.copy_location(ast.Name(id=recv.id, ctx=ast.Load()), x)
                                return val if (x.id == v and isinstance(x.ctx, ast.Load)) else x
                        uses = [x for x in ast.walk(E) if isinstance(x, ast.Name) and x.id == v and isinstance(x.ctx, ast.Load)]
                        if len(uses) == 1 or isinstance(val, (ast.Name, ast.Constant)) or (isinstance(val, ast.Attribute) and isinstance(val.value, ast.Name)):
                            n.value = ast.copy_location(S().visit(_copy.deepcopy(E)), n.value)
                            for x in ast.walk(n.value):
                                if not hasattr(x, "lineno"):
                                    ast.copy_location(x, n)
                    return n

                def visit_Attribute(self, n):
                    self.generic_visit(n)
                    if n.attr == back:
                        n.attr = pname
                    return n
            for m2 in mods.values():
                R().visit(m2.tree)
            c.body = [s2 for s2 in c.body if s2 is not g and s2 is not st_]
            done = True
    # a read-only property that is one expression of the object's fields (`is_dead = reach_probability == 0`) is that expression
    # wherever it is read - when the name is nobody's attribute or method otherwise and the receiver is a plain name / field path
    stored = set()
    meths = {}
    for m in mods.values():
        for n in ast.walk(m.tree):
            if isinstance(n, ast.Attribute) and isinstance(n.ctx, (ast.Store, ast.Del)):
                stored.add(n.attr)
            if isinstance(n, ast.ClassDef):
                for s2 in n.body:
                    if isinstance(s2, ast.FunctionDef):
                        meths.setdefault(s2.name, []).append((n, s2))
    ro = {}
    for name, defs in meths.items():
        if len(defs) != 1 or name in stored:
            continue
        cdef, fn = defs[0]
        is_prop = len(fn.decorator_list) == 1 and isinstance(fn.decorator_list[0], ast.Name) and fn.decorator_list[0].id == "property"
        # ... and so is a method without arguments that is one expression of the fields (`can_reach_final()` = `reach_probability != 0`)
        is_pred = not fn.decorator_list and not name.startswith("__") and not fn.args.vararg and not fn.args.kwarg and not fn.args.kwonlyargs
        if not (is_prop or is_pred):
            continue
        body = [b for b in fn.body if not (isinstance(b, ast.Expr) and isinstance(b.value, ast.Constant))]
        if len(body) != 1 or not isinstance(body[0], ast.Return) or body[0].value is None or len(fn.args.args) != 1:
            continue
        me = fn.args.args[0].arg
        e = body[0].value
        if any(isinstance(x, (ast.Call, ast.Lambda, ast.ListComp, ast.GeneratorExp, ast.SetComp, ast.DictComp, ast.Yield, ast.Await, ast.NamedExpr)) for x in ast.walk(e)):
            continue
        names = {x.id for x in ast.walk(e) if isinstance(x, ast.Name)}
        if not names <= {me} | {k for mm in mods.values() for k in mm.consts} | {"True", "False", "None"}:
            continue
        if not all(isinstance(getattr(x, "parent", None), ast.Attribute) or True for x in ast.walk(e)):
            continue
        if not is_prop and not any(isinstance(x, ast.Attribute) and isinstance(x.value, ast.Name) and x.value.id == me for x in ast.walk(e)):
            continue                    # (a constant-returning stub is somebody's default implementation, not a predicate of the fields)
        ro[name] = (me, e, cdef, fn, is_prop)
    if ro:
        # a predicate method that is also referred to without being called (handed over as a value) stays a method
        called_only = {}
        for m in mods.values():
            for n in ast.walk(m.tree):
                if isinstance(n, ast.Attribute) and n.attr in ro and not ro[n.attr][4]:
                    par = getattr(n, "parent", None)
                    okc = isinstance(par, ast.Call) and par.func is n and not par.args and not par.keywords
                    called_only[n.attr] = called_only.get(n.attr, True) and okc
        for nm in [k for k, v in ro.items() if not v[4] and not called_only.get(k, False)]:
            del ro[nm]

        class RO(ast.NodeTransformer):
            def visit_Call(self, n):
                self.generic_visit(n)
                f_ = n.func
                if isinstance(f_, ast.Attribute) and f_.attr in ro and not ro[f_.attr][4] and not n.args and not n.keywords \
                        and isinstance(f_.value, (ast.Name, ast.Attribute, ast.Subscript)):
                    me, e = ro[f_.attr][0], ro[f_.attr][1]
                    recv = f_.value

                    class S2(ast.NodeTransformer):
                        def visit_Name(self, x):
                            return _copy.deepcopy(recv) if x.id == me else x
                    new = S2().visit(_copy.deepcopy(e))
                    for x in ast.walk(new):
                        ast.copy_location(x, n)
                    return new
                return n

            def visit_Attribute(self, n):
                self.generic_visit(n)
                if isinstance(n.ctx, ast.Load) and n.attr in ro and ro[n.attr][4] and (isinstance(n.value, ast.Name) or (isinstance(n.value, (ast.Attribute, ast.Subscript)))):
                    me, e = ro[n.attr][0], ro[n.attr][1]
                    recv = n.value

                    class S(ast.NodeTransformer):
                        def visit_Name(self, x):
                            return _copy.deepcopy(recv) if x.id == me else x
                    new = S().visit(_copy.deepcopy(e))
                    for x in ast.walk(new):
                        ast.copy_location(x, n)
                    return new
                return n
        for m in mods.values():
            RO().visit(m.tree)
        for name, (_, _, cdef, fn, _isp) in ro.items():
            cdef.body = [b for b in cdef.body if b is not fn] or [ast.Pass()]
        done = True
    if done:
        for m in mods.values():
            ast.fix_missing_locations(m.tree)
            add_parents(m.tree)
            m.funcs, m.classes, m.consts, m.imports = {}, {}, {}, {}
            m._index()


def _class_constants(mods):
    """A class-level constant (`PLAYERS_WITH_PRUNABLE_PATHS = (PLAYER_1, PROBABILISTIC)`, assigned once in the class body,
    an immutable expression of literals and module constants, never stored through an attribute anywhere) is its value
    wherever it is read through `self.`/`cls.`/the class name."""
    import copy as _copy
    stored = set()
    for m in mods.values():
        for n in ast.walk(m.tree):
            if isinstance(n, ast.Attribute) and isinstance(n.ctx, (ast.Store, ast.Del)):
                stored.add(n.attr)
            if isinstance(n, ast.Call) and isinstance(n.func, ast.Name) and n.func.id in ("setattr", "delattr") and len(n.args) >= 2:
                if isinstance(n.args[1], ast.Constant) and isinstance(n.args[1].value, str):
                    stored.add(n.args[1].value)
                # a computed name: the fields of the objects the program iterates (`for f in FIELDS: setattr(s, f, ..)`), never
                # the upper-case constants of a class - those are excluded below by their spelling
    dynamic_store = any(isinstance(n, ast.Call) and isinstance(n.func, ast.Name) and n.func.id in ("setattr", "delattr")
                        and not (len(n.args) >= 2 and isinstance(n.args[1], ast.Constant)) for m in mods.values() for n in ast.walk(m.tree))
    modnames = set()
    for m in mods.values():
        modnames |= set(m.consts)
    classnames = {c for m in mods.values() for c in m.classes}

    def immutable(e):
        if isinstance(e, ast.Constant):
            return True
        if isinstance(e, ast.Name):
            return e.id in modnames and e.id not in classnames
        if isinstance(e, ast.Tuple):
            return all(immutable(x) for x in e.elts)
        if isinstance(e, ast.UnaryOp):
            return immutable(e.operand)
        if isinstance(e, ast.BinOp):
            return immutable(e.left) and immutable(e.right)
        return False
    table = {}
    dup = set()
    for m in mods.values():
        for c in ast.walk(m.tree):
            if not isinstance(c, ast.ClassDef):
                continue
            for st in c.body:
                tgt = None
                if isinstance(st, ast.Assign) and len(st.targets) == 1 and isinstance(st.targets[0], ast.Name):
                    tgt, val = st.targets[0].id, st.value
                elif isinstance(st, ast.AnnAssign) and isinstance(st.target, ast.Name) and st.value is not None:
                    tgt, val = st.target.id, st.value
                if tgt is None:
                    continue
                if tgt in table:
                    dup.add(tgt)
                if immutable(val) and tgt not in stored and (tgt.isupper() or not dynamic_store):
                    table[tgt] = (c, st, val)
                else:
                    dup.add(tgt)
    # a method or another binding of the same name anywhere makes the name ambiguous
    for m in mods.values():
        for n in ast.walk(m.tree):
            if isinstance(n, (ast.FunctionDef, ast.ClassDef)) and n.name in table:
                dup.add(n.name)
    table = {k: v for k, v in table.items() if k not in dup}
    if not table:
        return

    class T(ast.NodeTransformer):
        def visit_Attribute(self, n):
            self.generic_visit(n)
            if isinstance(n.ctx, ast.Load) and n.attr in table and isinstance(n.value, ast.Name):
                c = table[n.attr][0]
                if n.value.id in ("self", "cls", c.name) or n.value.id in classnames:
                    new = _copy.deepcopy(table[n.attr][2])
                    for x in ast.walk(new):
                        ast.copy_location(x, n)
                    return new
            return n
    for m in mods.values():
        T().visit(m.tree)
        ast.fix_missing_locations(m.tree)
        add_parents(m.tree)
        m.funcs, m.classes, m.consts, m.imports = {}, {}, {}, {}
        m._index()


def _unroll_field_loops(mods):
    """Field names iterated as data: `[getattr(s, f) for f in ("a", "b")]`, `for f, v in zip(("a", "b"), vals): setattr(s, f, v)`.
    A loop / comprehension over a constant tuple of identifiers whose variable is used as the name argument of getattr / setattr
    is written out, and getattr / setattr with a literal name become plain field accesses."""
    import copy as _copy

    def const_names(m, e):
        if isinstance(e, ast.Name) and e.id in m.consts:
            e = m.consts[e.id]
        if isinstance(e, (ast.Tuple, ast.List)) and e.elts and len(e.elts) <= 8 and all(
                isinstance(x, ast.Constant) and isinstance(x.value, str) and x.value.isidentifier() for x in e.elts):
            return [x.value for x in e.elts]
        return None

    def uses_as_field(node, var):
        for n in ast.walk(node):
            if isinstance(n, ast.Call) and isinstance(n.func, ast.Name) and n.func.id in ("getattr", "setattr") and len(n.args) >= 2 \
                    and isinstance(n.args[1], ast.Name) and n.args[1].id == var:
                return True
        return False

    def subst(node, mapping):
        class S(ast.NodeTransformer):
            def visit_Name(self, n):
                if isinstance(n.ctx, ast.Load) and n.id in mapping:
                    return ast.copy_location(_copy.deepcopy(mapping[n.id]), n)
                return n
        return S().visit(_copy.deepcopy(node))

    def rebinds(node, names):
        return any(isinstance(n, ast.Name) and isinstance(n.ctx, ast.Store) and n.id in names for n in ast.walk(node))
    changed = False
    for m in mods.values():
        class T(ast.NodeTransformer):
            def visit_For(self, n):
                self.generic_visit(n)
                if n.orelse or any(isinstance(x, (ast.Break, ast.Continue)) for b in n.body for x in ast.walk(b)):
                    return n
                names, rows = None, None
                if isinstance(n.target, ast.Name):
                    names = const_names(m, n.iter)
                    if names and uses_as_field(n, n.target.id) and not any(rebinds(b, {n.target.id}) for b in n.body):
                        rows = [{n.target.id: ast.Constant(value=c)} for c in names]
                elif isinstance(n.target, ast.Tuple) and len(n.target.elts) == 2 and all(isinstance(e, ast.Name) for e in n.target.elts) \
                        and isinstance(n.iter, ast.Call) and isinstance(n.iter.func, ast.Name) and n.iter.func.id == "zip" and len(n.iter.args) == 2 and not n.iter.keywords:
                    a, b = n.iter.args
                    for pos, (ka, kb) in enumerate(((a, b), (b, a))):
                        names = const_names(m, ka)
                        fld = n.target.elts[pos].id
                        oth = n.target.elts[1 - pos].id
                        if names and uses_as_field(n, fld) and isinstance(kb, (ast.Name, ast.Tuple, ast.List)) \
                                and not any(rebinds(b_, {fld, oth}) for b_ in n.body):
                            if isinstance(kb, ast.Name):
                                vals = [ast.Subscript(value=ast.Name(id=kb.id, ctx=ast.Load()), slice=ast.Constant(value=i), ctx=ast.Load()) for i in range(len(names))]
                            elif len(kb.elts) == len(names) and not any(isinstance(e, ast.Starred) for e in kb.elts):
                                vals = list(kb.elts)
                            else:
                                continue
                            rows = [{fld: ast.Constant(value=c), oth: v} for c, v in zip(names, vals)]
                            break
                if not rows:
                    return n
                out = []
                for row in rows:
                    for b in n.body:
                        nb = subst(b, row)
                        for x in ast.walk(nb):
                            ast.copy_location(x, n) if not hasattr(x, "lineno") else None
                        out.append(nb)
                nonlocal changed
                changed = True
                return out

            def _compr(self, n):
                self.generic_visit(n)
                if len(n.generators) != 1:
                    return n
                g = n.generators[0]
                names = const_names(m, g.iter)
                if not (names and isinstance(g.target, ast.Name) and not g.ifs and uses_as_field(n.elt, g.target.id)):
                    return n
                elts = [subst(n.elt, {g.target.id: ast.Constant(value=c)}) for c in names]
                nonlocal changed
                changed = True
                new = (ast.List if isinstance(n, ast.ListComp) else ast.Tuple)(elts=elts, ctx=ast.Load())
                return ast.copy_location(new, n)

            def visit_ListComp(self, n):
                return self._compr(n)

            def visit_GeneratorExp(self, n):
                p = getattr(n, "parent", None)
                # only where a tuple is the same thing: unpacked, or handed to tuple()/list()
                if isinstance(p, ast.Assign) and p.value is n and isinstance(p.targets[0], (ast.Tuple, ast.List)):
                    return self._compr(n)
                if isinstance(p, ast.Call) and isinstance(p.func, ast.Name) and p.func.id in ("tuple", "list") and p.args == [n]:
                    return self._compr(n)
                self.generic_visit(n)
                return n

            def visit_Call(self, n):
                self.generic_visit(n)
                if isinstance(n.func, ast.Name) and n.func.id == "getattr" and len(n.args) == 2 and not n.keywords \
                        and isinstance(n.args[1], ast.Constant) and isinstance(n.args[1].value, str) and n.args[1].value.isidentifier():
                    nonlocal changed
                    changed = True
                    return ast.copy_location(ast.Attribute(value=n.args[0], attr=n.args[1].value, ctx=ast.Load()), n)
                if isinstance(n.func, ast.Name) and n.func.id in ("tuple", "list") and len(n.args) == 1 and isinstance(n.args[0], ast.Tuple) \
                        and getattr(n.args[0], "_from_gen", False):
                    return n
                return n

            def visit_Expr(self, n):
                self.generic_visit(n)
                c = n.value
                if isinstance(c, ast.Call) and isinstance(c.func, ast.Name) and c.func.id == "setattr" and len(c.args) == 3 and not c.keywords \
                        and isinstance(c.args[1], ast.Constant) and isinstance(c.args[1].value, str) and c.args[1].value.isidentifier():
                    nonlocal changed
                    changed = True
                    return ast.copy_location(ast.Assign(targets=[ast.Attribute(value=c.args[0], attr=c.args[1].value, ctx=ast.Store())], value=c.args[2]), n)
                return n
        if not any(isinstance(x, ast.Name) and x.id in ("getattr", "setattr") for x in ast.walk(m.tree)):
            continue
        if any(isinstance(x, ast.Name) and isinstance(x.ctx, ast.Store) and x.id in ("getattr", "setattr") for x in ast.walk(m.tree)):
            continue
        add_parents(m.tree)
        T().visit(m.tree)
    if changed:
        for m in mods.values():
            ast.fix_missing_locations(m.tree)
            add_parents(m.tree)
            m.funcs, m.classes, m.consts, m.imports = {}, {}, {}, {}
            m._index()


def _structural_tuples(mods):
    """Named tuples are tuples.  A maintainer who gives the transition pairs names (`class Move(NamedTuple): action; target`,
    `Branch = namedtuple("Branch", "probability target")`) changes how a pair is *spelled* - `t.target` for `t[1]`,
    `Move(a, t)` for `(a, t)` - not what it is: unpacking, indexing and equality with plain pairs keep working.  Every module is
    rewritten to the positional spelling the rules know:
        x.<field>                ->  x[<index>]        for a field name that has ONE index over all named-tuple types, is never
                                                        stored as an attribute (`o.f = ...`) and names no method / class attribute
        NT(a, b) / NT(f=a, g=b)  ->  (a, b)             (missing fields: their defaults; otherwise the call is left alone)
        NT(*p) / NT._make(p)     ->  p
    Methods defined on a named-tuple class stay methods (`self.f` inside them is rewritten like any other read)."""
    import copy as _copy
    nts = {}          # class name -> (fields, defaults)
    def _nt_call(e):
        if not (isinstance(e, ast.Call) and len(e.args) >= 2):
            return None
        fn = e.func
        nm = fn.id if isinstance(fn, ast.Name) else (fn.attr if isinstance(fn, ast.Attribute) else None)
        if nm != "namedtuple":
            return None
        spec = e.args[1]
        if isinstance(spec, ast.Constant) and isinstance(spec.value, str):
            return spec.value.replace(",", " ").split()
        if isinstance(spec, (ast.List, ast.Tuple)) and all(isinstance(x, ast.Constant) and isinstance(x.value, str) for x in spec.elts):
            return [x.value for x in spec.elts]
        return None
    for m in mods.values():
        for st in m.tree.body:
            # class Result(namedtuple("Result", [...])): methods on top of the tuple (no __new__ / __init__ of its own)
            if isinstance(st, ast.ClassDef) and len(st.bases) == 1 and _nt_call(st.bases[0]) \
                    and not any(isinstance(s2, ast.FunctionDef) and s2.name in ("__new__", "__init__", "__getitem__", "__iter__", "__eq__", "__len__") for s2 in st.body):
                nts[st.name] = (_nt_call(st.bases[0]), {})
                continue
            if isinstance(st, ast.ClassDef) and any((isinstance(b, ast.Name) and b.id == "NamedTuple") or (isinstance(b, ast.Attribute) and b.attr == "NamedTuple") for b in st.bases):
                fields, defaults = [], {}
                for s2 in st.body:
                    if isinstance(s2, ast.AnnAssign) and isinstance(s2.target, ast.Name):
                        fields.append(s2.target.id)
                        if s2.value is not None:
                            defaults[s2.target.id] = s2.value
                if fields:
                    nts[st.name] = (fields, defaults)
            elif isinstance(st, ast.Assign) and len(st.targets) == 1 and isinstance(st.targets[0], ast.Name) and isinstance(st.value, ast.Call):
                fn = st.value.func
                nm = fn.id if isinstance(fn, ast.Name) else (fn.attr if isinstance(fn, ast.Attribute) else None)
                if nm == "namedtuple" and len(st.value.args) >= 2:
                    spec = st.value.args[1]
                    fields = None
                    if isinstance(spec, ast.Constant) and isinstance(spec.value, str):
                        fields = spec.value.replace(",", " ").split()
                    elif isinstance(spec, (ast.List, ast.Tuple)) and all(isinstance(e, ast.Constant) and isinstance(e.value, str) for e in spec.elts):
                        fields = [e.value for e in spec.elts]
                    if fields:
                        nts[st.targets[0].id] = (fields, {})
    if not nts:
        return
    # class attributes that name a named-tuple type (`transition_type = Move` in one node class, `= Branch` in another): whatever
    # object it is read from, `x.transition_type` is one of those types
    nt_attrs = {}
    for m in mods.values():
        for c_ in [x for x in ast.walk(m.tree) if isinstance(x, ast.ClassDef)]:
            for s2 in c_.body:
                if isinstance(s2, ast.Assign) and len(s2.targets) == 1 and isinstance(s2.targets[0], ast.Name):
                    nt_attrs.setdefault(s2.targets[0].id, []).append(isinstance(s2.value, ast.Name) and s2.value.id in nts)
    nt_attrs = {k for k, v in nt_attrs.items() if all(v)}
    for m in mods.values():
        for n in ast.walk(m.tree):
            if isinstance(n, ast.Attribute) and isinstance(n.ctx, (ast.Store, ast.Del)) and n.attr in nt_attrs:
                nt_attrs.discard(n.attr)

    def is_nt_type(e):
        return (isinstance(e, ast.Name) and e.id in nts) or (isinstance(e, ast.Attribute) and e.attr in nt_attrs and isinstance(e.value, ast.Name))
    index = {}
    for fields, _ in nts.values():
        for i, f in enumerate(fields):
            index.setdefault(f, set()).add(i)
    taken = set()         # names that are (also) ordinary attributes / methods somewhere
    for m in mods.values():
        for n in ast.walk(m.tree):
            if isinstance(n, ast.Attribute) and isinstance(n.ctx, (ast.Store, ast.Del)):
                taken.add(n.attr)
            if isinstance(n, ast.ClassDef):
                for s2 in n.body:
                    if isinstance(s2, ast.FunctionDef):
                        taken.add(s2.name)
                    if n.name not in nts:
                        if isinstance(s2, ast.Assign):
                            taken.update(t.id for t in s2.targets if isinstance(t, ast.Name))
                        elif isinstance(s2, ast.AnnAssign) and isinstance(s2.target, ast.Name):
                            taken.add(s2.target.id)
    # ... and names read off something that is certainly not a named tuple: a module (`random.seed`), the namespace argparse
    # hands back (`parsed_args.width`), `self` inside an ordinary class
    for m in mods.values():
        modnames = set()
        for n in ast.walk(m.tree):
            if isinstance(n, ast.Import):
                modnames.update((a.asname or a.name).split(".")[0] for a in n.names)
        spaces = set()
        for n in ast.walk(m.tree):
            if isinstance(n, ast.Assign) and isinstance(n.value, ast.Call) and isinstance(n.value.func, ast.Attribute) and n.value.func.attr in ("parse_args", "parse_known_args"):
                for t in n.targets:
                    spaces.update(x.id for x in ast.walk(t) if isinstance(x, ast.Name))
        for cls_ in [c_ for c_ in ast.walk(m.tree) if isinstance(c_, ast.ClassDef)]:
            for n in ast.walk(cls_):
                if isinstance(n, ast.Attribute) and isinstance(n.value, ast.Name) and n.value.id in ("self", "cls") and cls_.name not in nts:
                    taken.add(n.attr)
        for n in ast.walk(m.tree):
            if isinstance(n, ast.Attribute) and isinstance(n.value, ast.Name) and (n.value.id in modnames or n.value.id in spaces or "args" in n.value.id.lower()
                                                                                     or n.value.id in ("parser", "namespace", "ns", "options", "opts")):
                taken.add(n.attr)
    fmap = {f: next(iter(ix)) for f, ix in index.items() if len(ix) == 1 and f not in taken}

    # A field name that is also an ordinary attribute somewhere (`prune_states` of a mode record and of the game object) is not
    # rewritten by name - but a variable that can only hold records of ONE named-tuple type is: a local bound only to `NT(...)`
    # / `NT(*x)` / `NT._make(x)` / a module constant of that type, a loop variable over a module-level display of such records,
    # `self` inside the methods of a named-tuple class.
    mod_typed, mod_seq = {}, {}
    def nt_type_of(e, local=None):
        if isinstance(e, ast.Call):
            fn = e.func
            if isinstance(fn, ast.Name) and fn.id in nts:
                return fn.id
            if isinstance(fn, ast.Attribute) and fn.attr == "_make" and isinstance(fn.value, ast.Name) and fn.value.id in nts:
                return fn.value.id
        if isinstance(e, ast.Name):
            if local and e.id in local:
                return local[e.id]
            return mod_typed.get(e.id)
        return None
    for m in mods.values():
        for st in m.tree.body:
            if isinstance(st, ast.Assign) and len(st.targets) == 1 and isinstance(st.targets[0], ast.Name):
                ty = nt_type_of(st.value)
                if ty:
                    mod_typed[st.targets[0].id] = ty
                elif isinstance(st.value, (ast.Tuple, ast.List)) and st.value.elts:
                    tys = {nt_type_of(x) for x in st.value.elts}
                    if len(tys) == 1 and None not in tys:
                        mod_seq[st.targets[0].id] = next(iter(tys))
    for m in mods.values():
        for n in ast.walk(m.tree):
            if isinstance(n, (ast.Assign, ast.AugAssign, ast.AnnAssign)) and not any(n is b for b in m.tree.body):
                for t in (n.targets if isinstance(n, ast.Assign) else [n.target]):
                    for x in ast.walk(t):
                        if isinstance(x, ast.Name):
                            mod_typed.pop(x.id, None) if False else None
    def seq_type_of(e):
        if isinstance(e, ast.Name):
            return mod_seq.get(e.id)
        if isinstance(e, (ast.Tuple, ast.List)) and e.elts:
            tys = {nt_type_of(x) for x in e.elts}
            if len(tys) == 1 and None not in tys:
                return next(iter(tys))
        return None
    for m in mods.values():
        for fn_ in [x for x in ast.walk(m.tree) if isinstance(x, (ast.FunctionDef, ast.AsyncFunctionDef))]:
            binds = {}
            a_ = fn_.args
            for p_ in a_.posonlyargs + a_.args + a_.kwonlyargs + ([a_.vararg] if a_.vararg else []) + ([a_.kwarg] if a_.kwarg else []):
                binds.setdefault(p_.arg, []).append(None)
            for n in ast.walk(fn_):
                if isinstance(n, ast.Assign):
                    for t in n.targets:
                        if isinstance(t, ast.Name):
                            binds.setdefault(t.id, []).append(("val", n.value))
                        else:
                            for x in ast.walk(t):
                                if isinstance(x, ast.Name) and isinstance(x.ctx, ast.Store):
                                    binds.setdefault(x.id, []).append(None)
                elif isinstance(n, (ast.For, ast.comprehension)):
                    if isinstance(n.target, ast.Name):
                        binds.setdefault(n.target.id, []).append(("elem", n.iter))
                    else:
                        for x in ast.walk(n.target):
                            if isinstance(x, ast.Name):
                                binds.setdefault(x.id, []).append(None)
                elif isinstance(n, (ast.AugAssign, ast.AnnAssign, ast.NamedExpr)):
                    for x in ast.walk(n.target):
                        if isinstance(x, ast.Name):
                            binds.setdefault(x.id, []).append(None)
                elif isinstance(n, (ast.withitem,)) and n.optional_vars is not None:
                    for x in ast.walk(n.optional_vars):
                        if isinstance(x, ast.Name):
                            binds.setdefault(x.id, []).append(None)
                elif isinstance(n, ast.ExceptHandler) and n.name:
                    binds.setdefault(n.name, []).append(None)
                elif isinstance(n, (ast.Global, ast.Nonlocal)):
                    for nm_ in n.names:
                        binds.setdefault(nm_, []).append(None)
            local = {}
            for _ in range(3):
                for nm_, bs in binds.items():
                    if nm_ in local or None in bs or not bs:
                        continue
                    tys = {(nt_type_of(b[1], local) if b[0] == "val" else seq_type_of(b[1])) for b in bs}
                    if len(tys) == 1 and None not in tys:
                        local[nm_] = next(iter(tys))
            # self of a method of a named-tuple class
            owner_cls = getattr(fn_, "parent", None)
            par = None
            for c_ in ast.walk(m.tree):
                if isinstance(c_, ast.ClassDef) and fn_ in c_.body:
                    par = c_
            if par is not None and par.name in nts and (a_.posonlyargs + a_.args) and not any(isinstance(d_, ast.Name) and d_.id in ("staticmethod", "classmethod") for d_ in fn_.decorator_list):
                me_ = (a_.posonlyargs + a_.args)[0].arg
                if binds.get(me_) == [None]:
                    local[me_] = par.name
            if not local:
                continue

            class TL(ast.NodeTransformer):
                def visit_Attribute(self, node):
                    self.generic_visit(node)
                    if isinstance(node.ctx, ast.Load) and isinstance(node.value, ast.Name) and node.value.id in local:
                        fields = nts[local[node.value.id]][0]
                        if node.attr in fields:
                            return ast.copy_location(ast.Subscript(value=node.value, slice=ast.Constant(value=fields.index(node.attr)), ctx=ast.Load()), node)
                    return node
            for i_, b_ in enumerate(fn_.body):
                fn_.body[i_] = TL().visit(b_)

    class T(ast.NodeTransformer):
        def visit_Attribute(self, node):
            self.generic_visit(node)
            if isinstance(node.ctx, ast.Load) and node.attr in fmap and not (isinstance(node.value, ast.Name) and node.value.id in nts):
                return ast.copy_location(ast.Subscript(value=node.value, slice=ast.Constant(value=fmap[node.attr]), ctx=ast.Load()), node)
            return node

        def visit_IfExp(self, node):
            self.generic_visit(node)
            # `t if isinstance(t, NT) else NT(*t)` (already `... else tuple(t)`): the pair as a tuple either way
            t = node.test
            if isinstance(t, ast.Call) and isinstance(t.func, ast.Name) and t.func.id == "isinstance" and len(t.args) == 2 and is_nt_type(t.args[1]) \
                    and isinstance(node.body, ast.Name) and isinstance(t.args[0], ast.Name) and t.args[0].id == node.body.id \
                    and isinstance(node.orelse, ast.Name) and node.orelse.id == node.body.id:
                return node.orelse
            return node

        def visit_Call(self, node):
            self.generic_visit(node)
            # NT(*pair) / NT._make(pair): the pair as a tuple
            # (the pair itself: what the rules read of it - its slots - is the same; that it has the right number of slots is what
            # the validation in front of every such conversion establishes)
            if is_nt_type(node.func) and len(node.args) == 1 and isinstance(node.args[0], ast.Starred) and not node.keywords:
                return node.args[0].value
            if isinstance(node.func, ast.Attribute) and node.func.attr == "_make" and isinstance(node.func.value, ast.Name) and node.func.value.id in nts \
                    and len(node.args) == 1 and not isinstance(node.args[0], ast.Starred) and not node.keywords:
                return node.args[0]
            if isinstance(node.func, ast.Name) and node.func.id in nts and not any(isinstance(a, ast.Starred) for a in node.args) and all(k.arg for k in node.keywords):
                fields, defaults = nts[node.func.id]
                vals = dict(zip(fields, node.args))
                if len(node.args) > len(fields):
                    return node
                for k in node.keywords:
                    if k.arg not in fields or k.arg in vals:
                        return node
                    vals[k.arg] = k.value
                for f in fields:
                    if f not in vals:
                        if f in defaults:
                            vals[f] = _copy.deepcopy(defaults[f])
                        else:
                            return node
                tup = ast.copy_location(ast.Tuple(elts=[vals[f] for f in fields], ctx=ast.Load()), node)
                tup._nt_name = node.func.id          # which named tuple this display was (its fields by name: m.named_tuples)
                return tup
            return node
    # one-line methods of a named-tuple class (`def as_tuple(self): return tuple(self[:8])`): the expression, with the receiver in
    # place of self, at every call `x.as_tuple()` - when the name belongs to named-tuple classes only and self is read once
    nt_methods = {}
    other_methods = set()
    for m in mods.values():
        for st in m.tree.body:
            if isinstance(st, ast.ClassDef):
                for s2 in st.body:
                    if isinstance(s2, ast.FunctionDef):
                        if st.name in nts:
                            nt_methods.setdefault(s2.name, []).append(s2)
                        else:
                            other_methods.add(s2.name)
    one_liners = {}
    for name, defs in nt_methods.items():
        if len(defs) != 1 or name in other_methods or name.startswith("__"):
            continue
        fn = defs[0]
        body = [b for b in fn.body if not (isinstance(b, ast.Expr) and isinstance(b.value, ast.Constant))]
        a = fn.args
        if len(body) != 1 or not isinstance(body[0], ast.Return) or body[0].value is None or fn.decorator_list or a.vararg or a.kwarg or a.kwonlyargs \
                or len(a.posonlyargs + a.args) < 1 or a.defaults:
            continue
        me = (a.posonlyargs + a.args)[0].arg
        extra_params = [x.arg for x in (a.posonlyargs + a.args)[1:]]
        # module constants of the defining module are written out (the expression moves to other modules)
        import builtins as _bi
        owner = next(m for m in mods.values() if any(fn in getattr(c_, "body", []) for c_ in m.tree.body))
        expr0 = _copy.deepcopy(body[0].value)
        closed = True

        class K_(ast.NodeTransformer):
            def visit_Name(self, n):
                nonlocal closed
                if n.id == me or n.id in extra_params or hasattr(_bi, n.id):
                    return n
                v = owner.consts.get(n.id)
                if isinstance(v, ast.Constant):
                    return ast.copy_location(ast.Constant(value=v.value), n)
                closed = False
                return n
        expr0 = K_().visit(expr0)
        if not closed:
            continue
        body = [ast.Return(value=expr0)]
        uses = [n for n in ast.walk(body[0].value) if isinstance(n, ast.Name) and n.id == me]
        if len(uses) >= 1 and not any(isinstance(n, (ast.Lambda, ast.ListComp, ast.GeneratorExp, ast.SetComp, ast.DictComp, ast.Yield, ast.Await, ast.NamedExpr)) for n in ast.walk(body[0].value)):
            one_liners[name] = (me, body[0].value, extra_params, len(uses))

    class M(ast.NodeTransformer):
        def visit_Call(self, node):
            self.generic_visit(node)
            if isinstance(node.func, ast.Attribute) and node.func.attr in one_liners and not node.keywords \
                    and len(node.args) == len(one_liners[node.func.attr][2]) and not any(isinstance(x, ast.Starred) for x in node.args):
                me, expr, extra, n_uses = one_liners[node.func.attr]
                recv = node.func.value
                simple = (ast.Name, ast.Constant)
                # an operand that is written out more than once must be a plain name / constant (no effect is duplicated)
                if (n_uses > 1 and not isinstance(recv, simple)) or (extra and not all(isinstance(x, simple) for x in node.args)):
                    return node
                new = _copy.deepcopy(expr)
                argmap = dict(zip(extra, node.args))

                class S(ast.NodeTransformer):
                    def visit_Name(self, n):
                        if n.id == me:
                            return recv if n_uses == 1 else _copy.deepcopy(recv)
                        if n.id in argmap:
                            return _copy.deepcopy(argmap[n.id])
                        return n
                new = S().visit(new)
                for x in ast.walk(new):
                    if x is not recv and not any(x is y for y in ast.walk(recv)):
                        ast.copy_location(x, node)
                return new
            return node
    for m in mods.values():
        if one_liners:
            M().visit(m.tree)
        T().visit(m.tree)
        ast.fix_missing_locations(m.tree)
        add_parents(m.tree)
        m.funcs, m.classes, m.consts, m.imports = {}, {}, {}, {}
        m._index()
        m.named_tuples = {k: v[0] for k, v in nts.items()}


class Program:
    def __init__(self, repo=None, modules=None):
        self.repo = repo or REPO
        self.mods = {}
        for m in (modules or MODULES):
            p = os.path.join(self.repo, m)
            if not os.path.exists(p):
                raise AnalysisError("anchor module missing: %s" % m)
            try:
                self.mods[m] = Mod(m, p)
            except SyntaxError as e:
                raise AnalysisError("module %s does not parse: %s" % (m, e))
        try:
            _desugar_properties(self.mods)
        except Exception:
            pass
        try:
            _class_constants(self.mods)
        except AnalysisError:
            raise
        except Exception:
            pass
        try:
            _unroll_field_loops(self.mods)
        except AnalysisError:
            raise
        except Exception:
            pass
        _structural_tuples(self.mods)
        self.funcs = {}
        self.classes = {}
        for m in self.mods.values():
            for f in m.funcs.values():
                self.funcs[f.qual] = f
            for c in m.classes.values():
                self.classes[c.name] = c
                for f in c.methods.values():
                    self.funcs[f.qual] = f

    # ---- lookup ---------------------------------------------------------
    def mod(self, name):
        if name not in self.mods:
            raise AnalysisError("anchor module missing: %s" % name)
        return self.mods[name]

    def func(self, qual):
        """qual: 'tad.py::Solver.prune_paths' or 'reverse_dfs.py::reverse_dfs'."""
        if qual not in self.funcs:
            raise AnalysisError("anchor function missing: %s" % qual)
        if qual in self.PIPELINE:
            return self.pipeline_view(qual)
        return self.funcs[qual]

    def has_func(self, qual):
        return qual in self.funcs

    # ---- pipeline functions with their private phase helpers written back in ---------------------------------------
    PIPELINE = {"tad.py::StochasticGame.solve", "tad.py::Solver.solve_reachability", "tad.py::Solver.solve_total_rewards",
                "tad.py::Solver.prune_stochastich_game", "conditionalrewards.py::main", "roberta_generator.py::main",
                "reverse_dfs.py::reverse_dfs"}
    # the command-line parameters the properties speak about; any further option is judged at its argparse default
    CLI_DOCUMENTED = {"roberta_generator.py": {"seed", "width", "length", "max_reward", "prob_robot_break", "prob_light_break", "prob_tile_break",
                                               "prob_loose_tile", "force_down"},
                      "conditionalrewards.py": {"file", "log_level", "save_results"}}
    ANCHORS = {"check_game", "init_states", "count_transitions", "solve", "solve_reachability", "value_iteration_reachability", "_get_reachability_strategies",
               "prune_reachability", "prune_stochastich_game", "prune_paths", "prune_states", "solve_total_rewards", "value_iteration_total_rewards",
               "_get_total_rewards_strategies", "read_dict_from_file", "run_games", "save_results_to_file", "init_parser", "set_logger", "reverse_dfs"}

    def pipeline_view(self, qual, all_options=False):
        """The function `qual` with calls of helper methods / private module functions that are not anchors of any rule replaced
        by the helpers' bodies (parameters bound by assignments, locals renamed, `return` turned into the assignment or return
        of the call site).  A maintainer who splits solve() into phases leaves the same pipeline; the CFG rules look at this
        view.  Returns the original Func when nothing can be inlined.
        all_options=True: main() with every command-line option live and only private helpers written back in - for the rules that
        say what must hold whatever options are given (validation on every path, nothing modifies the results before the report)."""
        cache = self.__dict__.setdefault("_pipeline_views_all" if all_options else "_pipeline_views", {})
        if qual in cache:
            return cache[qual]
        f = self.funcs[qual]
        import copy as _copy
        node = None
        # options added to a pipeline function (`solve(prune_states=None)`, `main(argv=None)`): the documented call passes none
        # of them, so they start out as their defaults (a prologue assignment; later assignments to the name stay what they are)
        pro = []
        for p_, d_ in f.defaults.items():
            ok_, v_ = self.try_const(d_, f.mod)
            if ok_ and (v_ is None or isinstance(v_, (bool, int, float, str))):
                pro.append(ast.Assign(targets=[ast.Name(id=p_, ctx=ast.Store())], value=ast.Constant(value=v_), lineno=f.node.lineno, col_offset=0))
        if pro:
            node = _copy.deepcopy(f.node)
            doc = [st for st in node.body[:1] if isinstance(st, ast.Expr) and isinstance(st.value, ast.Constant)]
            node.body = doc + pro + node.body[len(doc):]
            node.decorator_list = []
            ast.fix_missing_locations(node)
        # main(): command-line options outside the documented interface at their argparse defaults
        if f.name == "main" and f.cls is None and f.mod.name in self.CLI_DOCUMENTED and not all_options:
            try:
                node2 = _cli_defaults(self, f, node if node is not None else _copy.deepcopy(f.node))
            except Exception:
                node2 = None
            if node2 is not None:
                node = node2
        # helpers written back in
        g = f
        if node is not None:
            add_parents(node)
            node.parent = getattr(f.node, "parent", None)
            g = Func(f.mod, f.cls, node)
        try:
            node3 = _inline_helpers(self, g, public=(f.cls is None and f.name in ("main", "reverse_dfs") and not all_options))
        except Exception:
            node3 = None
        if pro and not (f.name == "main" and f.cls is None):
            # an option of the pipeline function at its default decides the tests on it
            try:
                base_ = node if node is not None else None
                if base_ is not None:
                    import builtins as _b

                    def _truth0(t):
                        if isinstance(t, ast.Constant):
                            return bool(t.value)
                        if isinstance(t, ast.UnaryOp) and isinstance(t.op, ast.Not):
                            v = _truth0(t.operand)
                            return None if v is None else not v
                        if isinstance(t, ast.BoolOp):
                            vs = [_truth0(x) for x in t.values]
                            if isinstance(t.op, ast.And):
                                return False if False in vs else (None if None in vs else True)
                            return True if True in vs else (None if None in vs else False)
                        if isinstance(t, ast.Compare) and len(t.ops) == 1 and isinstance(t.left, ast.Constant) and isinstance(t.comparators[0], ast.Constant) \
                                and isinstance(t.ops[0], (ast.Is, ast.IsNot)) and (t.left.value is None or t.comparators[0].value is None):
                            same = t.left.value is t.comparators[0].value
                            return same if isinstance(t.ops[0], ast.Is) else not same
                        return None
                    base_.body = _prefix_constants(base_.body, _truth0) or [ast.Pass()]
                    ast.fix_missing_locations(base_)
                    add_parents(base_)
                    base_.parent = getattr(f.node, "parent", None)
                    g = Func(f.mod, f.cls, base_)
                    node3 = None
                    try:
                        node3 = _inline_helpers(self, g, public=False)
                    except Exception:
                        node3 = None
            except Exception:
                pass
        if node3 is not None:
            node = node3
        if node is not None and f.name == "main" and f.cls is None and f.mod.name in self.CLI_DOCUMENTED and not all_options:
            try:
                node = _fold_static(_pure_iter_helpers(self, f, node))
            except Exception:
                pass
        if node is None:
            cache[qual] = f
        else:
            add_parents(node)
            node.parent = getattr(f.node, "parent", None)
            v = Func(f.mod, f.cls, node)
            v.inlined_view = True
            cache[qual] = v
        return cache[qual]

    def cls(self, name):
        if name not in self.classes:
            raise AnalysisError("anchor class missing: %s" % name)
        return self.classes[name]

    def mro(self, clsname):
        out, todo = [], [clsname]
        while todo:
            n = todo.pop(0)
            if n in self.classes and n not in out:
                out.append(n)
                todo.extend(self.classes[n].bases)
        return out

    def subclasses(self, clsname, strict=False):
        out = [] if strict else [clsname]
        changed = True
        while changed:
            changed = False
            for c in self.classes.values():
                if c.name not in out and any(b in out or b == clsname for b in c.bases):
                    out.append(c.name)
                    changed = True
        return out

    def resolve_method(self, clsname, meth):
        for c in self.mro(clsname):
            f = self.classes[c].methods.get(meth)
            if f:
                return f
        return None

    def exc_is_a(self, name, root="ValueError", _depth=0):
        """An exception class of the repository (or a builtin one) that derives from `root`: `except root` catches it, a caller
        that documents `root` gets what it was promised."""
        import builtins
        if name == root:
            return True
        if _depth > 10 or not isinstance(name, str):
            return False
        if name in self.classes:
            c = self.classes[name]
            bases = [b.id if isinstance(b, ast.Name) else (b.attr if isinstance(b, ast.Attribute) else None) for b in c.node.bases]
            return any(self.exc_is_a(b, root, _depth + 1) for b in bases if b)
        b, r = getattr(builtins, name, None), getattr(builtins, root, None)
        return isinstance(b, type) and isinstance(r, type) and issubclass(b, r)

    def classes_defining(self, meth):
        return [c for c in self.classes.values() if meth in c.methods]

    def all_funcs(self, mods=None):
        for q, f in self.funcs.items():
            if mods is None or f.mod.name in mods:
                yield f

    def digest(self):
        return {m.name: m.sha256 for m in self.mods.values()}

    # ---- constants -------------------------------------------------------
    def const_eval(self, node, mod, env=None, depth=0):
        """Fold a closed expression: literals, module constants, arithmetic,
        math.floor/log/ceil, abs, round, len of literal, tuples/lists.
        Raises NotConst."""
        if depth > 20:
            raise NotConst("depth")
        ce = lambda n: self.const_eval(n, mod, env, depth + 1)
        if isinstance(node, ast.Constant):
            return node.value
        if isinstance(node, ast.Name):
            if env and node.id in env:
                return env[node.id]
            if node.id in mod.consts:
                return self.const_eval(mod.consts[node.id], mod, None, depth + 1)
            if node.id in mod.imports:
                m2, attr = mod.imports[node.id]
                if attr and m2 in self.mods and attr in self.mods[m2].consts:
                    return self.const_eval(self.mods[m2].consts[attr], self.mods[m2], None, depth + 1)
            raise NotConst(node.id)
        if isinstance(node, ast.Attribute) and isinstance(node.value, ast.Name) and node.value.id == "math" and node.attr in ("inf", "pi", "e", "tau") \
                and "math" not in mod.consts and "math" not in mod.funcs:
            import math as _math
            return getattr(_math, node.attr)
        if isinstance(node, ast.Call) and isinstance(node.func, ast.Name) and node.func.id == "float" and len(node.args) == 1 and not node.keywords \
                and isinstance(node.args[0], ast.Constant) and node.args[0].value in ("inf", "-inf", "+inf", "infinity"):
            return float(node.args[0].value)
        if isinstance(node, ast.UnaryOp):
            v = ce(node.operand)
            if isinstance(node.op, ast.USub):
                return -v
            if isinstance(node.op, ast.UAdd):
                return +v
            if isinstance(node.op, ast.Not):
                return not v
            raise NotConst("unary")
        if isinstance(node, ast.BinOp):
            a, b = ce(node.left), ce(node.right)
            try:
                if isinstance(node.op, ast.Add):
                    return a + b
                if isinstance(node.op, ast.Sub):
                    return a - b
                if isinstance(node.op, ast.Mult):
                    return a * b
                if isinstance(node.op, ast.Div):
                    return a / b
                if isinstance(node.op, ast.FloorDiv):
                    return a // b
                if isinstance(node.op, ast.Mod):
                    return a % b
                if isinstance(node.op, ast.Pow):
                    if isinstance(b, (int, float)) and abs(b) > 64:
                        raise NotConst("pow too large")
                    return a ** b
            except (ArithmeticError, TypeError, ValueError) as e:
                raise NotConst(str(e))
            raise NotConst("binop")
        if isinstance(node, ast.Compare):
            import operator as _op
            ops = {ast.Lt: _op.lt, ast.LtE: _op.le, ast.Gt: _op.gt, ast.GtE: _op.ge, ast.Eq: _op.eq, ast.NotEq: _op.ne}
            left = ce(node.left)
            for o_, c_ in zip(node.ops, node.comparators):
                if type(o_) not in ops:
                    raise NotConst("comparison")
                right = ce(c_)
                try:
                    if not ops[type(o_)](left, right):
                        return False
                except TypeError as e:
                    raise NotConst(str(e))
                left = right
            return True
        if isinstance(node, ast.IfExp):
            return ce(node.body) if ce(node.test) else ce(node.orelse)
        if isinstance(node, ast.BoolOp):
            v = None
            for x in node.values:
                v = ce(x)
                if isinstance(node.op, ast.And) and not v:
                    return v
                if isinstance(node.op, ast.Or) and v:
                    return v
            return v
        if isinstance(node, (ast.Tuple, ast.List)):
            vals = [ce(e) for e in node.elts]
            return tuple(vals) if isinstance(node, ast.Tuple) else vals
        if isinstance(node, ast.Dict):
            if any(k is None for k in node.keys):
                raise NotConst("dict splat")
            try:
                return {ce(k): ce(v) for k, v in zip(node.keys, node.values)}
            except TypeError as e:
                raise NotConst(str(e))
        if isinstance(node, ast.Set):
            try:
                return frozenset(ce(e) for e in node.elts)
            except TypeError as e:
                raise NotConst(str(e))
        if isinstance(node, ast.Subscript) and not isinstance(node.slice, ast.Slice):
            base, key = ce(node.value), ce(node.slice)
            try:
                return base[key]
            except (KeyError, IndexError, TypeError) as e:
                raise NotConst("subscript: %s" % e)
        if isinstance(node, ast.Call):
            fn = node.func
            args = [ce(a) for a in node.args]
            if node.keywords:
                raise NotConst("kw")
            try:
                if isinstance(fn, ast.Attribute) and isinstance(fn.value, ast.Name) and fn.value.id == "math":
                    if fn.attr in ("floor", "ceil", "log", "log10", "log2", "sqrt", "trunc"):
                        return getattr(math, fn.attr)(*args)
                if isinstance(fn, ast.Name) and fn.id in ("abs", "round", "int", "float", "len", "min", "max"):
                    return {"abs": abs, "round": round, "int": int, "float": float, "len": len,
                            "min": min, "max": max}[fn.id](*args)
                if isinstance(fn, ast.Name) and fn.id in ("frozenset", "set", "tuple", "list", "sorted") and len(args) <= 1:
                    if not args:
                        return {"frozenset": frozenset(), "set": frozenset(), "tuple": (), "list": [], "sorted": []}[fn.id]
                    return {"frozenset": frozenset, "set": frozenset, "tuple": tuple, "list": list, "sorted": sorted}[fn.id](args[0])
                if isinstance(fn, ast.Name) and fn.id == "range" and 1 <= len(args) <= 3 and all(isinstance(a, int) and not isinstance(a, bool) for a in args):
                    r = range(*args)
                    if len(r) > 64:
                        raise NotConst("range too long")
                    return tuple(r)
                # a module-level helper that is a single `return <expression of its parameters>`
                if isinstance(fn, ast.Name) and fn.id in mod.funcs and depth < 6:
                    h = mod.funcs[fn.id]
                    if len(args) <= len(h.params) and not h.vararg and not h.kwarg:
                        env2 = dict(zip(h.params, args))
                        for p_, d_ in h.defaults.items():
                            if p_ not in env2:
                                env2[p_] = self.const_eval(d_, mod, None, depth + 1)
                        if all(p_ in env2 for p_ in h.params):
                            return self.eval_straightline(h, env2, depth + 1)
            except (ArithmeticError, TypeError, ValueError) as e:
                raise NotConst(str(e))
            raise NotConst("call")
        raise NotConst(type(node).__name__)

    def eval_straightline(self, h, env, depth=0):
        """Value of a helper whose body is straight-line: `name = <closed expression>` statements followed by one `return`."""
        env = dict(env)
        NOTHING = object()

        def block(stmts):
            for st in stmts:
                if isinstance(st, ast.Expr) and isinstance(st.value, ast.Constant):
                    continue
                if isinstance(st, ast.Assign) and len(st.targets) == 1 and isinstance(st.targets[0], ast.Name):
                    env[st.targets[0].id] = self.const_eval(st.value, h.mod, env, depth + 1)
                elif isinstance(st, ast.Return) and st.value is not None:
                    return self.const_eval(st.value, h.mod, env, depth + 1)
                elif isinstance(st, ast.If):
                    r = block(st.body if self.const_eval(st.test, h.mod, env, depth + 1) else st.orelse)     # a test on folded values
                    if r is not NOTHING:
                        return r
                else:
                    raise NotConst("helper %s is not straight-line (%s)" % (h.name, type(st).__name__))
            return NOTHING
        r = block(h.node.body)
        if r is NOTHING:
            raise NotConst("helper %s does not end in a return" % h.name)
        return r

    def try_const(self, node, mod, env=None):
        try:
            return True, self.const_eval(node, mod, env)
        except NotConst:
            return False, None


# module-level functions of the reference tree: the rules are anchored on them, a view never writes them into their caller
REFERENCE_FUNCS = {"gen_rnd_board", "get_random_moves", "player_two_transitions", "player_one_down_transitions", "player_one_left_right_transitions",
                   "prob_tile_break_transitions", "write_preamble", "write_robot_A", "prob_robot_down_break_transitions", "prob_robot_left_break_transitions",
                   "prob_robot_right_break_transitions", "write_robot_B", "player_one_down_left_right_transitions", "prob_light_break_transitions",
                   "write_robot_C", "write_robots", "init_parser", "check_input", "prob_to_str", "main", "save_results_to_file", "read_dict_from_file",
                   "run_games", "set_logger", "get_max_from_matrix", "create_sg_from_board", "reverse_dfs", "reverse_dfs_from", "reverse_transition_list",
                   "reverse_transition_list_core", "list_of_tuples_to_dict_of_lists", "add_missing_states"}


def _inline_helpers(prog, f, depth=0, public=False):
    """New FunctionDef for f with inlinable helper calls expanded, or None if there is none.  public: helpers without a leading
    underscore count too, as long as they are not functions of the reference tree (a `process_file` split off main())."""
    import copy as _copy
    counter = [0]

    def callee_of(call):
        fn = call.func
        if isinstance(fn, ast.Attribute) and isinstance(fn.value, ast.Name) and fn.value.id == "self" and f.cls is not None:
            if fn.attr in Program.ANCHORS:
                return None
            for cn in prog.mro(f.cls.name):
                m = prog.classes[cn].methods.get(fn.attr)
                if m is not None:
                    return m
        if isinstance(fn, ast.Name) and fn.id.startswith("_") and fn.id in f.mod.funcs and fn.id not in Program.ANCHORS:
            return f.mod.funcs[fn.id]
        if public and isinstance(fn, ast.Name) and fn.id in f.mod.funcs and fn.id not in Program.ANCHORS and fn.id not in REFERENCE_FUNCS:
            h0 = f.mod.funcs[fn.id]
            if f.name == "reverse_dfs" and any(isinstance(n, ast.While) for n in ast.walk(h0.node)):
                return None             # a search of its own (work list): judged as a function, not written into its caller
            return h0
        return None

    def simple(h):
        a = h.node.args
        if a.vararg or a.kwarg or h.node.decorator_list:
            return False
        for n in ast.walk(h.node):
            if isinstance(n, (ast.Yield, ast.YieldFrom, ast.Global, ast.Nonlocal, ast.Lambda, ast.Try)) or (isinstance(n, ast.FunctionDef) and n is not h.node):
                return False
        return True

    def tail_form(stmts):
        """Rewrite `if c: A; return [E]` + rest into if/else so that every return is the last statement of its block; None if impossible."""
        out = []
        for i, st in enumerate(stmts):
            if isinstance(st, ast.If):
                body = tail_form(st.body)
                orelse = tail_form(st.orelse) if st.orelse else []
                if body is None or orelse is None:
                    return None
                b_ret = bool(body) and _ends_with_return(body)
                o_ret = bool(orelse) and _ends_with_return(orelse)
                rest = stmts[i + 1:]
                if (b_ret or o_ret) and rest:
                    rest_t = tail_form(rest)
                    if rest_t is None:
                        return None
                    new = ast.If(test=st.test, body=body if b_ret else body + rest_t, orelse=(orelse if o_ret else orelse + rest_t) if (orelse or not b_ret or True) else rest_t)
                    if b_ret and not o_ret:
                        new.orelse = orelse + rest_t
                    elif o_ret and not b_ret:
                        new.body = body + rest_t
                    else:       # both branches return: the rest is dead
                        new.body, new.orelse = body, orelse
                    out.append(ast.copy_location(new, st))
                    return out
                new = ast.If(test=st.test, body=body, orelse=orelse)
                out.append(ast.copy_location(new, st))
            elif isinstance(st, (ast.For, ast.While, ast.With)):
                if any(isinstance(n, ast.Return) for n in ast.walk(st)):
                    return None
                out.append(st)
            elif isinstance(st, ast.Return):
                out.append(st)
                return out         # anything after it is dead
            else:
                out.append(st)
        return out

    def _ends_with_return(block):
        last = block[-1]
        if isinstance(last, ast.Return):
            return True
        if isinstance(last, ast.If) and last.orelse:
            return _ends_with_return(last.body) and _ends_with_return(last.orelse)
        return False

    def replace_returns(block, make):
        """Replace every (tail) return by make(value)."""
        out = []
        for st in block:
            if isinstance(st, ast.Return):
                out.extend(make(st))
            elif isinstance(st, ast.If):
                new = ast.If(test=st.test, body=replace_returns(st.body, make) or [ast.Pass()], orelse=replace_returns(st.orelse, make))
                out.append(ast.copy_location(new, st))
            else:
                out.append(st)
        return out

    def expand(call, site_kind, targets, site):
        h = callee_of(call)
        if h is None or not simple(h) or h.node is f.node:
            return None
        counter[0] += 1
        sfx = "__%s%d" % (h.name.strip("_"), counter[0])
        params = [a.arg for a in h.node.args.posonlyargs + h.node.args.args]
        is_method = h.cls is not None
        if is_method:
            params = params[1:]
        if any(isinstance(a, ast.Starred) for a in call.args) or any(k.arg is None for k in call.keywords) or len(call.args) > len(params):
            return None
        bound = dict(zip(params, call.args))
        for k in call.keywords:
            if k.arg not in params:
                return None
            bound[k.arg] = k.value
        for p_, d in h.defaults.items():
            bound.setdefault(p_, d)
        if any(p_ not in bound for p_ in params):
            return None
        body = [st for st in h.node.body if not (isinstance(st, ast.Expr) and isinstance(st.value, ast.Constant) and isinstance(st.value.value, str))]
        body = tail_form(_copy.deepcopy(body))
        if body is None:
            return None
        local_names = set(params)
        for n in ast.walk(ast.Module(body=body, type_ignores=[])):
            if isinstance(n, ast.Name) and isinstance(n.ctx, ast.Store):
                local_names.add(n.id)

        # a parameter that the helper never assigns and that receives a plain name of the caller IS that name inside the helper
        # (the helper's own locals are renamed, so nothing in its body can rebind a name of the caller)
        stored_in_h = {n.id for st in body for n in ast.walk(st) if isinstance(n, ast.Name) and isinstance(n.ctx, (ast.Store, ast.Del))}
        direct = {p_: bound[p_] for p_ in params if isinstance(bound[p_], ast.Name) and p_ not in stored_in_h and bound[p_].id not in (local_names - {p_})}

        # `x = helper(...)` where the helper ends in its one `return <local>`: that local IS x
        result_as = {}
        rets = [n for st in body for n in ast.walk(st) if isinstance(n, ast.Return)]
        if site_kind == "assign" and targets and len(targets) == 1 and isinstance(targets[0], ast.Name) and len(rets) == 1 and body and body[-1] is rets[0] \
                and isinstance(rets[0].value, ast.Name) and rets[0].value.id in local_names and rets[0].value.id not in params \
                and targets[0].id not in {d.id for d in direct.values()} \
                and not any(isinstance(n, ast.Name) and n.id == targets[0].id for a_ in bound.values() for n in ast.walk(a_)):
            result_as[rets[0].value.id] = targets[0].id
            body = body[:-1]

        class Ren(ast.NodeTransformer):
            def visit_Name(self, n):
                if n.id in direct and isinstance(n.ctx, ast.Load):
                    return ast.copy_location(ast.Name(id=direct[n.id].id, ctx=ast.Load()), n)
                if n.id in result_as:
                    return ast.copy_location(ast.Name(id=result_as[n.id], ctx=n.ctx), n)
                if n.id in local_names:
                    return ast.copy_location(ast.Name(id=n.id + sfx, ctx=n.ctx), n)
                return n
        body = [Ren().visit(st) for st in body]
        pre = []
        for p_ in params:
            if p_ in direct:
                continue
            a = ast.Assign(targets=[ast.Name(id=p_ + sfx, ctx=ast.Store())], value=bound[p_])
            pre.append(ast.copy_location(a, site))

        def make(ret):
            v = ret.value if ret.value is not None else ast.Constant(value=None)
            if site_kind == "expr":
                return [ast.copy_location(ast.Expr(value=v), ret)] if not isinstance(v, (ast.Constant, ast.Name)) else []
            if site_kind == "assign":
                return [ast.copy_location(ast.Assign(targets=_copy.deepcopy(targets), value=v), ret)]
            return [ast.copy_location(ast.Return(value=v), ret)]
        body = replace_returns(body, make)
        if result_as:
            out = pre + body
            for st in out:
                ast.fix_missing_locations(st)
            return out
        if not _ends_with_return_or_all(body, h) and site_kind != "expr":
            # falling off the end returns None
            body = body + make(ast.copy_location(ast.Return(value=ast.Constant(value=None)), site))
        out = pre + body
        for st in out:
            ast.fix_missing_locations(st)
        return out

    def _ends_with_return_or_all(body, h):
        return any(isinstance(n, ast.Return) for n in ast.walk(h.node)) and True

    changed = [False]

    def rewrite(block, level):
        out = []
        for st in block:
            call, kind, targets = None, None, None
            if isinstance(st, ast.Expr) and isinstance(st.value, ast.Call):
                call, kind = st.value, "expr"
            elif isinstance(st, ast.Assign) and isinstance(st.value, ast.Call):
                call, kind, targets = st.value, "assign", st.targets
            elif isinstance(st, ast.Return) and isinstance(st.value, ast.Call):
                call, kind = st.value, "return"
            if call is not None and level < 3 and (callee_of(call) is None or not simple(callee_of(call))):
                # `return self.run().as_tuple()` / `x = tuple(self.run()[:8])`: the helper call sits on the spine of the value - it is
                # evaluated first, so it can be taken out into a statement of its own (and expanded there)
                par, node = None, call
                while True:
                    nxt = None
                    if isinstance(node, ast.Call) and isinstance(node.func, ast.Attribute):
                        nxt = ("func.value", node.func.value)
                    elif isinstance(node, ast.Call) and isinstance(node.func, ast.Name) and node.func.id in ("tuple", "list") and len(node.args) == 1 and not node.keywords:
                        nxt = ("args0", node.args[0])
                    elif isinstance(node, ast.Subscript):
                        nxt = ("value", node.value)
                    if isinstance(node, ast.Call) and isinstance(node.func, ast.Attribute) and isinstance(node.func.value, ast.Name) and node.func.attr in ("append", "add", "extend") \
                            and len(node.args) == 1 and not node.keywords and isinstance(node.args[0], ast.Call):
                        nxt = ("args0", node.args[0])             # names.append(make(...)): the receiver is a plain name, the argument runs first
                    if nxt is None:
                        break
                    par, node = (node, nxt[0]), nxt[1]
                    if isinstance(node, ast.Call) and callee_of(node) is not None and simple(callee_of(node)) and callee_of(node).node is not f.node:
                        counter[0] += 1
                        tmp = "__spine%d" % counter[0]
                        st2 = _copy.copy(st)
                        st2.value = _copy.deepcopy(st.value)
                        # walk the same path in the copy
                        path, n0 = [], call
                        while n0 is not node:
                            if isinstance(n0, ast.Call) and isinstance(n0.func, ast.Attribute) and isinstance(n0.func.value, ast.Name) and n0.func.attr in ("append", "add", "extend") \
                                    and len(n0.args) == 1 and isinstance(n0.args[0], ast.Call):
                                path.append("a0"); n0 = n0.args[0]
                            elif isinstance(n0, ast.Call) and isinstance(n0.func, ast.Attribute):
                                path.append("fv"); n0 = n0.func.value
                            elif isinstance(n0, ast.Call):
                                path.append("a0"); n0 = n0.args[0]
                            else:
                                path.append("v"); n0 = n0.value
                        c0 = st2.value
                        for step in path[:-1]:
                            c0 = c0.func.value if step == "fv" else (c0.args[0] if step == "a0" else c0.value)
                        nm = ast.copy_location(ast.Name(id=tmp, ctx=ast.Load()), node)
                        if path[-1] == "fv":
                            c0.func.value = nm
                        elif path[-1] == "a0":
                            c0.args[0] = nm
                        else:
                            c0.value = nm
                        pre_st = ast.copy_location(ast.Assign(targets=[ast.Name(id=tmp, ctx=ast.Store())], value=node), st)
                        ast.fix_missing_locations(pre_st)
                        changed[0] = True
                        out.extend(rewrite([pre_st, st2], level))
                        call = "done"
                        break
                if call == "done":
                    continue
            if call is not None and level < 3:
                ex = expand(call, kind, targets, st)
                if ex is not None:
                    changed[0] = True
                    out.extend(rewrite(ex, level + 1))
                    continue
            if isinstance(st, ast.If):
                new = ast.If(test=st.test, body=rewrite(st.body, level), orelse=rewrite(st.orelse, level))
                out.append(ast.copy_location(new, st))
            elif isinstance(st, (ast.For, ast.While, ast.With)):
                new = _copy.copy(st)
                new.body = rewrite(st.body, level)
                out.append(new)
            else:
                out.append(st)
        return out

    new_body = rewrite(list(f.node.body), 0)
    if not changed[0]:
        return None
    node = ast.FunctionDef(name=f.node.name, args=f.node.args, body=_copy.deepcopy(new_body), decorator_list=[], returns=None, type_comment=None)
    if hasattr(f.node, "type_params"):
        node.type_params = []
    ast.copy_location(node, f.node)
    node.end_lineno = f.node.end_lineno
    ast.fix_missing_locations(node)
    canonicalise(ast.Module(body=[node], type_ignores=[]))
    return node


def _pure_iter_helpers(prog, f, node):
    """`for x in helper(a, b):` where helper is a new one-line function of the module (`return [first + i for i in range(n)]`) and
    the arguments are plain names / constants: the returned expression, arguments in place, as the iteration source."""
    import copy as _c
    for n in ast.walk(node):
        if not (isinstance(n, ast.For) and isinstance(n.iter, ast.Call) and isinstance(n.iter.func, ast.Name)):
            continue
        h = f.mod.funcs.get(n.iter.func.id)
        if h is None or h.name in REFERENCE_FUNCS or h.name in Program.ANCHORS or h.node.decorator_list:
            continue
        body = [b for b in h.node.body if not (isinstance(b, ast.Expr) and isinstance(b.value, ast.Constant))]
        a = h.node.args
        if len(body) != 1 or not isinstance(body[0], ast.Return) or body[0].value is None or a.vararg or a.kwarg or a.kwonlyargs:
            continue
        params = [x.arg for x in a.posonlyargs + a.args]
        call = n.iter
        if any(isinstance(x, ast.Starred) for x in call.args) or any(k.arg is None for k in call.keywords) or len(call.args) > len(params):
            continue
        bound = dict(zip(params, call.args))
        bound.update({k.arg: k.value for k in call.keywords})
        for p_, d_ in h.defaults.items():
            bound.setdefault(p_, d_)
        if set(bound) != set(params) or not all(isinstance(v, (ast.Name, ast.Constant)) for v in bound.values()):
            continue
        expr = _c.deepcopy(body[0].value)
        inner = {x.id for x in ast.walk(expr) if isinstance(x, ast.Name) and isinstance(x.ctx, ast.Store)}
        if inner & set(params) or any(isinstance(x, (ast.Lambda, ast.Yield, ast.Await, ast.NamedExpr)) for x in ast.walk(expr)):
            continue
        free = {x.id for x in ast.walk(expr) if isinstance(x, ast.Name) and isinstance(x.ctx, ast.Load)} - set(params) - inner
        import builtins
        if any(not hasattr(builtins, x) and x not in f.mod.consts for x in free):
            continue

        class S(ast.NodeTransformer):
            def visit_Name(self, m):
                if isinstance(m.ctx, ast.Load) and m.id in bound:
                    return ast.copy_location(_c.deepcopy(bound[m.id]), m)
                return m
        n.iter = ast.copy_location(S().visit(expr), call)
    ast.fix_missing_locations(node)
    return node


def _fold_static(node):
    """Constant propagation for single-assignment locals, `if`s on constants folded, loops over a display of at most one element
    unrolled - on a function view (in place; returns the node)."""
    import copy as _c

    def pure_display(e):
        return isinstance(e, (ast.List, ast.Tuple)) and len(e.elts) <= 1 and all(isinstance(x, (ast.Name, ast.Constant)) or (
            isinstance(x, ast.Attribute) and isinstance(x.value, ast.Name)) for x in e.elts)

    class E(ast.NodeTransformer):
        """xs + [] -> xs, x + 0 -> x, len(<display>) -> n, [f(i) for i in range(0|1)] -> display, range(0|1) -> display"""
        def visit_BinOp(self, n):
            self.generic_visit(n)
            if isinstance(n.op, ast.Add):
                for a_, b_ in ((n.left, n.right), (n.right, n.left)):
                    if isinstance(b_, ast.List) and not b_.elts and isinstance(a_, ast.List):
                        return a_
                if isinstance(n.right, ast.Constant) and n.right.value == 0 and type(n.right.value) is int and isinstance(n.left, (ast.Name, ast.Attribute)):
                    return n.left
            return n

        def visit_Call(self, n):
            self.generic_visit(n)
            if isinstance(n.func, ast.Name) and n.func.id == "len" and len(n.args) == 1 and not n.keywords and isinstance(n.args[0], (ast.List, ast.Tuple)) \
                    and not any(isinstance(x, ast.Starred) for x in n.args[0].elts):
                return ast.copy_location(ast.Constant(value=len(n.args[0].elts)), n)
            if isinstance(n.func, ast.Name) and n.func.id == "range" and len(n.args) == 1 and not n.keywords and isinstance(n.args[0], ast.Constant) \
                    and n.args[0].value in (0, 1) and type(n.args[0].value) is int:
                return ast.copy_location(ast.List(elts=[ast.Constant(value=i) for i in range(n.args[0].value)], ctx=ast.Load()), n)
            return n

        def visit_ListComp(self, n):
            self.generic_visit(n)
            if len(n.generators) == 1 and not n.generators[0].ifs and isinstance(n.generators[0].target, ast.Name) and isinstance(n.generators[0].iter, ast.List) \
                    and len(n.generators[0].iter.elts) <= 1 and all(isinstance(x, ast.Constant) for x in n.generators[0].iter.elts):
                t = n.generators[0].target.id
                out = []
                for c in n.generators[0].iter.elts:
                    class S(ast.NodeTransformer):
                        def visit_Name(self, m):
                            return ast.copy_location(ast.Constant(value=c.value), m) if m.id == t and isinstance(m.ctx, ast.Load) else m
                    out.append(E().visit(S().visit(_c.deepcopy(n.elt))))
                return ast.copy_location(ast.List(elts=out, ctx=ast.Load()), n)
            return n

    for _ in range(4):
        node = E().visit(node)
        stores = {}
        for n in ast.walk(node):
            if isinstance(n, ast.Name) and isinstance(n.ctx, (ast.Store, ast.Del)):
                stores.setdefault(n.id, []).append(n)
            elif isinstance(n, ast.arg):
                stores.setdefault(n.arg, []).append(n)
        consts, displays = {}, {}
        for st in node.body:
            if isinstance(st, ast.Assign) and len(st.targets) == 1 and isinstance(st.targets[0], ast.Name) and len(stores.get(st.targets[0].id, [])) == 1:
                if isinstance(st.value, ast.Constant) or (isinstance(st.value, ast.List) and not st.value.elts):
                    consts[st.targets[0].id] = st.value
                elif pure_display(st.value) and not any(isinstance(x, ast.Name) and len(stores.get(x.id, [])) > 1 for x in ast.walk(st.value)):
                    displays[st.targets[0].id] = st.value
        # a display of plain names is copied only where its length / its elements are asked for: `for x in names`, `len(names)`
        mutated = {n.func.value.id for n in ast.walk(node) if isinstance(n, ast.Call) and isinstance(n.func, ast.Attribute) and isinstance(n.func.value, ast.Name)
                   and n.func.attr in ("append", "extend", "insert", "pop", "remove", "clear", "sort", "reverse")}
        mutated |= {n.value.id for n in ast.walk(node) if isinstance(n, ast.Subscript) and isinstance(n.ctx, (ast.Store, ast.Del)) and isinstance(n.value, ast.Name)}

        class P(ast.NodeTransformer):
            def visit_Name(self, n):
                if isinstance(n.ctx, ast.Load) and n.id in consts and n.id not in mutated:
                    return ast.copy_location(_c.deepcopy(consts[n.id]), n)
                return n

            def visit_For(self, n):
                if isinstance(n.iter, ast.Name) and n.iter.id in displays and n.iter.id not in mutated:
                    n.iter = ast.copy_location(_c.deepcopy(displays[n.iter.id]), n.iter)
                self.generic_visit(n)
                return n

            def visit_Call(self, n):
                if isinstance(n.func, ast.Name) and n.func.id == "len" and len(n.args) == 1 and isinstance(n.args[0], ast.Name) and n.args[0].id in displays \
                        and n.args[0].id not in mutated:
                    return ast.copy_location(ast.Constant(value=len(displays[n.args[0].id].elts)), n)
                self.generic_visit(n)
                return n
        if consts or displays:
            node = P().visit(node)

        def truth(t):
            """True / False / None"""
            if isinstance(t, ast.Constant):
                return bool(t.value)
            if isinstance(t, ast.List) and not t.elts:
                return False
            if isinstance(t, ast.UnaryOp) and isinstance(t.op, ast.Not):
                v = truth(t.operand)
                return None if v is None else not v
            if isinstance(t, ast.BoolOp):
                vs = [truth(x) for x in t.values]
                if isinstance(t.op, ast.And):
                    return False if False in vs else (None if None in vs else True)
                return True if True in vs else (None if None in vs else False)
            if isinstance(t, ast.Compare) and len(t.ops) == 1 and isinstance(t.left, ast.Constant) and isinstance(t.comparators[0], ast.Constant):
                a, b, op = t.left.value, t.comparators[0].value, t.ops[0]
                try:
                    if isinstance(op, ast.Is):
                        return a is b if (a is None or b is None or isinstance(a, bool) or isinstance(b, bool)) else None
                    if isinstance(op, ast.IsNot):
                        return a is not b if (a is None or b is None or isinstance(a, bool) or isinstance(b, bool)) else None
                    if isinstance(op, ast.Eq):
                        return a == b
                    if isinstance(op, ast.NotEq):
                        return a != b
                    if isinstance(op, ast.Lt):
                        return a < b
                    if isinstance(op, ast.LtE):
                        return a <= b
                    if isinstance(op, ast.Gt):
                        return a > b
                    if isinstance(op, ast.GtE):
                        return a >= b
                except TypeError:
                    return None
            return None

        def unroll(st):
            """`for x in [e]: body` -> `x = e; body` (no break / continue of this loop, or a trailing `if c: break`); `for x in []` -> else."""
            if not (isinstance(st.iter, (ast.List, ast.Tuple)) and len(st.iter.elts) <= 1 and not any(isinstance(x, ast.Starred) for x in st.iter.elts)):
                return None
            if not st.iter.elts:
                return list(st.orelse)
            body = list(st.body)
            if body and isinstance(body[-1], ast.If) and not body[-1].orelse and len(body[-1].body) == 1 and isinstance(body[-1].body[0], (ast.Break, ast.Continue)) and not st.orelse:
                body = body[:-1]

            def own_jump(b):
                for x in b:
                    if isinstance(x, (ast.Break, ast.Continue)):
                        return True
                    if isinstance(x, (ast.For, ast.While, ast.FunctionDef, ast.ClassDef)):
                        continue
                    for fld in ("body", "orelse", "finalbody", "handlers"):
                        sub = getattr(x, fld, None)
                        if isinstance(sub, list) and sub and isinstance(sub[0], ast.excepthandler):
                            if any(own_jump(h.body) for h in sub):
                                return True
                        elif isinstance(sub, list) and sub and isinstance(sub[0], ast.stmt) and own_jump(sub):
                            return True
                return False
            if own_jump(body):
                return None
            tgt = _c.deepcopy(st.target)
            asg = ast.copy_location(ast.Assign(targets=[tgt], value=st.iter.elts[0]), st)
            return [asg] + body + list(st.orelse)

        def fold(block):
            out = []
            for st in block:
                if isinstance(st, ast.If):
                    v = truth(st.test)
                    if v is True:
                        out.extend(fold(st.body))
                        continue
                    if v is False:
                        out.extend(fold(st.orelse))
                        continue
                    st.body = fold(st.body) or [ast.copy_location(ast.Pass(), st)]
                    st.orelse = fold(st.orelse)
                elif isinstance(st, ast.For):
                    u = unroll(st)
                    if u is not None:
                        out.extend(fold(u))
                        continue
                    st.body = fold(st.body) or [ast.copy_location(ast.Pass(), st)]
                elif isinstance(st, (ast.While, ast.With)):
                    st.body = fold(st.body) or [ast.copy_location(ast.Pass(), st)]
                elif isinstance(st, ast.Try):
                    st.body = fold(st.body) or [ast.copy_location(ast.Pass(), st)]
                out.append(st)
                if isinstance(st, (ast.Return, ast.Raise)):
                    break
            return out
        node.body = fold(node.body) or [ast.Pass()]
        node.body = _prefix_constants(node.body, truth) or [ast.Pass()]
    ast.fix_missing_locations(node)
    return node


def _prefix_constants(body, truth):
    """Flow-sensitive part: a name assigned a constant keeps it, statement after statement, until something assigns it again;
    an `if` whose test this decides is replaced by the branch taken (`x = None` ... `if x is None or ...: x = make()`)."""
    import copy as _c

    def stores(st):
        return {n.id for n in ast.walk(st) if isinstance(n, ast.Name) and isinstance(n.ctx, (ast.Store, ast.Del))}

    def subst_expr(e, env):
        class P(ast.NodeTransformer):
            def visit_Name(self, n):
                if isinstance(n.ctx, ast.Load) and n.id in env:
                    return ast.copy_location(_c.deepcopy(env[n.id]), n)
                return n
        return P().visit(_c.deepcopy(e))

    def run(block, env):
        out = []
        for st in block:
            if isinstance(st, ast.If):
                v = truth(subst_expr(st.test, env)) if env else None
                if v is True:
                    out.extend(run(st.body, env))
                    continue
                if v is False:
                    out.extend(run(st.orelse, env))
                    continue
            if isinstance(st, ast.Assign) and len(st.targets) == 1 and isinstance(st.targets[0], ast.Name) and isinstance(st.value, ast.Constant):
                env[st.targets[0].id] = st.value
                out.append(st)
                continue
            for n in stores(st):
                env.pop(n, None)
            if isinstance(st, (ast.For, ast.While, ast.Try, ast.With, ast.If, ast.FunctionDef, ast.ClassDef)):
                # what a compound statement leaves behind is not followed
                pass
            out.append(st)
            if isinstance(st, (ast.Return, ast.Raise)):
                break
        return out
    return run(list(body), {})


def _cli_defaults(prog, f, node):
    """main() with every command-line option that the documented interface does not have read as its argparse default
    (`--board FILE` default None, `--count N` default 1, `--details` store_true = False), and the `if`s that this decides folded:
    the program as it runs when the new option is not given.  None when there is no such option."""
    doc = prog.CLI_DOCUMENTED[f.mod.name]
    ip = f.mod.funcs.get("init_parser")
    if ip is None:
        return None
    defaults = {}
    for c in ast.walk(ip.node):
        if not (isinstance(c, ast.Call) and isinstance(c.func, ast.Attribute) and c.func.attr == "add_argument"):
            continue
        kw = {k.arg: k.value for k in c.keywords if k.arg}
        flags = [a.value for a in c.args if isinstance(a, ast.Constant) and isinstance(a.value, str)]
        if len(flags) != len(c.args) or not flags:
            return None
        dest = None
        if "dest" in kw:
            if not (isinstance(kw["dest"], ast.Constant) and isinstance(kw["dest"].value, str)):
                return None
            dest = kw["dest"].value
        else:
            longs = [x for x in flags if x.startswith("--")]
            pos = [x for x in flags if not x.startswith("-")]
            dest = (longs[0][2:] if longs else (pos[0] if pos else flags[0].lstrip("-"))).replace("-", "_")
        if dest in doc:
            continue
        req = kw.get("required")
        if req is not None and not (isinstance(req, ast.Constant) and req.value is False):
            continue
        if not any(x.startswith("-") for x in flags):
            nargs = kw.get("nargs")
            if isinstance(nargs, ast.Constant) and nargs.value == "*" and "default" not in kw:
                defaults[dest] = []               # optional positionals: nothing given
            continue
        act = kw.get("action")
        actv = act.value if isinstance(act, ast.Constant) else ("store" if act is None else None)
        if actv == "store_true":
            val = False
        elif actv == "store_false":
            val = True
        elif actv in ("store", "append", "extend", "count"):
            d = kw.get("default")
            if d is None:
                val = None
            else:
                ok, val = prog.try_const(d, f.mod)
                if not ok or not (val is None or isinstance(val, (bool, int, float, str))):
                    continue
        else:
            continue
        defaults[dest] = val
    if not defaults:
        return None
    spaces = set()
    for n in ast.walk(node):
        if isinstance(n, ast.Assign) and isinstance(n.value, ast.Call) and isinstance(n.value.func, ast.Attribute) and n.value.func.attr in ("parse_args", "parse_known_args"):
            spaces.update(t.id for t in n.targets if isinstance(t, ast.Name))
    if not spaces:
        return None
    hit = [False]

    def lit(v, at):
        e = ast.List(elts=[], ctx=ast.Load()) if v == [] else ast.Constant(value=v)
        return ast.copy_location(e, at)

    class A(ast.NodeTransformer):
        def visit_Attribute(self, n):
            self.generic_visit(n)
            if isinstance(n.ctx, ast.Load) and isinstance(n.value, ast.Name) and n.value.id in spaces and n.attr in defaults:
                hit[0] = True
                return lit(defaults[n.attr], n)
            return n
    node = A().visit(node)
    if not hit[0]:
        return None
    node = _fold_static(node)
    node.decorator_list = []
    ast.fix_missing_locations(node)
    return node


# ---- generic AST helpers -----------------------------------------------------

def enclosing(node, types):
    n = getattr(node, "parent", None)
    while n is not None:
        if isinstance(n, types):
            return n
        n = getattr(n, "parent", None)
    return None


def walk_no_nested_defs(node):
    """ast.walk that does not descend into nested function/class definitions
    (other than the root itself)."""
    todo = list(ast.iter_child_nodes(node))
    while todo:
        n = todo.pop()
        yield n
        if isinstance(n, (ast.FunctionDef, ast.AsyncFunctionDef, ast.ClassDef, ast.Lambda)):
            continue
        todo.extend(ast.iter_child_nodes(n))


def walk_code(node):
    """Like walk_no_nested_defs but descends into lambdas and nested function definitions: everything that can run as
    part of this function (code of nested classes is still skipped)."""
    todo = list(ast.iter_child_nodes(node))
    while todo:
        n = todo.pop()
        yield n
        if isinstance(n, ast.ClassDef):
            continue
        todo.extend(ast.iter_child_nodes(n))


def possible_strings(prog, f, node):
    """Set of strings an expression used as an attribute / method name can take, or None if not determined:
    a constant, or a name bound by a for-loop / comprehension over a constant sequence (directly, through zip() at the
    name's position, or through a sequence of constant tuples)."""
    ok, v = prog.try_const(node, f.mod)
    if ok:
        return {v} if isinstance(v, str) else None
    if not isinstance(node, ast.Name):
        return None
    out = set()
    found = False
    # the binding that governs this use: the innermost enclosing loop / comprehension that binds the name
    def binds(n_):
        tgt_ = n_.target if isinstance(n_, (ast.For, ast.comprehension)) else None
        return tgt_ is not None and any(isinstance(x, ast.Name) and x.id == node.id for x in ast.walk(tgt_))
    anc = getattr(node, "parent", None)
    enclosing = None
    while anc is not None and anc is not f.node:
        if isinstance(anc, ast.For) and binds(anc) and not any(node is x for x in ast.walk(anc.iter)):
            enclosing = anc
            break
        if isinstance(anc, (ast.ListComp, ast.GeneratorExp, ast.SetComp, ast.DictComp)):
            hit = [g_ for g_ in anc.generators if binds(g_)]
            if hit:
                enclosing = hit[-1]
                break
        anc = getattr(anc, "parent", None)
    for n in ([enclosing] if enclosing is not None else walk_code(f.node)):
        tgt = it = None
        if isinstance(n, ast.For):
            tgt, it = n.target, n.iter
        elif isinstance(n, ast.comprehension):
            tgt, it = n.target, n.iter
        if tgt is None:
            continue
        pos = None
        if isinstance(tgt, ast.Name) and tgt.id == node.id:
            pos = ()
        elif isinstance(tgt, (ast.Tuple, ast.List)):
            for i, e in enumerate(tgt.elts):
                if isinstance(e, ast.Name) and e.id == node.id:
                    pos = (i,)
        if pos is None:
            if any(isinstance(x, ast.Name) and x.id == node.id for x in ast.walk(tgt)):
                return None
            continue
        found = True
        seq = it
        if pos and isinstance(it, ast.Call) and isinstance(it.func, ast.Name) and it.func.id == "zip" and len(it.args) > pos[0]:
            seq, pos = it.args[pos[0]], ()
        ok, v = prog.try_const(seq, f.mod)
        if not ok or not isinstance(v, (tuple, list)):
            return None
        for x in v:
            if pos:
                if not isinstance(x, (tuple, list)) or len(x) <= pos[0]:
                    return None
                x = x[pos[0]]
            if not isinstance(x, str):
                return None
            out.add(x)
    if enclosing is not None:
        return out if found else None
    # any other binding of the name makes the set unknown
    for n in walk_code(f.node):
        if isinstance(n, ast.Name) and n.id == node.id and isinstance(n.ctx, ast.Store):
            par = getattr(n, "parent", None)
            while par is not None and not isinstance(par, (ast.For, ast.comprehension, ast.stmt)):
                par = getattr(par, "parent", None)
            if not isinstance(par, (ast.For, ast.comprehension)):
                return None
    if node.id in f.params or node.id in f.kwonly:
        return None
    return out if found else None


def resolve_test_name(func_node, test):
    """`flag = <expr>` followed by `if flag:` (or `if not flag:`): returns <expr> (negated accordingly) when `test` is such a name
    with exactly one assignment in the function, that assignment being the statement just before the `if` in the same block;
    otherwise returns `test` unchanged."""
    neg = False
    t = test
    if isinstance(t, ast.UnaryOp) and isinstance(t.op, ast.Not) and isinstance(t.operand, ast.Name):
        neg, t = True, t.operand
    if not isinstance(t, ast.Name):
        return test
    stores = [x for x in ast.walk(func_node) if isinstance(x, ast.Name) and x.id == t.id and isinstance(x.ctx, ast.Store)]
    if len(stores) != 1:
        return test
    d = getattr(stores[0], "parent", None)
    if not (isinstance(d, ast.Assign) and len(d.targets) == 1 and d.targets[0] is stores[0]):
        return test
    ifst = getattr(test, "parent", None)
    blk_owner = getattr(d, "parent", None)
    if ifst is None or blk_owner is None or getattr(ifst, "parent", None) is not blk_owner:
        return test
    for blk in ("body", "orelse", "finalbody"):
        seq = getattr(blk_owner, blk, None)
        if isinstance(seq, list) and d in seq and ifst in seq and seq.index(ifst) == seq.index(d) + 1:
            return ast.UnaryOp(op=ast.Not(), operand=d.value) if neg else d.value
    return test


def attr_path(node):
    """'self.next_states' for Attribute(Name self, next_states); None if not a pure path."""
    parts = []
    n = node
    while isinstance(n, ast.Attribute):
        parts.append(n.attr)
        n = n.value
    if isinstance(n, ast.Name):
        parts.append(n.id)
        return ".".join(reversed(parts))
    return None


def call_name(call):
    """Name of the called thing: 'foo', 'x.append', 'logging.info'."""
    f = call.func
    if isinstance(f, ast.Name):
        return f.id
    if isinstance(f, ast.Attribute):
        p = attr_path(f)
        return p if p else "?." + f.attr
    return "?"


def is_logging_call(node):
    if isinstance(node, ast.Expr):
        node = node.value
    return isinstance(node, ast.Call) and call_name(node).startswith("logging.")


def norm_stmt(node):
    """Normalised one-line statement text (used as a stable key, never line numbers)."""
    s = src(node).strip().split("\n")[0]
    return " ".join(s.split())
