#!/usr/bin/env python
"""
Equivalence / property test for property C11 (generator -> reader -> solver).

usage: python equiv_test.py <path-to-patched-root> <path-to-clean-root>

Both trees are exercised in SEPARATE subprocesses (this very file is re-run with
--worker), each in its own scratch directory, on the same list of cases:

  * many accepted parameter sets of the generator (through main() with a
    patched sys.argv, and a few through a real `python roberta_generator.py`),
    including the boundaries: width 1, length 1, 1x1, max reward 1, seed 0,
    huge seed, tiny and near-1 probabilities, force_down on/off, big boards;
  * rejected parameter sets (must be rejected the same way, no file written);
  * boards passed in by hand through stochastic_game_from_roborta_board;
  * the writer functions called directly on an in-memory file.

For every written file the worker records the bytes, and checks the property
itself: the reader loads exactly game_a, game_b, game_c; every game passes the
solver's validation; every state has a transition; probabilities are positive
and sum to 1; the only final state is the absorbing winning state; the losing
state is absorbing; and run_games either solves a game or reports no solution.

The parent compares the two records: PASS iff they are identical and the
property checks found nothing in either tree.
"""
import hashlib
import io
import json
import math
import os
import random
import subprocess
import sys
import tempfile

# The solver is run on boards of up to SOLVE_MAX_TILES tiles whose three failure
# probabilities lie in SOLVE_PROB_RANGE: value iteration needs of the order of
# 1/probability sweeps, so the extreme probabilities (1e-12, 1-1e-9 ...) are only
# checked structurally (their files are still compared byte for byte).
SOLVE_MAX_TILES = 12
SOLVE_PROB_RANGE = (0.02, 0.9)
SOLVE_TIME_LIMIT = 120      # seconds, safety net; a file that hits it is not solved
MSG_OK = ("Game solved", "Game not solved")


# --------------------------------------------------------------------------- cases
def build_cases():
    rnd = random.Random(20241004)
    cli = []

    def add(seed=0, width=3, length=3, p=0.1, q=0.1, r=0.1, t=0.3, m=6, f=False):
        cli.append(dict(seed=seed, width=width, length=length, p=p, q=q, r=r, t=t, m=m, f=f))

    # boundaries
    for f in (False, True):
        add(f=f)
        add(width=1, length=1, f=f)
        add(width=1, length=1, m=1, seed=1, f=f)
        add(width=1, length=2, seed=1, f=f)
        add(width=2, length=1, seed=1, f=f)
        add(width=1, length=7, seed=5, f=f)
        add(width=7, length=1, seed=5, f=f)
        add(width=2, length=2, seed=1, q=0.05, t=0.001, f=f)
        add(width=3, length=3, seed=999132423, p=0.01, q=0.02, f=f)
        add(width=3, length=2, seed=2**63 + 11, f=f)
        add(width=2, length=3, p=1e-9, q=1e-12, r=1e-300, t=1e-6, f=f)
        add(width=2, length=3, p=1 - 1e-9, q=1 - 1e-12, r=1 - 1e-16, t=1 - 1e-6, f=f)
        add(width=3, length=2, p=0.999999, q=5e-324, r=0.5, t=0.999999, seed=3, f=f)
        add(width=3, length=2, r=0.3, t=0.99, seed=4, f=f)      # 1-0.3 is not 0.7 exactly
        add(width=2, length=2, p=1 / 3, q=2 / 3, r=0.1 + 0.2, t=0.5, m=1, seed=8, f=f)
        add(width=2, length=2, m=1000, seed=9, f=f)
        add(width=40, length=10, seed=47, f=f)                   # 400 tiles, files only
        add(width=20, length=10, seed=40, f=f)
        add(width=5, length=5, seed=47, f=f)
    # random parameter sets
    for k in range(150):
        width = rnd.choice([1, 1, 2, 2, 3, 3, 4, 5, 6, 9])
        length = rnd.choice([1, 1, 2, 2, 3, 3, 4, 5, 6, 9])
        def prob():
            kind = rnd.random()
            if kind < 0.08:
                return 10.0 ** -rnd.randint(3, 30)
            if kind < 0.16:
                return 1 - 10.0 ** -rnd.randint(3, 15)
            if kind < 0.30:
                return rnd.random() or 0.5
            return round(rnd.uniform(0.02, 0.9), rnd.choice([2, 3, 17]))
        add(seed=rnd.choice([0, 1, k, rnd.randrange(10**9)]), width=width, length=length,
            p=prob(), q=prob(), r=prob(), t=prob(), m=rnd.choice([1, 2, 3, 6, 6, 20]),
            f=rnd.random() < 0.5)

    rejected = [
        dict(seed=-1), dict(width=0), dict(width=-3), dict(length=0), dict(length=-1),
        dict(p=0.0), dict(p=1.0), dict(p=-0.1), dict(p=1.5), dict(q=0.0), dict(q=1.0),
        dict(r=0.0), dict(r=1.0), dict(t=0.0), dict(t=1.0), dict(m=0), dict(m=-2),
        dict(seed=-1, width=0), dict(width=0, f=True),
    ]

    # boards by hand (moves, rewards, loose_tiles, prob_robot, prob_light, prob_tile)
    manual = [
        ([[1]], [[0]], [[0]], 0.1, 0.1, 0.1),
        ([[3]], [[2]], [[1]], 0.1, 0.1, 0.1),
        ([[0]], [[5]], [[1]], 0.25, 0.5, 0.75),
        ([[1, 0, 2]], [[1, 2, 3]], [[0, 1, 0]], 0.1, 0.05, 0.1),
        ([[1], [0], [2]], [[1], [2], [3]], [[0], [1], [0]], 0.1, 0.05, 0.1),
        ([[1, 1], [1, 1]], [[0, 0], [0, 0]], [[1, 1], [1, 1]], 0.3, 0.3, 0.3),
        ([[3, 3], [3, 3]], [[4, 0], [0, 4]], [[0, 0], [0, 0]], 0.3, 0.3, 0.3),
        ([[0, 0], [2, 2]], [[1, 0], [0, 1]], [[0, 1], [1, 0]], 1e-7, 1 - 1e-7, 0.5),
        ([[1, 3, 1, 0], [2, 1, 3, 1], [1, 1, 1, 3], [3, 0, 2, 1]],
         [[0, 1, 2, 5], [1, 0, 0, 3], [2, 2, 1, 0], [0, 0, 4, 1]],
         [[0, 1, 0, 0], [1, 0, 0, 1], [0, 0, 1, 0], [0, 1, 0, 0]], 0.1, 0.1, 0.1),
        # rewards that are not ints, loose tiles given as booleans
        ([[1, 2], [0, 1]], [[0.5, 2.0], [1.25, 3]], [[True, False], [False, True]],
         0.2, 0.4, 0.6),
    ]
    for k in range(40):
        width, length = rnd.randint(1, 4), rnd.randint(1, 4)
        top = rnd.choice([2, 3])
        manual.append((
            [[rnd.randint(0, top) for _ in range(width)] for _ in range(length)],
            [[rnd.randint(0, 6) for _ in range(width)] for _ in range(length)],
            [[rnd.randint(0, 1) for _ in range(width)] for _ in range(length)],
            rnd.uniform(0.02, 0.9), rnd.uniform(0.02, 0.9), rnd.uniform(0.02, 0.9)))

    # a few parameter sets run as a real command line
    real = [dict(), dict(width=1, length=1), dict(width=2, length=3, f=True, seed=7),
            dict(width=4, length=2, p=0.015, q=0.985, r=0.5, t=0.5, m=2, seed=12)]
    return dict(cli=cli, rejected=rejected, manual=manual, real=real)


def argv_of(case):
    names = dict(seed="--seed", width="--width", length="--length", p="--prob_robot_break",
                 q="--prob_light_break", r="--prob_tile_break", t="--prob_loose_tile",
                 m="--max_reward")
    argv = []
    for key, value in case.items():
        if key == "f":
            if value:
                argv.append("--force_down")
        elif key in names:
            argv += [names[key], repr(value)]
        else:                       # options that only the patched tree knows
            argv += value
    return argv


# --------------------------------------------------------------------------- worker
def check_games(games, problems, where):
    """The property, checked on the loaded dictionary of games."""
    from tad import StochasticGame, PLAYER_1, PLAYER_2, PROBABILISTIC
    if not isinstance(games, dict) or list(games) != ["game_a", "game_b", "game_c"]:
        problems.append(f"{where}: the file does not hold exactly game_a, game_b, game_c")
        return
    for name, game in games.items():
        tag = f"{where}/{name}"
        if sorted(game) != ["final_states", "players", "rewards", "transition_list"]:
            problems.append(f"{tag}: unexpected keys {sorted(game)}")
            continue
        try:
            sgame = StochasticGame(**game)
            sgame.check_game()
            sgame.init_states()
        except Exception as error:             # noqa
            problems.append(f"{tag}: validation failed: {error!r}")
            continue
        n = len(game["players"])
        win, lose = n - 1, n - 2
        if game["final_states"] != [win]:
            problems.append(f"{tag}: final states are {game['final_states']}")
        for idx, (player, transitions) in enumerate(zip(game["players"], game["transition_list"])):
            if not isinstance(transitions, list) or not transitions:
                problems.append(f"{tag}: state {idx} has no transition")
                continue
            if player == PROBABILISTIC:
                probs = [tr[0] for tr in transitions]
                if any(isinstance(pr, bool) or not pr > 0 for pr in probs):
                    problems.append(f"{tag}: state {idx} has a non positive probability")
                if not math.isclose(sum(probs), 1.0, rel_tol=0, abs_tol=1e-12):
                    problems.append(f"{tag}: state {idx} probabilities sum to {sum(probs)}")
            elif player not in (PLAYER_1, PLAYER_2):
                problems.append(f"{tag}: state {idx} has player {player}")
        for idx, what in ((win, "winning"), (lose, "losing")):
            if game["players"][idx] != PROBABILISTIC or game["transition_list"][idx] != [(1, idx)]:
                problems.append(f"{tag}: the {what} state is not absorbing")


def solve_games(games, problems, where):
    import conditionalrewards
    results = conditionalrewards.run_games(games)
    summary = {}
    for name, result in results.items():
        msg = result["msg"]
        if msg not in MSG_OK and not msg.startswith("Error while solving the game: "):
            problems.append(f"{where}/{name}: unexpected outcome {msg}")
        summary[name] = {key: value for key, value in result.items() if key != "total_time"}
    if list(results) != [g + s for g in ("game_a", "game_b", "game_c") for s in ("", "_no_prune")]:
        problems.append(f"{where}: results for {list(results)}")
    return repr(summary)


class TooSlow(Exception):
    pass


def too_slow(signum, frame):
    raise TooSlow()


def solvable(tiles, probabilities):
    low, high = SOLVE_PROB_RANGE
    return tiles <= SOLVE_MAX_TILES and all(low <= pr <= high for pr in probabilities)


def inspect_file(path, solve, record, problems, where):
    import conditionalrewards
    import signal
    with open(path, "rb") as handle:
        raw = handle.read()
    record["file"] = os.path.basename(path)
    record["sha"] = hashlib.sha256(raw).hexdigest()
    record["size"] = len(raw)
    try:
        games = conditionalrewards.read_dict_from_file(path)
    except Exception as error:                 # noqa
        problems.append(f"{where}: the reader failed: {error!r}")
        return
    # the loaded games, not only the bytes (game-for-game comparison)
    record["games_sha"] = hashlib.sha256(repr(games).encode()).hexdigest()
    check_games(games, problems, where)
    if solve:
        signal.signal(signal.SIGALRM, too_slow)
        signal.alarm(SOLVE_TIME_LIMIT)
        try:
            record["solved"] = hashlib.sha256(
                solve_games(games, problems, where).encode()).hexdigest()
        except TooSlow:
            SLOW.append(where)
        except Exception as error:             # noqa
            problems.append(f"{where}: run_games raised {error!r}")
        finally:
            signal.alarm(0)


SLOW = []


def extra_cases(cases, out, problems, scratch):
    """
    Only in the patched tree: the new formatter against the old chain of
    str.replace() calls, on random game dictionaries built from the vocabulary
    of the generator (also shapes the generator never produces: states without
    transitions, float rewards, several final states).
    """
    import roberta_generator as gen
    if not hasattr(gen, "iter_game_chunks"):
        return
    rnd = random.Random(7)
    labels = ["Green", "Yellow", "Down", "Left", "Right", "Etha"]
    for number in range(400):
        n = rnd.randint(1, 12)
        transition_list = []
        for state in range(n):
            k = rnd.choice([0, 1, 1, 2, 3]) if number % 4 == 0 else rnd.randint(1, 3)
            if rnd.random() < 0.5:
                transition_list.append([(rnd.choice(labels), rnd.randrange(n)) for _ in range(k)])
            else:
                transition_list.append([(rnd.choice([1, 0.1, 1 - 0.1, 1e-300, 5e-324, 1 / 3]),
                                         rnd.randrange(n)) for _ in range(k)])
        game = {
            "rewards": [rnd.choice([0, 1, 6, 2.5, 10**30]) for _ in range(n)],
            "players": [rnd.choice(["Player 1", "Player 2", "Probabilistic"]) for _ in range(n)],
            "transition_list": transition_list,
            "final_states": [rnd.randrange(n) for _ in range(rnd.randint(1, 2))],
        }
        expected = (str(game).replace("[[", "[\n[").replace("], ", "],\n")
                    .replace("[(", gen.SIXTEEN_SPACES + "[(")
                    .replace("\n'", "\n" + gen.TWELVE_SPACES + "'"))
        if "".join(gen.iter_game_chunks(game)) != expected:
            problems.append(f"formatter[{number}]: text differs from the replace chain")


def worker(root, spec_path, out_path):
    sys.path.insert(0, root)
    scratch = tempfile.mkdtemp(prefix="c11_")
    os.chdir(scratch)
    os.mkdir("inputs")
    os.mkdir("outputs")
    import roberta_generator
    import stochastic_game_from_roborta_board as manual_entry
    assert os.path.dirname(os.path.abspath(roberta_generator.__file__)) == os.path.abspath(root)
    with open(spec_path) as handle:
        cases = json.load(handle)
    out = dict(cli=[], rejected=[], manual=[], real=[], direct=[])
    problems = []

    def listing():
        return sorted(os.listdir("inputs"))

    def clean():
        for name in listing():
            os.remove(os.path.join("inputs", name))

    for number, case in enumerate(cases["cli"]):
        where = f"cli[{number}] {case}"
        record = {}
        clean()
        sys.argv = ["roberta_generator.py"] + argv_of(case)
        try:
            roberta_generator.main()
        except BaseException as error:          # noqa
            problems.append(f"{where}: not accepted: {error!r}")
            out["cli"].append(record)
            continue
        files = listing()
        record["files"] = files
        if len(files) != 1:
            problems.append(f"{where}: {len(files)} files written")
        else:
            inspect_file(os.path.join("inputs", files[0]),
                         solvable(case["width"] * case["length"],
                                  [case["p"], case["q"], case["r"]]),
                         record, problems, where)
        out["cli"].append(record)

    for number, case in enumerate(cases["rejected"]):
        clean()
        sys.argv = ["roberta_generator.py"] + argv_of(case)
        try:
            roberta_generator.main()
            outcome = "accepted"
        except BaseException as error:          # noqa
            outcome = f"{type(error).__name__}: {error}"
        out["rejected"].append(dict(outcome=outcome, files=listing()))

    for number, (moves, rewards, loose, p_robot, p_light, p_tile) in enumerate(cases["manual"]):
        where = f"manual[{number}]"
        record = {}
        clean()
        before = repr((moves, rewards, loose))
        try:
            manual_entry.create_sg_from_board(moves, rewards, loose, p_robot, p_light, p_tile)
        except BaseException as error:          # noqa
            problems.append(f"{where}: raised {error!r}")
            out["manual"].append(record)
            continue
        if repr((moves, rewards, loose)) != before:
            problems.append(f"{where}: the board passed in was modified")
        files = listing()
        record["files"] = files
        if len(files) != 1:
            problems.append(f"{where}: {len(files)} files written")
        else:
            inspect_file(os.path.join("inputs", files[0]),
                         solvable(len(moves) * len(moves[0]), [p_robot, p_light, p_tile]),
                         record, problems, where)
        out["manual"].append(record)

    for number, case in enumerate(cases["real"]):
        where = f"real[{number}] {case}"
        record = {}
        clean()
        done = subprocess.run(
            [sys.executable, os.path.join(root, "roberta_generator.py")] + argv_of(case),
            capture_output=True, text=True)
        record["rc"], record["stdout"], record["stderr"] = done.returncode, done.stdout, done.stderr
        files = listing()
        record["files"] = files
        if done.returncode != 0 or len(files) != 1:
            problems.append(f"{where}: rc {done.returncode}, files {files}")
        else:
            inspect_file(os.path.join("inputs", files[0]),
                         solvable(case.get("width", 3) * case.get("length", 3),
                                  [case.get(key, 0.1) for key in "pqr"]),
                         record, problems, where)
        out["real"].append(record)

    # the writer functions called directly on an in-memory file
    for seed, length, width, force in [(0, 1, 1, False), (1, 2, 3, True), (2, 3, 2, False),
                                       (3, 1, 4, True), (4, 4, 1, False)]:
        moves, rewards, loose = roberta_generator.gen_rnd_board(seed, length, width, 0.4, 3, force)
        buffer = io.StringIO()
        roberta_generator.write_preamble(buffer, length, width, moves, rewards, loose)
        roberta_generator.write_robot_A(buffer, length, width, moves, rewards, loose, 0.2)
        roberta_generator.write_robot_B(buffer, length, width, moves, rewards, loose, 0.2, 0.3)
        roberta_generator.write_robot_C(buffer, length, width, moves, rewards, loose, 0.2, 0.3, 0.4)
        text = buffer.getvalue()
        out["direct"].append(text)
        try:
            check_games(eval(text), problems, f"direct[{seed}]")
        except Exception as error:             # noqa
            problems.append(f"direct[{seed}]: not evaluable: {error!r}")

    extra_cases(cases, out, problems, scratch)
    clean()
    with open(out_path, "w") as handle:
        json.dump(dict(out=out, problems=problems, slow=SLOW), handle)


# --------------------------------------------------------------------------- parent
def run_tree(root, spec_path, label, tmp):
    out_path = os.path.join(tmp, f"{label}.json")
    env = dict(os.environ, PYTHONDONTWRITEBYTECODE="1", PYTHONHASHSEED="0")
    done = subprocess.run([sys.executable, os.path.abspath(__file__), "--worker",
                           os.path.abspath(root), spec_path, out_path],
                          capture_output=True, text=True, env=env)
    if done.returncode != 0:
        print(f"FAIL: the worker for the {label} tree crashed\n{done.stdout}\n{done.stderr}")
        sys.exit(1)
    with open(out_path) as handle:
        return json.load(handle)


def compare(patched, clean, failures):
    for section in clean["out"]:
        a, b = patched["out"].get(section), clean["out"][section]
        if len(a) != len(b):
            failures.append(f"{section}: {len(a)} records against {len(b)}")
            continue
        for number, (x, y) in enumerate(zip(a, b)):
            if x != y:
                failures.append(f"{section}[{number}] differs:\n   patched {str(x)[:300]}\n"
                                f"   clean   {str(y)[:300]}")


def main():
    if len(sys.argv) >= 2 and sys.argv[1] == "--worker":
        worker(*sys.argv[2:5])
        return
    if len(sys.argv) != 3:
        print(__doc__)
        sys.exit(2)
    patched_root, clean_root = sys.argv[1:3]
    with tempfile.TemporaryDirectory() as tmp:
        spec_path = os.path.join(tmp, "cases.json")
        cases = build_cases()
        with open(spec_path, "w") as handle:
            json.dump(cases, handle)
        patched = run_tree(patched_root, spec_path, "patched", tmp)
        clean = run_tree(clean_root, spec_path, "clean", tmp)
    failures = []
    for label, tree in (("patched", patched), ("clean", clean)):
        for problem in tree["problems"]:
            failures.append(f"[{label}] property: {problem}")
    compare(patched, clean, failures)
    counts = ", ".join(f"{len(v)} {k}" for k, v in clean["out"].items())
    solved = sum("solved" in record for section in patched["out"].values()
                 for record in section if isinstance(record, dict))
    counts += f"; {solved} files also solved, {len(patched['slow'])} gave up as too slow"
    if failures:
        print(f"FAIL ({len(failures)} findings; cases: {counts})")
        for failure in failures[:40]:
            print(" -", failure)
        sys.exit(1)
    print(f"PASS (cases: {counts}; files byte-identical, games identical, "
          f"solver outcomes identical, property checks clean in both trees)")


if __name__ == "__main__":
    main()
