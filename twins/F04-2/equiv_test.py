#!/usr/bin/env python
"""
Equivalence test for property C04 (reachability strategies list exactly the
value-optimal actions).

usage: python equiv_test.py <path-to-patched-root> <path-to-clean-root>

The same deterministic corpus of probes is run against both trees, each in its
own subprocess (the module names are the same).  Every observable is recorded
with repr() (so 1 and 1.0, 0.3 and 0.30000000000000004 are told apart) and the
two records are compared entry by entry.  The patched tree is additionally
checked against an independent oracle of the property itself.

Probes
  A. several hundred random well-formed games (cycles, several finals, dead
     states, ties built from different floating-point sums, Player 2 states
     with several actions, all-zero successors), solved with pruning on and
     off through StochasticGame.solve(); all eight outputs are compared, or the
     type and text of the exception.
  B. the same through conditionalrewards.run_games() for a part of the corpus.
  C. node level: the four strategy getters called directly on hand-made state
     lists with chosen successor values (ints and floats, 0.1+0.2 against 0.3,
     values a hair above 1, negative values, nan, inf, every rounding precision
     0..9, repeated actions, empty transition lists after pruning).
  D. solver level: Solver driven step by step, strategies asked again after a
     value has been changed by hand (stale state), total rewards solved twice,
     node steps called directly after the solve, and again after a reach
     probability has been changed by hand.
  E. the complete sequence of log lines (DEBUG level active) of whole solves.
  F. the example files of inputs/ (the small and medium ones) through run_games.
  Checks on the patched tree alone: the oracle of the property; when a getter
  accepts a table of precomputed rounded values, the result with the table is
  the result without it; no Player 2 node keeps a remembered action list after
  the total rewards iteration has returned or has been interrupted.
"""
import json
import os
import random
import subprocess
import sys
import tempfile

P1, P2, PR = "Player 1", "Player 2", "Probabilistic"


# --------------------------------------------------------------------------
# corpus
# --------------------------------------------------------------------------

def split_probability(rng, total_tenths):
    """Splits total_tenths/10 into 1..3 float parts (different float sums)."""
    parts = []
    left = total_tenths
    while left > 0:
        k = rng.randint(1, left) if len(parts) < 2 else left
        parts.append(k)
        left -= k
    return [p / 10 for p in parts]


def random_game(rng, idx):
    """
        A random well-formed game whose value iterations converge: the sinks
        (final and dead states) are absorbing with reward 0, every other
        probabilistic state moves to a sink with probability >= 0.1, and the
        player states only move to probabilistic states, sinks or later player
        states, so every cycle passes through a leaking probabilistic state.
    """
    n = rng.randint(2, 13)
    n_final = rng.randint(1, min(3, n - 1))
    finals = sorted(rng.sample(range(1, n), n_final))
    free = [s for s in range(1, n) if s not in finals]
    dead = sorted(rng.sample(free, rng.randint(0, min(2, len(free))))) if free else []
    sinks = finals + dead
    style = idx % 4
    players = []
    for s in range(n):
        if s in sinks:
            players.append(PR if rng.random() < 0.8 else rng.choice([P1, P2]))
        elif s == 0 and rng.random() < 0.6:
            players.append(P1)
        else:
            players.append(rng.choice([P1, P2, PR, PR] if style else [P1, P2, P2, PR]))
    prob_states = [s for s in range(n) if players[s] == PR and s not in sinks]
    transitions, rewards = [], []
    for s in range(n):
        kind = players[s]
        if s in sinks:
            rewards.append(0)
            transitions.append([(1, s)] if kind == PR else [("stay", s)])
            continue
        rewards.append(rng.choice([0, 0, 1, 2, 5, 10, 0.5]))
        k = rng.randint(1, 4)
        if kind == PR:
            if style in (0, 1):
                # tenths, split in different ways: equal rationals, different float sums
                targets = []
                left = 10
                for j in range(k):
                    t = left if j == k - 1 else rng.randint(1, max(1, left - (k - 1 - j)))
                    targets.append(t)
                    left -= t
                    if left <= 0:
                        break
                trans = []
                for j, t in enumerate(targets):
                    dest = rng.choice(sinks) if j == 0 else rng.randrange(n)
                    for part in split_probability(rng, t):
                        trans.append((part, dest))
                rng.shuffle(trans)
                transitions.append(trans)
            else:
                leak = rng.choice([0.1, 0.25, 0.5, rng.uniform(0.1, 0.9)])
                ws = [rng.choice([rng.random(), 1e-9, 1e-6, 1.0, 3.0]) for _ in range(k)]
                tot = sum(ws)
                trans = [(w / tot * (1 - leak), rng.randrange(n)) for w in ws]
                trans.insert(rng.randint(0, len(trans)), (leak, rng.choice(sinks)))
                transitions.append(trans)
        else:
            pool = prob_states + sinks + [t for t in range(s + 1, n) if players[t] != PR]
            if rng.random() < 0.3:
                pool = sinks  # all-zero / all-one successors
            transitions.append([(f"a{j}", rng.choice(pool)) for j in range(k)])
    return {"rewards": rewards, "players": players,
            "transition_list": transitions, "final_states": finals}


def handmade_games():
    games = {}
    # P1 and P2 choosing between equal rationals reached by different sums
    games["tie_sums"] = {
        "rewards": [0, 1, 2, 3, 0, 0, 0],
        "players": [P1, P2, PR, PR, PR, PR, PR],
        "transition_list": [
            [("a", 2), ("b", 3), ("c", 4), ("d", 1)],
            [("x", 2), ("y", 3), ("z", 5)],
            [(0.1, 5), (0.2, 5), (0.7, 6)],
            [(0.3, 5), (0.7, 6)],
            [(0.1, 5), (0.1, 5), (0.1, 5), (0.7, 6)],
            [(1, 5)],
            [(1, 6)]],
        "final_states": [5]}
    # every successor has value zero
    games["all_zero"] = {
        "rewards": [1, 1, 1, 0, 0],
        "players": [P1, P1, P2, PR, PR],
        "transition_list": [
            [("go", 4), ("l", 1), ("r", 2)],
            [("a", 3), ("b", 3)],
            [("a", 3), ("b", 3), ("c", 1)],
            [(1, 3)],
            [(1, 4)]],
        "final_states": [4]}
    # initial state cannot reach: error with pruning, solved without
    games["start_dead"] = {
        "rewards": [1, 0, 0],
        "players": [P2, PR, PR],
        "transition_list": [[("a", 1), ("b", 1)], [(1, 1)], [(1, 2)]],
        "final_states": [2]}
    # cycle between the players, values converge from below
    games["cycle"] = {
        "rewards": [0, 1, 0, 2, 0, 0],
        "players": [P1, PR, P2, PR, PR, PR],
        "transition_list": [
            [("a", 1), ("b", 3), ("c", 2)],
            [(0.5, 0), (0.25, 4), (0.25, 5)],
            [("x", 1), ("y", 3), ("w", 0)],
            [(0.5, 2), (0.25, 4), (0.25, 5)],
            [(1, 4)],
            [(1, 5)]],
        "final_states": [4]}
    # single action states, final state with a strategy, the start is final
    games["single_and_final"] = {
        "rewards": [0, 0, 0],
        "players": [P1, P2, P1],
        "transition_list": [[("a", 1)], [("x", 2)], [("s", 2), ("t", 0)]],
        "final_states": [0, 2]}
    # values closer than the rounding step but not equal, and far apart
    games["near_and_far"] = {
        "rewards": [0, 0, 0, 0, 0, 0, 0],
        "players": [P1, P2, PR, PR, PR, PR, PR],
        "transition_list": [
            [("a", 2), ("b", 3), ("c", 4)],
            [("x", 2), ("y", 3), ("z", 4)],
            [(0.5, 5), (0.5, 6)],
            [(0.5000001, 5), (0.4999999, 6)],
            [(0.6, 5), (0.4, 6)],
            [(1, 5)],
            [(1, 6)]],
        "final_states": [5]}
    # two actions with the same name (not well formed, kept identical anyway)
    games["same_name"] = {
        "rewards": [0, 0, 0],
        "players": [P1, PR, PR],
        "transition_list": [[("a", 1), ("a", 2), ("a", 1)], [(1, 1)], [(1, 2)]],
        "final_states": [1]}
    return games


def build_corpus():
    rng = random.Random(20240404)
    games = handmade_games()
    for i in range(700):
        games[f"rnd{i}"] = random_game(rng, i)
    return games


def node_probes():
    """(values, successor indexes) for the node level probes."""
    nan, inf = float("nan"), float("inf")
    value_sets = [
        [0, 0, 0],
        [0.0, 0, -0.0],
        [1, 1.0, 1],
        [0.1 + 0.2, 0.3, 0.30000004, 0.3000004],
        [0.1 + 0.2, 0.3, 0.15 + 0.15],
        [1.0000000000000002, 1, 0.9999999999999999],
        [1.0000004, 1.000001, 1],
        [0.9999994, 0.9999996, 1],
        [0.0000004, 0.0000006, 0],
        [0.5, 0.25, 0.75, 0.75, 0.25],
        [-0.5, -0.25],
        [-0.5, 0, -0.0000001],
        [2, 3, 3.0],
        [nan, 0.5, 0.5],
        [0.5, nan, 0.7],
        [nan, nan],
        [inf, 1, inf],
        [0.5],
        [0],
        [1],
        [0.123456499, 0.1234565, 0.123456501],
        [0.5, 1.5, 2.5, 0.49, 0.51],
        [1e-300, 0, 5e-324],
        [12345.678, 12345.6780004, 12345.67],
    ]
    rng = random.Random(7)
    for _ in range(150):
        k = rng.randint(1, 6)
        base = [rng.choice([0, 1, 0.3, 0.1 + 0.2, 0.5, rng.random(),
                            round(rng.random(), 1), 0.7, 0.1 * 7, 0.35 * 2]) for _ in range(k)]
        value_sets.append(base)
    return value_sets


# --------------------------------------------------------------------------
# worker (runs inside one tree)
# --------------------------------------------------------------------------

def outcome(fn):
    try:
        return ("ok", repr(fn()))
    except Exception as e:  # noqa
        return ("exc", type(e).__name__, str(e))


def oracle_violations(game, solution):
    """The property itself, from the reported probabilities."""
    bad = []
    strategies, probabilities = solution[1], solution[3]
    for s, (player, trans) in enumerate(zip(game["players"], game["transition_list"])):
        if player == PR:
            if strategies[s] is not None:
                bad.append((s, "probabilistic state has a strategy"))
            continue
        values = [round(probabilities[t], 6) for _, t in trans]
        target = max(values) if player == P1 else min(values)
        expected = [a for (a, _), v in zip(trans, values) if v == target]
        if strategies[s] != expected:
            bad.append((s, strategies[s], expected))
    return bad


ITERATION_CAP = 5000


class IterationCap(Exception):
    pass


class LoggingShim:
    """
        Stands in for the logging module inside tad: silent, and it counts the
        "iteration i" lines of the two value iterations so that a game that does
        not converge is cut after the same number of sweeps in both trees
        (deterministic, unlike a timeout).
    """

    def __init__(self, real):
        self.real = real
        self.DEBUG = real.DEBUG
        self.count = 0
        self.lines = None  # a list while the log lines are being recorded

    def info(self, msg, *args, **kwargs):
        if self.lines is not None:
            self.lines.append(("info", msg))

    error = warning = info

    def getEffectiveLevel(self):
        return self.DEBUG

    def debug(self, msg, *args, **kwargs):
        if self.lines is not None:
            self.lines.append(("debug", msg))
        if msg.startswith("Value iteration for"):
            self.count = 0
        elif msg.startswith("iteration "):
            self.count += 1
            if self.count > ITERATION_CAP:
                raise IterationCap("no convergence")

    def getLogger(self, *args):
        # while recording, the solver must believe the DEBUG level is active
        return self if self.lines is not None else self.real.getLogger(*args)


def worker(root, corpus_file, out_file):
    sys.path.insert(0, root)
    os.chdir(root)
    import copy
    import inspect
    import logging
    import tad
    import conditionalrewards
    assert os.path.dirname(os.path.abspath(tad.__file__)) == os.path.abspath(root)
    assert os.path.dirname(os.path.abspath(conditionalrewards.__file__)) == os.path.abspath(root)
    tad.logging = LoggingShim(logging)
    logging.getLogger().addHandler(logging.NullHandler())
    logging.getLogger().setLevel(logging.CRITICAL)

    with open(corpus_file) as f:
        corpus = eval(f.read(), {"nan": float("nan"), "inf": float("inf")})
    games, value_sets = corpus["games"], corpus["value_sets"]
    record = {}
    violations = []

    # A. whole solves, both pruning modes
    for name, game in games.items():
        for prune in (True, False):
            g = copy.deepcopy(game)
            before = repr(g)
            try:
                sol = tad.StochasticGame(prune_states=prune, **g).solve()
                record[f"A/{name}/{prune}"] = ("ok", repr(sol))
                if name != "same_name":
                    for v in oracle_violations(game, sol):
                        violations.append((name, prune, v))
            except Exception as e:  # noqa
                record[f"A/{name}/{prune}"] = ("exc", type(e).__name__, str(e))
            record[f"A/{name}/{prune}/input_untouched"] = repr(g) == before

    # B. the batch driver
    names = list(games)[:120]
    for start in range(0, len(names), 15):
        batch = {n: copy.deepcopy(games[n]) for n in names[start:start + 15]}
        try:
            res = conditionalrewards.run_games(batch)
        except IterationCap as e:
            record[f"B/batch{start}"] = ("exc", type(e).__name__, str(e))
            continue
        for key, entry in res.items():
            entry = dict(entry)
            entry.pop("total_time")
            record[f"B/{key}"] = repr(sorted(entry.items()))

    # C. node level
    for vi, values in enumerate(value_sets):
        n = len(values) + 1
        for attr in ("reach_probability", "expected_rewards"):
            for cls, player in ((tad.PlayerOne, P1), (tad.PlayerTwo, P2)):
                trans = [(f"a{j}", j + 1) for j in range(len(values))]
                if vi % 3 == 0 and len(values) > 1:
                    trans = trans + [("again", 1), (f"a0", len(values))]
                node = cls(player=player, idx=0, reward=0, next_states=trans, num_states=n)
                others = [tad.ProbabilisticNode(player=PR, idx=j + 1, reward=0,
                                                next_states=[(1, j + 1)], num_states=n,
                                                is_final_node=False)
                          for j in range(len(values))]
                for o, v in zip(others, values):
                    setattr(o, attr, v)
                state_list = [node] + others
                for floor in range(0, 10):
                    if cls is tad.PlayerOne:
                        fns = (node.get_best_strategies_reachability,
                               node.get_best_strategies_total_rewards)
                    else:
                        fns = (node.get_worst_strategies_reachability,
                               node.get_worst_strategies_total_rewards)
                    for fn in fns:
                        key = f"C/{vi}/{attr}/{player}/{floor}/{fn.__name__}"
                        record[key] = outcome(lambda: fn(state_list, floor))
                        wanted = "reach_probability" if "reachability" in fn.__name__ \
                            else "expected_rewards"
                        if len(inspect.signature(fn).parameters) >= 3:
                            table = [round(getattr(st, wanted), floor) for st in state_list]
                            with_table = outcome(lambda: fn(state_list, floor, table))
                            if with_table != record[key]:
                                violations.append((key, "table", with_table, record[key]))
                # emptied transition list (what pruning leaves behind)
                node.next_states = []
                for fn in fns:
                    record[f"C/{vi}/{attr}/{player}/empty/{fn.__name__}"] = outcome(
                        lambda: fn(state_list, 6))

    # D. solver driven step by step
    for name in list(games):
        game = games[name]
        for prune in (True, False):
            key = f"D/{name}/{prune}"
            try:
                sg = tad.StochasticGame(prune_states=prune, **copy.deepcopy(game))
                sg.check_game()
                state_list = sg.init_states()
                solver = tad.Solver(state_list)
                record[key + "/reach"] = outcome(lambda: solver.solve_reachability(
                    sg.transition_list, sg.final_states, prune))
                strategies = solver._get_reachability_strategies()
                record[key + "/again"] = repr(strategies)
                # other precisions
                for thr in (10 ** -3, 10 ** -9, 0.5, 1e-6, 3e-7):
                    s2 = tad.Solver(state_list, threshold=thr)
                    record[key + f"/thr{thr}"] = repr((s2.floor, s2._get_reachability_strategies()))
                # a value changed by hand must be seen by the next call
                saved = state_list[-1].reach_probability
                state_list[-1].reach_probability = 0.4321
                record[key + "/changed"] = repr(solver._get_reachability_strategies())
                state_list[-1].reach_probability = saved
                record[key + "/restored"] = repr(solver._get_reachability_strategies())
                solver.prune_reachability(strategies)
                if prune:
                    solver.prune_stochastich_game()
                record[key + "/pruned"] = repr([s.next_states for s in state_list])
                record[key + "/after_prune"] = repr(solver._get_reachability_strategies())
                record[key + "/rew1"] = outcome(solver.solve_total_rewards)
                record[key + "/rew2"] = outcome(solver.solve_total_rewards)
                record[key + "/steps"] = repr(
                    [outcome(lambda s=s: s.value_iteration_rewards(state_list)) for s in state_list])
                leftovers = [s.idx for s in state_list
                             if getattr(s, "reach_min_actions", None) is not None]
                if leftovers:
                    violations.append((key, "remembered actions not cleared", leftovers))
                for s in state_list:
                    if not s.is_final_node:
                        s.reach_probability = round(0.9 - 0.07 * (s.idx % 5), 3)
                record[key + "/steps_changed"] = repr(
                    [outcome(lambda s=s: s.value_iteration_rewards(state_list)) for s in state_list])
                record[key + "/values"] = repr([
                    (s.reach_probability, s.expected_rewards, s.expected_rewards_min_reach,
                     s.expected_reach_min_rewards) for s in state_list])
            except Exception as e:  # noqa
                record[key + "/exc"] = (type(e).__name__, str(e))

    # E. log lines
    shim = tad.logging
    for name in list(games)[:60]:
        for prune in (True, False):
            shim.lines = []
            res = outcome(lambda: tad.StochasticGame(
                prune_states=prune, **copy.deepcopy(games[name])).solve())
            record[f"E/{name}/{prune}"] = repr((res, shim.lines))
            shim.lines = None

    # F. the repository's own inputs
    input_dir = os.path.join(root, "inputs")
    for file_name in sorted(os.listdir(input_dir)):
        path = os.path.join(input_dir, file_name)
        if not file_name.endswith(".py") or os.path.getsize(path) > 100000:
            continue
        try:
            res = conditionalrewards.run_games(conditionalrewards.read_dict_from_file(path))
        except Exception as e:  # noqa
            record[f"F/{file_name}"] = ("exc", type(e).__name__, str(e))
            continue
        for key, entry in res.items():
            entry = dict(entry)
            entry.pop("total_time")
            record[f"F/{file_name}/{key}"] = repr(sorted(entry.items()))

    with open(out_file, "w") as f:
        json.dump({"record": record, "violations": repr(violations),
                   "n_violations": len(violations)}, f)


# --------------------------------------------------------------------------
# driver
# --------------------------------------------------------------------------

def main():
    if len(sys.argv) == 5 and sys.argv[1] == "--worker":
        worker(sys.argv[2], sys.argv[3], sys.argv[4])
        return 0
    if len(sys.argv) != 3:
        print(__doc__)
        return 2
    patched, clean = os.path.abspath(sys.argv[1]), os.path.abspath(sys.argv[2])
    corpus = {"games": build_corpus(), "value_sets": node_probes()}
    results = {}
    with tempfile.TemporaryDirectory() as tmp:
        corpus_file = os.path.join(tmp, "corpus.py")
        with open(corpus_file, "w") as f:
            f.write(repr(corpus))  # nan and inf are names given to eval() by the worker
        env = dict(os.environ, PYTHONDONTWRITEBYTECODE="1", PYTHONHASHSEED="0")
        env.pop("PYTHONPATH", None)
        for label, root in (("patched", patched), ("clean", clean)):
            out_file = os.path.join(tmp, f"{label}.json")
            proc = subprocess.run(
                [sys.executable, os.path.abspath(__file__), "--worker", root, corpus_file, out_file],
                env=env, capture_output=True, text=True)
            if proc.returncode != 0:
                print(f"FAIL: worker for the {label} tree crashed")
                print(proc.stdout[-2000:])
                print(proc.stderr[-4000:])
                return 1
            with open(out_file) as f:
                results[label] = json.load(f)

    rp, rc = results["patched"]["record"], results["clean"]["record"]
    differences = []
    for key in sorted(set(rp) | set(rc)):
        if rp.get(key) != rc.get(key):
            differences.append(key)
    solved = sum(1 for k, v in rp.items() if k.startswith("A/") and isinstance(v, list) and v[0] == "ok")
    errors = sum(1 for k, v in rp.items() if k.startswith("A/") and isinstance(v, list) and v[0] == "exc")
    print(f"probes compared: {len(rp)}  (whole solves: {solved} solved, {errors} rejected)")
    ok = True
    if differences:
        ok = False
        print(f"{len(differences)} probes differ between the trees, first ones:")
        for key in differences[:10]:
            print("  ", key)
            print("     patched:", str(rp.get(key))[:600])
            print("     clean  :", str(rc.get(key))[:600])
    for label in ("patched", "clean"):
        if results[label]["n_violations"]:
            print(f"oracle of the property violated in the {label} tree "
                  f"({results[label]['n_violations']}): {results[label]['violations'][:1500]}")
            if label == "patched":
                ok = False
    print("PASS" if ok else "FAIL")
    return 0 if ok else 1


if __name__ == "__main__":
    sys.exit(main())
