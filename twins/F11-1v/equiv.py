#!/usr/bin/env python
"""Differential test for property C11 (generator -> loadable, proper three-game file).

usage: python equiv.py <clean_repo_dir> <patched_repo_dir>

Each tree is loaded in its own subprocess (module names collide).  Both
subprocesses run the SAME deterministic list of cases and write one line
`case-id <TAB> repr(outcome)` per case; the parent compares the two
transcripts line by line.  Prints SAME / exit 0 when nothing differs,
otherwise the first difference / exit 1.

Case families (about 20000 cases in total):
  A  check_input: one-at-a-time, pairwise and random parameter combinations with
     boundary values (0, 1, -0.0, denormals, 1-ulp, nan, inf, None, str, bool,
     Fraction, Decimal) -> accepted / exception type + message
  B  the command line entry point main(): accepted and rejected parameter sets;
     file name, file bytes (sha256), the games read back by read_dict_from_file,
     validation, structural facts, and for small boards solve() in both pruning
     modes and run_games() + report file bytes
  C  the manual entry point create_sg_from_board: random well-formed boards
     (one row, one column, 1x1, with and without forced-down tiles) and malformed
     boards (ragged, out-of-range, wrong types, doubly malformed); exception type
     + message and the bytes of the (partial) file left behind
  D  write_robots / write_preamble / write_robot_A/B/C called directly with a
     StringIO and dimensions that do not match the board (smaller, 0, negative,
     float width with zero length)
  E  every transition builder called directly with random arguments
  F  gen_rnd_board / get_random_moves: boards and generator state afterwards
  G  read_dict_from_file on dict / non-dict / broken / missing files
  H  `python roberta_generator.py ...` as a real process (exit code, last stderr
     line, file names and bytes)
"""
import os
import subprocess
import sys
import tempfile

DRIVER = r'''
import sys, os, io, gc, glob, hashlib, random, signal, math, logging, itertools, copy
from fractions import Fraction
from decimal import Decimal

tree, scratch, out_path = sys.argv[1], sys.argv[2], sys.argv[3]
os.chdir(scratch)
os.makedirs("inputs", exist_ok=True)
os.makedirs("outputs", exist_ok=True)
sys.path.insert(0, tree)
logging.disable(logging.CRITICAL)

import roberta_generator as G
import stochastic_game_from_roborta_board as M
import conditionalrewards as C
from tad import StochasticGame

out = open(out_path, "w")
def emit(cid, value):
    out.write(cid + "\t" + repr(value) + "\n")

def sha(b):
    return hashlib.sha256(b).hexdigest()[:20]

class Timeout(BaseException):
    pass

def attempt(fn, *a, **k):
    try:
        return ("ok", repr(fn(*a, **k)))
    except SystemExit as e:
        return ("exit", repr(e.code))
    except Timeout:
        raise
    except BaseException as e:
        return ("exc", type(e).__name__, str(e))

def _alarm(signum, frame):
    raise Timeout()
signal.signal(signal.SIGALRM, _alarm)

def with_timeout(seconds, fn, *a, **k):
    signal.setitimer(signal.ITIMER_REAL, seconds)
    try:
        return attempt(fn, *a, **k)
    except Timeout:
        return ("TIMEOUT",)
    finally:
        signal.setitimer(signal.ITIMER_REAL, 0)

def dir_state(pattern="inputs/*"):
    gc.collect()
    res = []
    for f in sorted(glob.glob(pattern)):
        with open(f, "rb") as fh:
            b = fh.read()
        res.append((f, len(b), sha(b)))
    return res

def clear_dir(pattern="inputs/*"):
    for f in glob.glob(pattern):
        os.remove(f)

NAN = float("nan"); INF = float("inf")

# ---------------------------------------------------------------- A check_input
INT_VALUES = [0, 1, -1, 2, 7, 10**9, -10**9, True, False, 0.0, -0.0, -0.5, 0.5, 2.5,
              NAN, INF, -INF, None, "3", "", Fraction(1, 2), Decimal("0"), Decimal("-1")]
PROB_VALUES = [0, 1, -1, 2, 0.0, -0.0, 1.0, 5e-324, 1e-300, 1 - 2**-53, 0.9999999999999999,
               1.0000000000000002, 0.5, 0.1, 0.3, -1e-9, -5e-324, NAN, INF, -INF, None, "0.5",
               True, False, Fraction(1, 2), Fraction(0), Fraction(1), Decimal("0.5"),
               Decimal("1"), Decimal("0"), [0.5]]
PARAMS = ["seed", "width", "length", "prob_robot_break", "prob_light_break",
          "prob_loose_tile", "prob_tile_break", "max_reward"]
DOMAIN = {"seed": INT_VALUES, "width": INT_VALUES, "length": INT_VALUES,
          "max_reward": INT_VALUES, "prob_robot_break": PROB_VALUES,
          "prob_light_break": PROB_VALUES, "prob_loose_tile": PROB_VALUES,
          "prob_tile_break": PROB_VALUES}
BASE = dict(seed=0, width=3, length=3, prob_robot_break=0.1, prob_light_break=0.1,
            prob_loose_tile=0.3, prob_tile_break=0.1, max_reward=6)

def check(kw):
    return attempt(G.check_input, kw["seed"], kw["width"], kw["length"],
                   kw["prob_robot_break"], kw["prob_light_break"], kw["prob_loose_tile"],
                   kw["prob_tile_break"], kw["max_reward"])

n = 0
emit("A/base", check(BASE))
emit("A/kw", attempt(G.check_input, **BASE))
for p in PARAMS:
    for v in DOMAIN[p]:
        kw = dict(BASE); kw[p] = v
        emit("A/one/%d" % n, check(kw)); n += 1
for p, q in itertools.combinations(PARAMS, 2):
    for v in DOMAIN[p]:
        for w in DOMAIN[q]:
            kw = dict(BASE); kw[p] = v; kw[q] = w
            emit("A/two/%d" % n, check(kw)); n += 1
rnd = random.Random(1101)
for _ in range(4000):
    kw = {p: rnd.choice(DOMAIN[p]) for p in PARAMS}
    emit("A/rnd/%d" % n, check(kw)); n += 1
for _ in range(1000):
    kw = {"seed": rnd.randrange(-2, 50), "width": rnd.randrange(-1, 6),
          "length": rnd.randrange(-1, 6), "max_reward": rnd.randrange(-1, 9)}
    for p in PARAMS[3:7]:
        kw[p] = rnd.choice([rnd.random(), rnd.random(), rnd.uniform(-0.2, 1.2), 0.0, 1.0])
    emit("A/rnd2/%d" % n, check(kw)); n += 1
emit("A/arity", attempt(G.check_input, 1, 2, 3))

# ---------------------------------------------------------------- structural facts
def facts(game):
    """Validation + the properties C11 names, as observed through the solver's classes."""
    res = []
    sg = StochasticGame(**copy.deepcopy(game))
    res.append(attempt(sg.check_game))
    res.append(attempt(lambda: len(sg.init_states())))
    res.append(attempt(sg.count_transitions))
    tl = game["transition_list"]; pl = game["players"]
    res.append((len(tl), len(pl), len(game["rewards"]), game["final_states"]))
    res.append(all(len(t) >= 1 for t in tl))
    sums = []
    for t, p in zip(tl, pl):
        if p == "Probabilistic":
            sums.append((min(x[0] for x in t) > 0, sum(x[0] for x in t)))
    res.append(sha(repr(sums).encode()))
    res.append(sha(repr(game).encode()))
    return res

def solve_both(game, seconds=1.0):
    res = []
    for prune in (True, False):
        g = copy.deepcopy(game); g["prune_states"] = prune
        res.append(with_timeout(seconds, lambda: StochasticGame(**g).solve()))
    return res

def run_main(argv):
    old_argv, old_err, old_out = sys.argv, sys.stderr, sys.stdout
    sys.argv = ["roberta_generator.py"] + [str(a) for a in argv]
    sys.stderr = io.StringIO(); sys.stdout = io.StringIO()
    try:
        r = attempt(G.main)
        return r, sys.stderr.getvalue(), sys.stdout.getvalue()
    finally:
        sys.argv, sys.stderr, sys.stdout = old_argv, old_err, old_out

# ---------------------------------------------------------------- B main()
rnd = random.Random(2202)
def rprob():
    k = rnd.random()
    if k < 0.10: return rnd.choice([1e-12, 1e-6, 1 - 1e-12, 0.999999, 5e-324, 0.5, 0.25])
    if k < 0.20: return round(rnd.random(), 2) or 0.01
    return rnd.random() or 0.5

b_cases = []
for w in range(1, 5):                      # every small shape, both modes
    for l in range(1, 5):
        for fd in (False, True):
            b_cases.append((rnd.randrange(0, 1000), w, l, rnd.randrange(1, 9), 0.1, 0.1, 0.1, 0.3, fd))
for _ in range(260):
    w = rnd.choice([1, 1, 2, 2, 3, 3, 4, 5, 6, 7, 9, 12])
    l = rnd.choice([1, 1, 2, 2, 3, 3, 4, 5, 6, 7, 9])
    b_cases.append((rnd.choice([0, 1, 2, 47, 999132423, rnd.randrange(0, 10**6)]), w, l,
                    rnd.choice([1, 1, 2, 3, 6, 6, 10, 30, 60, 1100]),
                    rprob(), rprob(), rprob(), rprob(), rnd.random() < 0.5))
b_cases.append((40, 20, 10, 6, 0.1, 0.1, 0.1, 0.3, True))      # thousands of states
b_cases.append((47, 40, 10, 6, 0.1, 0.1, 0.1, 0.3, False))
# rejected / boundary parameter sets
for bad in [(-1, 3, 3, 6, .1, .1, .1, .3), (0, 0, 3, 6, .1, .1, .1, .3), (0, 3, 0, 6, .1, .1, .1, .3),
            (0, 3, 3, 0, .1, .1, .1, .3), (0, 3, 3, 6, 0, .1, .1, .3), (0, 3, 3, 6, 1, .1, .1, .3),
            (0, 3, 3, 6, .1, 0.0, .1, .3), (0, 3, 3, 6, .1, 1.0, .1, .3), (0, 3, 3, 6, .1, .1, -0.0, .3),
            (0, 3, 3, 6, .1, .1, 1.5, .3), (0, 3, 3, 6, .1, .1, .1, 0), (0, 3, 3, 6, .1, .1, .1, 1),
            (0, -2, -2, -2, 2, 2, 2, 2), (0, 3, 3, 6, "nan", .1, .1, .3), (0, 3, 3, 6, .1, "nan", "nan", "nan"),
            (0, 3, 3, 6, "inf", .1, .1, .3), (0, 2, 2, 6, .1, .1, "nan", .3), ("x", 3, 3, 6, .1, .1, .1, .3),
            (0, 2.5, 3, 6, .1, .1, .1, .3)]:
    for fd in (False, True):
        b_cases.append(tuple(bad) + (fd,))

n_solved = 0
n_reports = 0
def report(f):
    rr = C.run_games(C.read_dict_from_file(f))
    for v in rr.values():
        v["total_time"] = 0
    C.save_results_to_file(rr, f)
    return rr
for k, (seed, w, l, mr, prb, plb, ptb, plt, fd) in enumerate(b_cases):
    clear_dir()
    argv = ["-s", seed, "-w", w, "-l", l, "-m", mr, "-p", repr(prb) if isinstance(prb, float) else prb,
            "-q", repr(plb) if isinstance(plb, float) else plb,
            "-r", repr(ptb) if isinstance(ptb, float) else ptb,
            "-t", repr(plt) if isinstance(plt, float) else plt] + (["-f"] if fd else [])
    r, err, so = run_main(argv)
    emit("B/%d/main" % k, (argv, r, err.strip().splitlines()[-1:] , so))
    st = dir_state()
    emit("B/%d/files" % k, st)
    for (f, _, _) in st:
        d = attempt(C.read_dict_from_file, f)
        if d[0] != "ok":
            emit("B/%d/read" % k, d); continue
        games = C.read_dict_from_file(f)
        emit("B/%d/keys" % k, list(games.keys()))
        tiles = w * l if isinstance(w, int) and isinstance(l, int) else 99
        numeric = all(isinstance(x, float) for x in (prb, plb, ptb))
        lo = min(prb, plb, ptb) if numeric else 0
        hi = max(prb, plb, ptb) if numeric else 1
        easy = tiles <= 4 and lo >= 0.05 and hi <= 0.95
        do_solve = easy and n_solved < 6
        for name, game in games.items():
            emit("B/%d/%s/facts" % (k, name), facts(game))
            if do_solve:
                emit("B/%d/%s/solve" % (k, name), solve_both(game))
        if do_solve:
            n_solved += 1
        if easy and fd and n_reports < 2:
            n_reports += 1
            clear_dir("outputs/*")
            emit("B/%d/run_games" % k, with_timeout(8, report, f))
            emit("B/%d/report" % k, dir_state("outputs/*"))
clear_dir(); clear_dir("outputs/*")

# ---------------------------------------------------------------- C manual entry point
rnd = random.Random(3303)
def rboard(l, w, down):
    moves = [[rnd.choice([0, 1, 2, 3] if down else [0, 1, 2]) for _ in range(w)] for _ in range(l)]
    rewards = [[rnd.choice([0, 1, 2, 3, 5, 9]) for _ in range(w)] for _ in range(l)]
    loose = [[rnd.choice([0, 0, 1]) for _ in range(w)] for _ in range(l)]
    return moves, rewards, loose

def run_manual(cid, moves, rewards, loose, prb, plb, ptb, solve=False):
    clear_dir()
    args = copy.deepcopy((moves, rewards, loose))
    r = attempt(M.create_sg_from_board, moves, rewards, loose, prb, plb, ptb)
    emit(cid + "/call", r)
    emit(cid + "/args_untouched", args == (moves, rewards, loose) if r[0] == "ok" else None)
    st = dir_state()
    emit(cid + "/files", st)
    if r[0] == "ok":
        for (f, _, _) in st:
            rd = attempt(C.read_dict_from_file, f)
            if rd[0] != "ok":
                emit(cid + "/read", rd); continue
            games = C.read_dict_from_file(f)
            emit(cid + "/keys", list(games.keys()))
            for name, game in games.items():
                emit(cid + "/" + name + "/facts", facts(game))
                if solve:
                    emit(cid + "/" + name + "/solve", solve_both(game))
        return solve
    return False

k = 0
c_solved = 0
shapes = [(l, w) for l in range(1, 5) for w in range(1, 5)] + [(1, 7), (7, 1), (5, 5), (2, 6), (6, 2)]
for (l, w) in shapes:
    for down in (False, True):
        for rep in range(5):
            mv, rw, lt = rboard(l, w, down)
            if rep == 0: mv = [[3] * w for _ in range(l)]              # only forced-down tiles
            if rep == 1: lt = [[1] * w for _ in range(l)]              # every tile loose
            if rep == 2: mv = [[1] * w for _ in range(l)]; lt = [[0] * w for _ in range(l)]
            c_solved += run_manual("C/ok/%d" % k, mv, rw, lt, round(rnd.uniform(0.05, 0.9), 3),
                                   round(rnd.uniform(0.05, 0.9), 3), round(rnd.uniform(0.05, 0.9), 3),
                                   solve=(l * w <= 4 and rep == 4 and c_solved < 5))
            k += 1
# unusual but accepted element types
mv, rw, lt = rboard(2, 3, True)
run_manual("C/types/float_rewards", mv, [[1.5, 2.0, 0.0], [3.25, 1e3, 2.0]], lt, .1, .2, .3)
run_manual("C/types/str_rewards", mv, [["1", " 2 ", "3"], ["4", "5", "6"]], lt, .1, .2, .3)
run_manual("C/types/bool_cells", [[True, False, True], [False, True, True]], rw,
           [[True, False, False], [False, True, True]], .1, .2, .3)
run_manual("C/types/neg_moves", [[-1, -2, -3], [-4, 0, 1]], rw, lt, .1, .2, .3)
run_manual("C/types/neg_loose", mv, rw, [[-1, -2, 0], [1, -1, 0]], .1, .2, .3)
run_manual("C/types/tuples", tuple(tuple(r) for r in mv), tuple(tuple(r) for r in rw),
           tuple(tuple(r) for r in lt), .1, .2, .3)
run_manual("C/types/fraction_probs", mv, rw, lt, Fraction(1, 10), Fraction(1, 5), Fraction(1, 3))
run_manual("C/types/int_probs", mv, rw, lt, 0, 1, 2)
run_manual("C/types/str_prob", mv, rw, lt, "a", .1, .1)
run_manual("C/types/str_prob2", mv, rw, lt, .1, "a", .1)
run_manual("C/types/str_prob3", mv, rw, lt, .1, .1, "a")
run_manual("C/types/none_prob", mv, rw, lt, None, None, None)
# malformed boards
def mutations(mv, rw, lt):
    l, w = len(mv), len(mv[0])
    ms = []
    for which in range(3):
        for kind in ("short", "long", "none_row", "drop_row", "extra_row", "none_cell",
                     "big", "neg", "float", "str", "scalar_row"):
            b = copy.deepcopy([mv, rw, lt]); m = b[which]; i = rnd.randrange(l); j = rnd.randrange(w)
            if kind == "short": m[i] = m[i][:-1]
            if kind == "long": m[i] = m[i] + [1]
            if kind == "none_row": m[i] = None
            if kind == "drop_row": del m[i]
            if kind == "extra_row": m.append([1] * w)
            if kind == "none_cell": m[i][j] = None
            if kind == "big": m[i][j] = rnd.choice([2, 4, 5, 100])
            if kind == "neg": m[i][j] = rnd.choice([-1, -2, -3, -4, -5, -100])
            if kind == "float": m[i][j] = rnd.choice([1.0, 0.5, 2.0])
            if kind == "str": m[i][j] = rnd.choice(["1", "x", ""])
            if kind == "scalar_row": m[i] = 5
            ms.append((str(which) + kind, b))
    return ms
for (l, w) in [(1, 1), (1, 3), (3, 1), (2, 2), (3, 4)]:
    for down in (False, True):
        mv, rw, lt = rboard(l, w, down)
        muts = mutations(mv, rw, lt)
        for name, b in muts:
            run_manual("C/bad/%d/%s" % (k, name), b[0], b[1], b[2], .1, .2, .3); k += 1
        for _ in range(12):                                              # doubly malformed
            (n1, b1), (n2, b2) = rnd.sample(muts, 2)
            b = [b1[0], b2[1], b1[2]] if rnd.random() < 0.5 else [b2[0], b1[1], b2[2]]
            run_manual("C/bad2/%d/%s+%s" % (k, n1, n2), b[0], b[1], b[2], .1, .2, .3); k += 1
for name, args in [("empty", ([], [], [])), ("empty_row", ([[]], [[]], [[]])),
                   ("empty_rows", ([[], []], [[], []], [[], []])),
                   ("none", (None, None, None)), ("str", ("ab", "cd", "ef")),
                   ("rew_empty", ([[1]], [], [[0]])), ("loose_empty", ([[1]], [[1]], []))]:
    run_manual("C/degenerate/" + name, args[0], args[1], args[2], .1, .2, .3)
clear_dir()

# ---------------------------------------------------------------- D writers called directly
rnd = random.Random(4404)
class Sink(io.StringIO):
    pass
def direct(cid, fn, *args):
    s = Sink()
    r = attempt(fn, s, *args)
    emit(cid, (r, len(s.getvalue()), sha(s.getvalue().encode()), s.getvalue()[:80]))
k = 0
for (bl, bw) in [(1, 1), (2, 3), (3, 2), (4, 4), (1, 5), (5, 1)]:
    for down in (False, True):
        mv, rw, lt = rboard(bl, bw, down)
        dims = [(bl, bw), (0, 0), (0, bw), (bl, 0), (-1, bw), (bl, -1), (-2, -3), (1, 1), (bl - 1, bw),
                (bl, bw - 1), (bl + 1, bw), (bl, bw + 1), (1, bw), (bl, 1), (0, 2.5), (True, True),
                (0, None), (None, 1), (2.0, 1), (1, 2.0), ("1", 1)]
        for (l, w) in dims:
            p1, p2, p3 = round(rnd.uniform(.01, .99), 4), round(rnd.uniform(.01, .99), 4), round(rnd.uniform(.01, .99), 4)
            direct("D/%d/pre" % k, G.write_preamble, l, w, mv, rw, lt)
            direct("D/%d/A" % k, G.write_robot_A, l, w, mv, rw, lt, p1)
            direct("D/%d/B" % k, G.write_robot_B, l, w, mv, rw, lt, p1, p2)
            direct("D/%d/C" % k, G.write_robot_C, l, w, mv, rw, lt, p1, p2, p3)
            clear_dir()
            emit("D/%d/robots" % k, attempt(G.write_robots, "inputs/direct.py", l, w, mv, rw, lt, p1, p2, p3))
            emit("D/%d/robots/file" % k, dir_state())
            k += 1
        # bad probabilities / boards straight into the writers
        for probs in [("a", .1, .1), (.1, "a", .1), (.1, .1, "a"), (None, None, None), ([1], .1, .1)]:
            direct("D/%d/A/badp" % k, G.write_robot_A, bl, bw, mv, rw, lt, probs[0])
            direct("D/%d/B/badp" % k, G.write_robot_B, bl, bw, mv, rw, lt, probs[0], probs[1])
            direct("D/%d/C/badp" % k, G.write_robot_C, bl, bw, mv, rw, lt, probs[0], probs[1], probs[2])
            direct("D/%d/C/badp0" % k, G.write_robot_C, 0, 0, mv, rw, lt, probs[0], probs[1], probs[2])
            k += 1
        for name, b in mutations(mv, rw, lt):
            direct("D/%d/A/%s" % (k, name), G.write_robot_A, bl, bw, b[0], b[1], b[2], .1)
            direct("D/%d/B/%s" % (k, name), G.write_robot_B, bl, bw, b[0], b[1], b[2], .1, .2)
            direct("D/%d/C/%s" % (k, name), G.write_robot_C, bl, bw, b[0], b[1], b[2], .1, .2, .3)
            k += 1
emit("D/closed", attempt(G.write_preamble, open(os.devnull, "r"), 1, 1, [[1]], [[1]], [[0]]))
emit("D/nodir", attempt(G.write_robots, "no_such_dir/x.py", 1, 1, [[1]], [[1]], [[0]], .1, .1, .1))
clear_dir()

# ---------------------------------------------------------------- E builders called directly
rnd = random.Random(5505)
def call(cid, name, *a, **kw):
    fn = getattr(G, name, None)
    emit(cid, ("missing",) if fn is None else attempt(fn, *a, **kw))
for k in range(700):
    l = rnd.choice([0, 1, 1, 2, 3, 4, 5, -1]); w = rnd.choice([0, 1, 1, 2, 3, 4, 5, -1])
    L, W = max(l, 1), max(w, 1)
    mv = [[rnd.choice([0, 1, 2, 3, 3, -1, 4]) if rnd.random() < .3 else rnd.choice([0, 1, 2, 3]) for _ in range(W)] for _ in range(L)]
    lt = [[rnd.choice([0, 1, 1, 2, -1, True]) for _ in range(W)] for _ in range(L)]
    o1, o2, o3 = rnd.randrange(0, 200), rnd.randrange(0, 200), rnd.randrange(-5, 200)
    p = rnd.choice([rnd.random(), 0.1, 0.5, 1e-9, 0, 1, Fraction(1, 3)])
    win = rnd.choice([None, 0, 1, 77, o3])
    call("E/%d/p2" % k, "player_two_transitions", l, w, mv, o1, o2)
    call("E/%d/p2kw" % k, "player_two_transitions", l, w, mv, offset_r=o1, offset_y=o2)
    call("E/%d/p1d" % k, "player_one_down_transitions", l, w, o1)
    call("E/%d/p1dw" % k, "player_one_down_transitions", l, w, offset=o1, winning_state=win)
    call("E/%d/p1lr" % k, "player_one_left_right_transitions", l, w, mv, offset_l=o1, offset_r=o2)
    call("E/%d/p1lrA" % k, "player_one_left_right_transitions", l, w, mv, o1, o1)
    call("E/%d/tile" % k, "prob_tile_break_transitions", l, w, p, lt, offset=o1, loosing_state=o2)
    call("E/%d/rd" % k, "prob_robot_down_break_transitions", l, w, p, offset=o1, winning_state=win)
    call("E/%d/rdp" % k, "prob_robot_down_break_transitions", l, w, p, o1, o2)
    call("E/%d/rl" % k, "prob_robot_left_break_transitions", l, w, p, offset=o1)
    call("E/%d/rr" % k, "prob_robot_right_break_transitions", l, w, p, offset=o1)
    call("E/%d/rlp" % k, "prob_robot_left_break_transitions", l, w, p, o3)
    call("E/%d/rrp" % k, "prob_robot_right_break_transitions", l, w, p, o3)
    call("E/%d/p1dlr" % k, "player_one_down_left_right_transitions", l, w, mv, offset_d=o1, offset_l=o2, offset_r=o3)
    call("E/%d/light" % k, "prob_light_break_transitions", l, w, p, offset_ok=o1, offset_break=o2)
    call("E/%d/str" % k, "prob_to_str", p)
    call("E/%d/str2" % k, "prob_to_str", rnd.choice([0.005, 0.015, 0.025, 0.995, 0.125, rnd.random()]))
for bad in ["a", None, [1]]:
    for (l, w) in [(0, 0), (2, 2), (0, 3), (3, 0)]:
        call("E/bad/%r/%d%d/rd" % (bad, l, w), "prob_robot_down_break_transitions", l, w, bad, 5, 9)
        call("E/bad/%r/%d%d/rl" % (bad, l, w), "prob_robot_left_break_transitions", l, w, bad, 5)
        call("E/bad/%r/%d%d/rr" % (bad, l, w), "prob_robot_right_break_transitions", l, w, bad, 5)
        call("E/bad/%r/%d%d/light" % (bad, l, w), "prob_light_break_transitions", l, w, bad, 5, 9)
        call("E/bad/%r/%d%d/tile" % (bad, l, w), "prob_tile_break_transitions", l, w, bad, [[1, 0, 1]] * 3, 5, 9)
        call("E/bad/%r/%d%d/off" % (bad, l, w), "prob_robot_left_break_transitions", l, w, .5, bad)
        call("E/bad/%r/%d%d/off2" % (bad, l, w), "prob_robot_down_break_transitions", l, w, .5, bad, bad)
emit("E/consts", (G.MOVE_SINTAX, G.TILE_SYNTAX, G.FOUR_SPACES, G.EIGHT_SPACES, G.TWELVE_SPACES, G.SIXTEEN_SPACES))
emit("E/max", [attempt(M.get_max_from_matrix, m) for m in ([[1, 2], [3, 0]], [[1]], [], [[]], [[1], []], None)])
emit("E/help", attempt(lambda: G.init_parser().format_help()))

# ---------------------------------------------------------------- F random boards
rnd = random.Random(6606)
for k in range(600):
    seed = rnd.choice([0, 1, 2, 47, rnd.randrange(0, 10**9)])
    l = rnd.choice([0, 1, 2, 3, 5, 8]); w = rnd.choice([0, 1, 2, 3, 5, 8])
    plt = rnd.choice([rnd.random(), 0.3, 1e-9, 1 - 1e-9]); mr = rnd.choice([1, 2, 6, 6, 20, 1100])
    fd = rnd.random() < .5
    r = attempt(G.gen_rnd_board, seed, l, w, plt, mr, fd)
    emit("F/%d" % k, (r, sha(repr(random.getstate()).encode())))
    if k % 3 == 0:
        random.seed(seed)
        emit("F/%d/moves" % k, (attempt(G.get_random_moves, l, w, fd), sha(repr(random.getstate()).encode())))
emit("F/default", attempt(G.gen_rnd_board, 5, 3, 3, 0.3))
emit("F/kw", attempt(G.gen_rnd_board, seed=5, length=2, width=4, prob_loose_tile=0.3, max_reward=3, force_down=True))
emit("F/badmr", attempt(G.gen_rnd_board, 5, 0, 0, 0.3, "x", False))
emit("F/badmr2", attempt(G.gen_rnd_board, 5, 2, 2, 0.3, "x", False))
emit("F/negmr", attempt(G.gen_rnd_board, 5, 2, 2, 0.3, -2000, False))
emit("F/negmr0", attempt(G.gen_rnd_board, 5, 0, 2, 0.3, -2000, False))

# ---------------------------------------------------------------- G reader
for name, text in [("dict", "# c\n{'a': {'rewards': [1]}}\n"), ("list", "[1, 2]"), ("syntax", "{'a': "),
                   ("empty", ""), ("name", "{'a': undefined_name}"), ("int", "3"), ("emptydict", "{}")]:
    with open("inputs/g_" + name + ".py", "w") as fh:
        fh.write(text)
    emit("G/" + name, attempt(C.read_dict_from_file, "inputs/g_" + name + ".py"))
emit("G/missing", attempt(C.read_dict_from_file, "inputs/none.py"))
clear_dir()
out.close()
'''


def run_cli(tree, scratch):
    """H: the generator as a real process; returns a list of transcript lines."""
    import glob
    import hashlib
    lines = []
    cases = [
        [], ["-s", "3", "-w", "1", "-l", "1"], ["-s", "3", "-w", "4", "-l", "2", "-f"],
        ["-w", "0"], ["-p", "1"], ["-q", "nan", "-w", "2", "-l", "2"], ["-m", "0", "-s", "-1"],
        ["--seed", "9", "--width", "2", "--length", "5", "--prob_robot_break", "0.33",
         "--prob_light_break", "0.005", "--prob_tile_break", "0.995", "--prob_loose_tile", "0.5",
         "--max_reward", "2", "--force_down"], ["-w", "x"],
    ]
    for k, argv in enumerate(cases):
        for f in glob.glob(os.path.join(scratch, "inputs", "*")):
            os.remove(f)
        p = subprocess.run([sys.executable, os.path.join(tree, "roberta_generator.py")] + argv,
                           cwd=scratch, capture_output=True, text=True, timeout=60)
        files = []
        for f in sorted(glob.glob(os.path.join(scratch, "inputs", "*"))):
            with open(f, "rb") as fh:
                files.append((os.path.basename(f), hashlib.sha256(fh.read()).hexdigest()[:20]))
        lines.append("H/%d\t%r\n" % (k, (argv, p.returncode, p.stdout, p.stderr.strip().splitlines()[-1:], files)))
    return lines


def main():
    if len(sys.argv) != 3:
        print("usage: python equiv.py <clean_repo_dir> <patched_repo_dir>")
        return 2
    trees = [os.path.abspath(sys.argv[1]), os.path.abspath(sys.argv[2])]
    with tempfile.TemporaryDirectory(prefix="equiv_F11_") as tmp:
        driver = os.path.join(tmp, "driver.py")
        with open(driver, "w") as fh:
            fh.write(DRIVER)
        procs, outs, scratches = [], [], []
        env = dict(os.environ, PYTHONDONTWRITEBYTECODE="1", PYTHONHASHSEED="0")
        for k, tree in enumerate(trees):
            scratch = os.path.join(tmp, "scratch%d" % k)
            os.makedirs(os.path.join(scratch, "inputs"))
            out = os.path.join(tmp, "out%d.txt" % k)
            scratches.append(scratch)
            outs.append(out)
            procs.append(subprocess.Popen([sys.executable, driver, tree, scratch, out], env=env,
                                          stdout=subprocess.PIPE, stderr=subprocess.PIPE, text=True))
        results = []
        for p in procs:
            try:
                so, se = p.communicate(timeout=110)
            except subprocess.TimeoutExpired:
                p.kill()
                print("DIFFERENT (or inconclusive): driver timed out")
                return 1
            results.append((p.returncode, so, se))
        for k, (rc, so, se) in enumerate(results):
            if rc != 0:
                print("driver failed for tree %d (%s), exit %s\n%s" % (k, trees[k], rc, se[-3000:]))
                return 1
        transcripts = []
        for k in range(2):
            with open(outs[k]) as fh:
                lines = fh.readlines()
            cli_scratch = os.path.join(tmp, "cli%d" % k)
            os.makedirs(os.path.join(cli_scratch, "inputs"))
            lines += run_cli(trees[k], cli_scratch)
            transcripts.append(lines)
    a, b = transcripts
    for k, (x, y) in enumerate(zip(a, b)):
        if x != y:
            if "TIMEOUT" in x or "TIMEOUT" in y:
                xs, ys = x.split("\t")[0], y.split("\t")[0]
                if xs == ys:
                    continue            # a solve that was cut off in one or both trees
            print("DIFFERENT at case %d" % k)
            print(" clean  : " + x.rstrip()[:1500])
            print(" patched: " + y.rstrip()[:1500])
            return 1
    if len(a) != len(b):
        print("DIFFERENT: transcript lengths %d vs %d" % (len(a), len(b)))
        return 1
    print("SAME (%d cases)" % len(a))
    return 0


if __name__ == "__main__":
    sys.exit(main())
