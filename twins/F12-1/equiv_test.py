#!/usr/bin/env python
"""
Equivalence / property test for C12 (batch runs solve each game in isolation
and report failures).

usage: python equiv_test.py <path-to-patched-root> <path-to-clean-root>

The two trees are loaded in separate subprocesses (same module names).  The
driver builds several hundred dictionaries of games (well-formed games of
varied shape, games failing with every well-formedness / no-solution
ValueError, games whose malformation escapes as another exception, name
collisions, permutations and subsets of the same pool), hands the very same
scenarios to both trees and compares

  * the run_games() result dict (keys, key order, every field but the wall
    clock time, compared through repr so that 1 / 1.0 / nan are told apart),
  * the exception (type and text) when run_games() does not return,
  * the caller's dictionary after the call,
  * the report written by save_results_to_file() (minus the "Total time" lines),
  * for a sample, the real command line `conditionalrewards.py -f FILE -s`
    (exit status, last stderr line, report file, -l i log text).

Independently of the clean tree it checks the property itself on the patched
tree: every entry of a batch equals what solving that game alone with
tad.StochasticGame gives, failing games carry the error text, their unpruned
entry is "Game not solved" and all the other games are still solved.

Prints PASS and exits 0 when no difference is found, FAIL otherwise.
"""
import copy
import inspect
import io
import os
import pickle
import random
import shutil
import signal
import subprocess
import sys
import tempfile

P1, P2, PR = "Player 1", "Player 2", "Probabilistic"
SEED = 20261004
N_CANDIDATES = 900
SOLVE_KEYS = ("final_strategies", "reachability_strategies", "rewards", "probabilities",
              "n_iterations_reach", "n_iterations_rew", "prob_min_rew", "rew_min_reach")
ENTRY_KEYS = ["n_states", "n_transitions", "n_iterations_reach", "n_iterations_rew",
              "reachability_strategies", "final_strategies", "total_time", "msg",
              "rewards", "rew_min_reach", "probabilities", "prob_min_rew"]


# --------------------------------------------------------------------------- #
# game generation (driver side)

PROB_SPLITS = {
    1: [[1], [1.0]],
    2: [[0.5, 0.5], [0.1, 0.9], [0.25, 0.75], [1e-9, 1 - 1e-9], [0.3, 0.7], [0.999, 0.001]],
    3: [[0.8, 0.1, 0.1], [0.25, 0.25, 0.5], [1 / 3, 1 / 3, 1 / 3], [0.6, 0.3, 0.1],
        [0.125, 0.8, 0.075]],
}


def rand_game(rng):
    n = rng.choice([1, 2, 2, 3, 3, 4, 4, 5, 5, 6, 7, 8, 10])
    players = [rng.choice([P1, P2, PR]) for _ in range(n)]
    n_final = rng.randint(1, min(3, n))
    finals = rng.sample(range(n), n_final)
    if rng.random() < 0.5:
        finals.sort()
    others = [s for s in range(n) if s not in finals]
    dead = set(s for s in others if rng.random() < 0.2)
    tie_rewards = rng.random() < 0.4
    rewards, transitions = [], []
    for s in range(n):
        sink = (s in finals and rng.random() < 0.85) or s in dead
        if sink:
            rewards.append(0)
            if players[s] == PR:
                transitions.append([(rng.choice([1, 1.0]), s)])
            else:
                transitions.append([("stay", s)])
            continue
        if tie_rewards:
            rewards.append(rng.choice([0, 1, 1, 2]))
        else:
            rewards.append(rng.choice([0, 1, 2, 3, 5, 10, 0.5, 2.25]))
        k = rng.randint(1, 3)
        if rng.random() < 0.7 and n > 1:
            # bias towards "forward" moves so that most games converge
            pool = [t for t in range(n) if t != s]
        else:
            pool = list(range(n))
        targets = [rng.choice(pool) for _ in range(k)]
        if players[s] == PR:
            probs = rng.choice(PROB_SPLITS[k])
            transitions.append([(p, t) for p, t in zip(probs, targets)])
        else:
            acts = ["a%d" % i for i in range(k)]
            if rng.random() < 0.05 and k > 1:
                acts[1] = acts[0]          # duplicated action label
            transitions.append([(a, t) for a, t in zip(acts, targets)])
    game = {"rewards": rewards, "players": players,
            "transition_list": transitions, "final_states": finals}
    if rng.random() < 0.15:
        # a stale flag left in the file must be overwritten by the driver
        game["prune_states"] = rng.choice([True, False])
    return game


def boundary_games():
    out = []
    # single state, final, each player
    out.append({"rewards": [0], "players": [PR], "transition_list": [[(1, 0)]], "final_states": [0]})
    out.append({"rewards": [0], "players": [P1], "transition_list": [[("a", 0)]], "final_states": [0]})
    out.append({"rewards": [0], "players": [P2], "transition_list": [[("a", 0)]], "final_states": [0]})
    # all states final
    out.append({"rewards": [0, 0], "players": [P1, PR],
                "transition_list": [[("a", 1), ("b", 0)], [(1, 1)]], "final_states": [0, 1]})
    # final states given twice / unsorted
    out.append({"rewards": [1, 0, 0], "players": [P1, PR, PR],
                "transition_list": [[("a", 1), ("b", 2)], [(1, 1)], [(1, 2)]],
                "final_states": [2, 1, 2]})
    # exact tie between two actions, one leading to a dead state in the unpruned game only
    out.append({"rewards": [1, 0, 0, 0], "players": [P1, PR, PR, PR],
                "transition_list": [[("l", 1), ("r", 2)], [(0.5, 3), (0.5, 2)], [(1, 2)], [(1, 3)]],
                "final_states": [3]})
    # probabilistic state losing one branch when pruned (renormalisation)
    out.append({"rewards": [2, 3, 0, 0], "players": [PR, PR, PR, PR],
                "transition_list": [[(0.5, 1), (0.25, 2), (0.25, 3)], [(0.5, 0), (0.5, 3)],
                                    [(1, 2)], [(1, 3)]],
                "final_states": [3]})
    # player 2 able to avoid the target from a side branch
    out.append({"rewards": [1, 1, 0, 0], "players": [PR, P2, PR, PR],
                "transition_list": [[(0.5, 1), (0.5, 3)], [("x", 2), ("y", 3)], [(1, 2)], [(1, 3)]],
                "final_states": [3]})
    # tuple containers instead of lists where the code tolerates them
    out.append({"rewards": (1, 0), "players": (P1, PR),
                "transition_list": [[("a", 1)], [(1, 1)]], "final_states": (1,)})
    # the README-style example with cycles
    out.append({"rewards": [10, 0, 5, 5, 0, 0, 0, 2, 0, 0],
                "players": [P1, PR, P2, P1, PR, PR, PR, PR, PR, PR],
                "transition_list": [
                    [("alfa_1", 1), ("alfa_2", 2)], [(0.8, 3), (0.1, 0), (0.1, 8)],
                    [("gamma_1", 4), ("gamma_2", 5)], [("beta_1", 6), ("beta_2", 7)],
                    [(0.4, 9), (0.5, 0), (0.1, 8)], [(0.6, 9), (0.3, 2), (0.1, 8)],
                    [(0.8, 9), (0.125, 0), (0.075, 8)], [(0.6, 9), (0.2, 3), (0.2, 8)],
                    [(1, 8)], [(1, 9)]],
                "final_states": [9]})
    return out


BASE = {"rewards": [1, 2, 0, 0], "players": [P1, PR, P2, PR],
        "transition_list": [[("a", 1), ("b", 2)], [(0.5, 3), (0.5, 0)], [("c", 3), ("d", 2)],
                            [(1, 3)]],
        "final_states": [3]}


def _mut(fn):
    g = copy.deepcopy(BASE)
    fn(g)
    return g


def value_error_games():
    """Games whose pruned solve raises ValueError (well-formedness / no solution)."""
    m = []
    m.append(("tl_short", _mut(lambda g: g["transition_list"].pop())))
    m.append(("tl_long", _mut(lambda g: g["transition_list"].append([(1, 0)]))))
    m.append(("rw_short", _mut(lambda g: g["rewards"].pop())))
    m.append(("rw_long", _mut(lambda g: g["rewards"].append(0))))
    m.append(("rw_negative", _mut(lambda g: g["rewards"].__setitem__(1, -1))))
    m.append(("final_high", _mut(lambda g: g.__setitem__("final_states", [4]))))
    m.append(("final_negative", _mut(lambda g: g.__setitem__("final_states", [3, -1]))))
    m.append(("final_empty", _mut(lambda g: g.__setitem__("final_states", []))))
    m.append(("bad_player", _mut(lambda g: g["players"].__setitem__(2, "Player 3"))))
    m.append(("no_transitions", _mut(lambda g: g["transition_list"].__setitem__(2, []))))
    m.append(("none_transitions", _mut(lambda g: g["transition_list"].__setitem__(1, None))))
    m.append(("tuple_transitions", _mut(lambda g: g["transition_list"].__setitem__(3, ((1, 3),)))))
    m.append(("list_transition", _mut(lambda g: g["transition_list"].__setitem__(0, [["a", 1]]))))
    m.append(("triple_transition", _mut(lambda g: g["transition_list"].__setitem__(0, [("a", 1, 2)]))))
    m.append(("action_not_str", _mut(lambda g: g["transition_list"].__setitem__(0, [(0.5, 1), (0.5, 2)]))))
    m.append(("prob_not_number", _mut(lambda g: g["transition_list"].__setitem__(1, [("x", 3)]))))
    m.append(("next_not_int", _mut(lambda g: g["transition_list"].__setitem__(3, [(1, 3.0)]))))
    m.append(("next_high", _mut(lambda g: g["transition_list"].__setitem__(3, [(1, 4)]))))
    m.append(("next_negative", _mut(lambda g: g["transition_list"].__setitem__(2, [("c", -1)]))))
    # no solution: the initial state cannot reach the target
    m.append(("no_solution_loop", {"rewards": [0, 0], "players": [P1, PR],
                                   "transition_list": [[("a", 0)], [(1, 1)]], "final_states": [1]}))
    m.append(("no_solution_p2", {"rewards": [1, 0, 0], "players": [P2, PR, PR],
                                 "transition_list": [[("x", 1), ("y", 2)], [(1, 1)], [(1, 2)]],
                                 "final_states": [2]}))
    m.append(("no_solution_dead", {"rewards": [0, 0, 0], "players": [PR, PR, P1],
                                   "transition_list": [[(1, 0)], [(1, 1)], [("a", 1)]],
                                   "final_states": [1]}))
    return m


def escaping_games():
    """Malformed games whose error is not a ValueError: run_games() does not return."""
    m = []
    m.append(("missing_players", _mut(lambda g: g.pop("players"))))
    m.append(("extra_key", _mut(lambda g: g.__setitem__("threshold", 0.1))))
    m.append(("rewards_str", _mut(lambda g: g["rewards"].__setitem__(0, "1"))))
    m.append(("players_none", _mut(lambda g: g.__setitem__("players", None))))
    m.append(("tl_none", _mut(lambda g: g.__setitem__("transition_list", None))))
    m.append(("final_none", _mut(lambda g: g.__setitem__("final_states", None))))
    m.append(("game_is_list", [1, 2, 3]))
    m.append(("game_is_none", None))
    return m


def build_scenarios(good, rng):
    """good: list of well-formed, terminating games.  Returns a list of (tag, dict)."""
    bad = value_error_games()
    esc = escaping_games()
    scenarios = []
    # every good game alone (also the reference for the isolation check)
    for i, g in enumerate(good):
        scenarios.append(("solo", {"g%d" % i: g}))
    # every failing game alone
    for name, g in bad:
        scenarios.append(("solo_bad", {name: g}))
    # empty file
    scenarios.append(("empty", {}))
    # random batches of good games, then the same pool permuted / cut down
    for _ in range(120):
        k = rng.randint(2, 6)
        idx = rng.sample(range(len(good)), k)
        names = ["g%d" % i for i in idx]
        d = {n: good[i] for n, i in zip(names, idx)}
        scenarios.append(("batch", d))
        perm = names[:]
        rng.shuffle(perm)
        scenarios.append(("batch_perm", {n: d[n] for n in perm}))
        sub = [n for n in perm if rng.random() < 0.6] or perm[:1]
        scenarios.append(("batch_sub", {n: d[n] for n in sub}))
    # the same game object listed under several names (aliasing inside the file)
    for _ in range(15):
        i = rng.randrange(len(good))
        j = rng.randrange(len(good))
        scenarios.append(("alias", {"x": good[i], "y": good[j], "z": good[i]}))
    # failing games before / between / after solvable ones
    for name, g in bad:
        for _ in range(3):
            k = rng.randint(1, 3)
            idx = rng.sample(range(len(good)), k)
            items = [("g%d" % i, good[i]) for i in idx]
            pos = rng.randint(0, k)
            items.insert(pos, (name, g))
            scenarios.append(("mixed", dict(items)))
        # first, last, in the middle - deterministic
        i, j = rng.sample(range(len(good)), 2)
        scenarios.append(("bad_first", {name: g, "g%d" % i: good[i], "g%d" % j: good[j]}))
        scenarios.append(("bad_last", {"g%d" % i: good[i], "g%d" % j: good[j], name: g}))
        scenarios.append(("bad_mid", {"g%d" % i: good[i], name: g, "g%d" % j: good[j]}))
    # several failing games in one file
    for _ in range(40):
        k_bad = rng.randint(2, 4)
        k_good = rng.randint(0, 3)
        items = [bad[i] for i in rng.sample(range(len(bad)), k_bad)]
        items += [("g%d" % i, good[i]) for i in rng.sample(range(len(good)), k_good)]
        rng.shuffle(items)
        scenarios.append(("multi_bad", dict(items)))
    # only failing games
    scenarios.append(("all_bad", dict(bad)))
    # name collisions with the "_no_prune" suffix
    for _ in range(10):
        i, j = rng.sample(range(len(good)), 2)
        scenarios.append(("collide", {"a": good[i], "a_no_prune": good[j]}))
        scenarios.append(("collide", {"a_no_prune": good[j], "a": good[i]}))
        scenarios.append(("collide_bad", {"a": bad[rng.randrange(len(bad))][1], "a_no_prune": good[j]}))
    # odd names
    i, j = rng.sample(range(len(good)), 2)
    scenarios.append(("names", {"": good[i], " spaced name ": good[j]}))
    scenarios.append(("names_int", {1: good[i]}))
    scenarios.append(("names_int_after", {"ok": good[j], 7: good[i]}))
    scenarios.append(("names_tuple", {("t",): good[i]}))
    # malformed games escaping as another exception, at each position
    for name, g in esc:
        i, j = rng.sample(range(len(good)), 2)
        scenarios.append(("esc_solo", {name: g}))
        scenarios.append(("esc_first", {name: g, "g%d" % i: good[i]}))
        scenarios.append(("esc_last", {"g%d" % i: good[i], bad[0][0]: bad[0][1], name: g}))
        scenarios.append(("esc_mid", {"g%d" % i: good[i], name: g, "g%d" % j: good[j]}))
    return scenarios


# --------------------------------------------------------------------------- #
# worker side (runs with one tree on sys.path)

class _Timeout(BaseException):
    pass


def _alarm(signum, frame):
    raise _Timeout()


def worker_screen(root, games):
    sys.path.insert(0, root)
    import tad
    signal.signal(signal.SIGALRM, _alarm)
    ok = []
    for g in games:
        good = True
        for mode in (True, False):
            gc = copy.deepcopy(g)
            gc["prune_states"] = mode
            signal.setitimer(signal.ITIMER_REAL, 0.25)
            try:
                tad.StochasticGame(**gc).solve()
            except (_Timeout, Exception):
                # diverging value iteration, or not solvable: not in the "good" pool
                good = False
            finally:
                signal.setitimer(signal.ITIMER_REAL, 0)
            if not good:
                break
        ok.append(good)
    return ok


def _strip_time(text):
    return "\n".join(l for l in text.split("\n") if not l.startswith("Total time"))


def _freeze_results(res):
    out = []
    for name, entry in res.items():
        fields = []
        for k, v in entry.items():
            if k == "total_time":
                fields.append((k, "float" if isinstance(v, float) and v >= 0 else "BAD:%r" % (v,)))
            else:
                fields.append((k, repr(v)))
        out.append((repr(name), fields))
    return out


def _direct(tad, game, mode):
    """What solving that game alone gives, straight from the solver."""
    gc = copy.deepcopy(game)
    gc["prune_states"] = mode
    try:
        sg = tad.StochasticGame(**gc)
        n_states = sg.num_states
        n_trans = sg.count_transitions()
        out = sg.solve()
        return ("ok", n_states, n_trans, [repr(x) for x in out])
    except ValueError as e:
        return ("ValueError", str(e))
    except Exception as e:
        return ("other", type(e).__name__, str(e))


def worker_run(root, scenarios, extra):
    sys.path.insert(0, root)
    import logging
    import tad
    import conditionalrewards as cr
    logging.disable(logging.CRITICAL)
    tmp = tempfile.mkdtemp(prefix="c12w_")
    os.makedirs(os.path.join(tmp, "outputs"))
    os.chdir(tmp)
    has_only = "only" in inspect.signature(cr.run_games).parameters
    obs = []
    for tag, games in scenarios:
        o = {"tag": tag}
        inp = copy.deepcopy(games)
        try:
            res = cr.run_games(inp)
            o["result"] = ("ok", _freeze_results(res))
        except Exception as e:
            res = None
            o["result"] = ("exc", type(e).__name__, str(e))
        o["input_after"] = repr(inp)
        # the caller's own games (other than the flag) must not be altered
        if res is not None:
            rep = os.path.join(tmp, "outputs", "scn.txt")
            if os.path.exists(rep):
                os.remove(rep)
            try:
                cr.save_results_to_file(res, "some/dir/scn.v2.py")
                with open(rep) as f:
                    o["report"] = _strip_time(f.read())
            except Exception as e:
                o["report"] = "EXC %s %s" % (type(e).__name__, e)
            # direct solves for the property check
            direct = {}
            for name, g in games.items():
                direct[repr(name)] = (_direct(tad, g, True), _direct(tad, g, False))
            o["direct"] = direct
            # second run on the already used dictionary (history): same answer
            try:
                res2 = cr.run_games(inp)
                o["rerun"] = ("ok", _freeze_results(res2))
            except Exception as e:
                o["rerun"] = ("exc", type(e).__name__, str(e))
            if has_only and extra and all(isinstance(n, str) for n in games):
                names = list(games)
                rng = random.Random(len(obs))
                pick = [n for n in names if rng.random() < 0.5]
                rng.shuffle(pick)
                try:
                    sub = cr.run_games(copy.deepcopy(games), only=pick)
                    o["only"] = (pick, _freeze_results(sub))
                except Exception as e:
                    o["only"] = (pick, ("exc", type(e).__name__, str(e)))
        obs.append(o)
    os.chdir("/")
    shutil.rmtree(tmp, ignore_errors=True)
    return obs


# --------------------------------------------------------------------------- #
# driver

def call_worker(mode, root, payload):
    fd, inp = tempfile.mkstemp(prefix="c12in_")
    os.close(fd)
    fd, outp = tempfile.mkstemp(prefix="c12out_")
    os.close(fd)
    with open(inp, "wb") as f:
        pickle.dump(payload, f)
    try:
        p = subprocess.run([sys.executable, os.path.abspath(__file__), "--worker", mode,
                            os.path.abspath(root), inp, outp],
                           stdout=subprocess.PIPE, stderr=subprocess.PIPE, text=True, timeout=3000)
        if p.returncode != 0:
            print("worker failed (%s, %s):\n%s\n%s" % (mode, root, p.stdout[-2000:], p.stderr[-4000:]))
            print("FAIL")
            sys.exit(1)
        with open(outp, "rb") as f:
            return pickle.load(f)
    finally:
        os.remove(inp)
        os.remove(outp)


def run_cli(root, games_text, args=("-s",)):
    tmp = tempfile.mkdtemp(prefix="c12cli_")
    try:
        os.makedirs(os.path.join(tmp, "outputs"))
        os.makedirs(os.path.join(tmp, "inputs"))
        with open(os.path.join(tmp, "inputs", "batch_file.py"), "w") as f:
            f.write(games_text)
        env = dict(os.environ)
        env.pop("PYTHONPATH", None)
        env["PYTHONDONTWRITEBYTECODE"] = "1"
        p = subprocess.run([sys.executable, os.path.join(os.path.abspath(root), "conditionalrewards.py"),
                            "-f", "inputs/batch_file.py"] + list(args),
                           cwd=tmp, env=env, stdout=subprocess.PIPE, stderr=subprocess.PIPE,
                           text=True, timeout=300)
        rep = os.path.join(tmp, "outputs", "batch_file.txt")
        report = None
        if os.path.exists(rep):
            with open(rep) as f:
                report = _strip_time(f.read())
        err_lines = [l for l in p.stderr.strip().split("\n") if l]
        # log text without the wall clock lines and without traceback frames
        # (paths and line numbers of the two trees differ by construction)
        log_lines, in_tb = [], False
        for l in p.stderr.split("\n"):
            if l.startswith("Traceback (most recent call last)"):
                in_tb = True
                continue
            if in_tb and l.startswith(" "):
                continue
            in_tb = False
            if not l.startswith("Total time"):
                log_lines.append(l)
        log = "\n".join(log_lines)
        return {"rc": p.returncode, "last_err": err_lines[-1] if err_lines and p.returncode else "",
                "report": report, "stdout": p.stdout, "log": log,
                "files": sorted(os.listdir(os.path.join(tmp, "outputs")))}
    finally:
        shutil.rmtree(tmp, ignore_errors=True)


def check_property(o, problems, where):
    """The statement of C12, checked on one observation of the patched tree."""
    if o["result"][0] != "ok":
        return
    entries = dict((n, dict(f)) for n, f in o["result"][1])
    order = [n for n, _ in o["result"][1]]
    names = list(o["direct"])
    # name collisions make one entry overwrite another: not covered by the statement
    expected_names = []
    for n in names:
        raw = eval(n)
        if not isinstance(raw, str):
            return
        expected_names += [repr(raw), repr(raw + "_no_prune")]
    if len(set(expected_names)) != len(expected_names):
        return
    if order != expected_names:
        problems.append("%s: entry names/order %r != %r" % (where, order, expected_names))
        return
    for n in names:
        raw = eval(n)
        pruned, unpruned = o["direct"][n]
        e_p = entries[repr(raw)]
        e_u = entries[repr(raw + "_no_prune")]
        for e in (e_p, e_u):
            if list(e) != ENTRY_KEYS:
                problems.append("%s/%s: entry keys %r" % (where, n, list(e)))
        if pruned[0] == "ok":
            specs = [(e_p, pruned), (e_u, unpruned)]
            for e, d in specs:
                if d[0] != "ok":
                    # unpruned failing after pruned succeeded: entry carries that error
                    if e["msg"] != repr("Error while solving the game: %s" % d[1]):
                        problems.append("%s/%s: msg %s for %r" % (where, n, e["msg"], d))
                    continue
                if e["msg"] != repr("Game solved"):
                    problems.append("%s/%s: msg %s, expected solved" % (where, n, e["msg"]))
                if e["n_states"] != repr(d[1]) or e["n_transitions"] != repr(d[2]):
                    problems.append("%s/%s: counts differ from solo solve" % (where, n))
                for k, v in zip(SOLVE_KEYS, d[3]):
                    if e[k] != v:
                        problems.append("%s/%s: %s = %s, solo solve gives %s" % (where, n, k, e[k], v))
        elif pruned[0] == "ValueError":
            if e_p["msg"] != repr("Error while solving the game: %s" % pruned[1]):
                problems.append("%s/%s: failing entry msg %s vs %r" % (where, n, e_p["msg"], pruned[1]))
            if e_u["msg"] != repr("Game not solved"):
                problems.append("%s/%s: unpruned entry of failing game has msg %s" % (where, n, e_u["msg"]))
            for e in (e_p, e_u):
                for k in ("final_strategies", "reachability_strategies", "rewards", "probabilities"):
                    if e[k] != "None":
                        problems.append("%s/%s: %s = %s on unsolved entry" % (where, n, k, e[k]))
                for k in ("n_iterations_reach", "n_iterations_rew", "prob_min_rew", "rew_min_reach"):
                    if e[k] != "0":
                        problems.append("%s/%s: %s = %s on unsolved entry" % (where, n, k, e[k]))
        else:
            problems.append("%s/%s: run_games returned although the solo solve escapes: %r" % (where, n, pruned))


def main():
    if len(sys.argv) >= 2 and sys.argv[1] == "--worker":
        mode, root, inp, outp = sys.argv[2:6]
        with open(inp, "rb") as f:
            payload = pickle.load(f)
        if mode == "screen":
            out = worker_screen(root, payload)
        else:
            out = worker_run(root, payload["scenarios"], payload.get("extra", True))
        with open(outp, "wb") as f:
            pickle.dump(out, f)
        return 0

    if len(sys.argv) != 3:
        print(__doc__)
        return 2
    patched, clean = sys.argv[1], sys.argv[2]
    rng = random.Random(SEED)
    candidates = boundary_games() + [rand_game(rng) for _ in range(N_CANDIDATES)]
    keep = call_worker("screen", clean, candidates)
    good = [g for g, k in zip(candidates, keep) if k]
    print("well-formed terminating games: %d of %d candidates" % (len(good), len(candidates)))
    if len(good) < 300:
        print("too few games survived the screening")
        print("FAIL")
        return 1
    scenarios = build_scenarios(good, rng)
    print("scenarios: %d" % len(scenarios))

    obs_p = call_worker("run", patched, {"scenarios": scenarios})
    obs_c = call_worker("run", clean, {"scenarios": scenarios})
    problems = []
    n_exc = n_ok = 0
    for i, (op, oc) in enumerate(zip(obs_p, obs_c)):
        where = "scenario %d (%s)" % (i, op["tag"])
        for key in ("result", "input_after", "report", "rerun", "direct"):
            if op.get(key) != oc.get(key):
                problems.append("%s: %s differs\n   patched: %.600r\n   clean  : %.600r"
                                % (where, key, op.get(key), oc.get(key)))
        if op["result"][0] == "ok":
            n_ok += 1
            if op.get("rerun") != op["result"]:
                problems.append("%s: second run on the same dictionary differs" % where)
        else:
            n_exc += 1
        check_property(op, problems, where + " [patched]")
        check_property(oc, problems, where + " [clean]")
        # new option of the patched tree: a selection gives the very entries of the full run
        if "only" in op:
            pick, sub = op["only"]
            full = dict(op["result"][1])
            if isinstance(sub, tuple):
                problems.append("%s: only=%r raised %r" % (where, pick, sub))
            else:
                given = list(scenarios[i][1])
                expected = []
                for n in given:
                    if n in pick:
                        expected += [repr(n), repr(n + "_no_prune")]
                collide = len(set(given + [n + "_no_prune" for n in given])) != 2 * len(given)
                if not collide:
                    if [n for n, _ in sub] != expected:
                        problems.append("%s: only=%r gives entries %r, expected %r"
                                        % (where, pick, [n for n, _ in sub], expected))
                    for n, f in sub:
                        if f != full.get(n):
                            problems.append("%s: only=%r entry %s differs from the full run" % (where, pick, n))
    print("compared %d scenarios (%d returned, %d raised)" % (len(obs_p), n_ok, n_exc))

    # the real command line on a sample of files
    cli_idx = [i for i, (tag, d) in enumerate(scenarios)
               if tag in ("batch", "mixed", "multi_bad", "bad_first", "bad_last", "bad_mid",
                          "collide", "esc_mid", "esc_first", "empty", "all_bad", "names_int_after")]
    rng2 = random.Random(SEED + 1)
    rng2.shuffle(cli_idx)
    picked, seen = [], {}
    for i in cli_idx:
        tag = scenarios[i][0]
        if seen.get(tag, 0) < 4:
            seen[tag] = seen.get(tag, 0) + 1
            picked.append(i)
    n_cli = 0
    for i in picked:
        text = "# generated\n" + repr(scenarios[i][1]) + "\n"
        for args in (("-s",), ("-s", "-l", "i"), ()):
            if args != ("-s",) and n_cli > 60:
                continue
            rp = run_cli(patched, text, args)
            rc = run_cli(clean, text, args)
            n_cli += 1
            if rp != rc:
                for k in rp:
                    if rp[k] != rc[k]:
                        problems.append("CLI scenario %d (%s) args %r: %s differs\n   patched: %.500r\n   clean  : %.500r"
                                        % (i, scenarios[i][0], args, k, rp[k], rc[k]))
            if args == ("-s",) and rp["rc"] == 0 and obs_p[i]["result"][0] == "ok":
                if rp["report"] != obs_p[i].get("report"):
                    problems.append("CLI scenario %d: report differs from the in-process report" % i)
    # a file that is not a dictionary
    for text in ("[1, 2]\n", "{'g': 3}\n"):
        rp, rc = run_cli(patched, text), run_cli(clean, text)
        n_cli += 1
        if rp != rc:
            problems.append("CLI on %r differs: %r vs %r" % (text, rp, rc))
    print("compared %d command line runs" % n_cli)

    if problems:
        for p in problems[:40]:
            print(p)
        print("%d problems" % len(problems))
        print("FAIL")
        return 1
    print("PASS")
    return 0


if __name__ == "__main__":
    sys.exit(main())
