#!/usr/bin/env python
"""
Behavioural equivalence check for property C02 (reported expected rewards are
the values of the conditioned game).

usage:  python equiv_test.py <path-to-patched-root> <path-to-clean-root>

Both trees are loaded in separate subprocesses (this same file, --worker mode).
Every worker runs the same deterministic battery and prints one line per case
(`key<TAB>repr-of-result-or-exception`); the parent compares the two streams
line by line, prints PASS and exits 0 when nothing differs, FAIL otherwise.

Battery (aimed at the quantifier of C02):
  * ~450 random well-formed *stopping* games (cycles through probabilistic
    states, several finals, dead states, zero-probability successors in any
    number/position, ties in rewards and probabilities, random numbering),
    each solved with pruning on and off: repr() of the full solve() tuple,
    plus a check that the caller's description is left untouched;
  * ~120 "wild" games (arbitrary graphs, need not be stopping, duplicated
    action names, probabilities not summing to one, rewarding sinks);
  * a staged run of the pipeline on a subset (transition lists after
    restriction / pruning, one Bellman step per state, value iteration with
    thresholds 1e-6, 1e-3, 1 and 2, final strategies);
  * node-level Bellman steps on hand-filled state lists including negative,
    infinite and NaN estimates (exception type + message are compared);
  * boundary and malformed games;
  * DEBUG log of a few solves;
  * run_games() on the repository's small example inputs + the report file.

Budget: the clean tree does not converge on some non-stopping games, so every
case runs under a *deterministic* budget (number of per-state value iteration
steps, counted by wrapping the node methods) - both trees hit it at the same
point and the case is reported as BUDGET.  A wall-clock alarm is a last resort.
"""
import io
import math
import os
import random
import shutil
import signal
import subprocess
import sys
import tempfile
import time

SEED = 20260402
N_STOPPING = 450
N_WILD = 120
N_STAGED = 120
N_UNIT = 400
STEP_BUDGET = 60000          # per solve of a stopping game
WILD_STEP_BUDGET = 6000      # per solve of a wild game (most of them diverge)
FILE_STEP_BUDGET = 3000000   # per example input file
MAX_INPUT_BYTES = 32000
WALL_CLOCK = 60              # seconds per case, last resort

P1, P2, PR = "Player 1", "Player 2", "Probabilistic"


# --------------------------------------------------------------------------- #
# input generators (independent of the tree under test)

def _probabilities(rng, k):
    style = rng.random()
    if style < 0.35:
        weights = [rng.choice([1, 1, 2, 3]) for _ in range(k)]
        total = sum(weights)
        return [w / total for w in weights]
    if style < 0.55:
        table = {1: [1], 2: [0.5, 0.5], 3: [0.5, 0.25, 0.25], 4: [0.25] * 4,
                 5: [0.5, 0.125, 0.125, 0.125, 0.125]}
        probs = list(table[k])
        rng.shuffle(probs)
        return probs
    if style < 0.65:
        probs = [rng.choice([1e-9, 1e-6, 1e-3]) for _ in range(k - 1)]
        return probs + [1 - sum(probs)] if k > 1 else [1.0]
    raw = [rng.random() + 1e-3 for _ in range(k)]
    total = sum(raw)
    return [r / total for r in raw]


def gen_stopping(rng):
    """A well-formed stopping game: player states only move forward in a hidden
    ranking, probabilistic states may go anywhere but always have a positive
    chance to move forward; sinks carry no reward; finals are sinks."""
    n_inner = rng.randint(1, 9)
    n_sink = rng.randint(1, 4)
    n = n_inner + n_sink
    reward_pool = rng.choice([[0, 1, 2, 3, 5], [0, 0, 1], [1], [0.5, 1 / 3, 2.25, 10, 0],
                              [0, 7, 7, 7]])
    players, rewards, transitions = [], [], []
    for r in range(n_inner):
        kind = rng.choice([P1, P2, PR, PR])
        players.append(kind)
        rewards.append(rng.choice(reward_pool))
        forward = list(range(r + 1, n))
        if kind == PR:
            k = rng.randint(1, 5)
            probs = _probabilities(rng, k)
            targets = [rng.choice(forward)] + [rng.randrange(n) for _ in range(k - 1)]
            rng.shuffle(targets)
            trans = list(zip(probs, targets))
            for _ in range(rng.choice([0, 0, 0, 1, 1, 2, 3])):
                trans.insert(rng.randint(0, len(trans)),
                             (rng.choice([0, 0.0]), rng.randrange(n)))
            if rng.random() < 0.1:
                trans = [(1 if p == 1.0 else p, t) for p, t in trans]
        else:
            k = rng.randint(1, 4)
            trans = [(f"a{j}", rng.choice(forward)) for j in range(k)]
            if rng.random() < 0.25 and k > 1:      # provoke ties
                trans[-1] = (trans[-1][0], trans[0][1])
        transitions.append(trans)
    for s in range(n_inner, n):
        kind = rng.choice([PR, PR, P1, P2])
        players.append(kind)
        rewards.append(0)
        if kind == PR:
            transitions.append([(rng.choice([1, 1.0]), s)])
        else:
            transitions.append([("stay", s)])
    sinks = list(range(n_inner, n))
    finals = rng.sample(sinks, rng.randint(1, n_sink))
    if rng.random() < 0.1:
        finals.append(finals[0])
    # random numbering; mostly keep the top-ranked state as the initial state
    perm = list(range(n))
    rng.shuffle(perm)
    if rng.random() < 0.7:
        perm = _perm_fixing_zero(rng, n)
    return _renumber(players, rewards, transitions, finals, perm)


def _perm_fixing_zero(rng, n):
    rest = list(range(1, n))
    rng.shuffle(rest)
    return [0] + rest


def _renumber(players, rewards, transitions, finals, perm):
    n = len(players)
    new_players, new_rewards, new_trans = [None] * n, [None] * n, [None] * n
    for old in range(n):
        new = perm[old]
        new_players[new] = players[old]
        new_rewards[new] = rewards[old]
        new_trans[new] = [(x, perm[t]) for x, t in transitions[old]]
    return dict(rewards=new_rewards, players=new_players, transition_list=new_trans,
                final_states=[perm[f] for f in finals])


def gen_wild(rng):
    n = rng.randint(1, 8)
    players, rewards, transitions = [], [], []
    for s in range(n):
        kind = rng.choice([P1, P2, PR])
        players.append(kind)
        rewards.append(rng.choice([0, 0, 0, 0, 1, 2, 0.5, 3]))
        k = rng.randint(1, 4)
        if kind == PR:
            if rng.random() < 0.8:
                probs = _probabilities(rng, k)
            else:
                probs = [rng.choice([0, 0.2, 0.5, 1, 0.0]) for _ in range(k)]
            trans = [(p, rng.randrange(n)) for p in probs]
        else:
            names = ["a", "b", "c", "a"] if rng.random() < 0.2 else ["a", "b", "c", "d"]
            trans = [(names[j], rng.randrange(n)) for j in range(k)]
        transitions.append(trans)
    finals = rng.sample(range(n), rng.randint(1, max(1, n // 2)))
    return dict(rewards=rewards, players=players, transition_list=transitions,
                final_states=finals)


def boundary_games():
    g = {}
    g["single_final"] = dict(rewards=[0], players=[PR], transition_list=[[(1, 0)]],
                             final_states=[0])
    g["single_final_reward"] = dict(rewards=[3], players=[P1],
                                    transition_list=[[("a", 0)]], final_states=[0])
    g["single_not_final_ok"] = dict(rewards=[0, 0], players=[PR, PR],
                                    transition_list=[[(1, 0)], [(1, 1)]], final_states=[1])
    g["two_step"] = dict(rewards=[1, 0], players=[P2, PR],
                         transition_list=[[("x", 1)], [(1.0, 1)]], final_states=[1])
    g["all_zero_prob_to_final"] = dict(
        rewards=[1, 0, 0], players=[PR, PR, PR],
        transition_list=[[(0, 1), (1, 2)], [(1, 1)], [(1, 2)]], final_states=[1])
    g["many_zero_succ"] = dict(
        rewards=[2, 0, 0, 4], players=[PR, PR, PR, P1],
        transition_list=[[(0, 2), (0.5, 1), (0.0, 2), (0.5, 3), (0, 0)], [(1, 1)], [(1, 2)],
                         [("u", 1), ("v", 2)]], final_states=[1])
    g["p1_all_dead"] = dict(
        rewards=[1, 1, 0, 0], players=[P2, P1, PR, PR],
        transition_list=[[("l", 1), ("r", 3)], [("d", 2)], [(1, 2)], [(1, 3)]],
        final_states=[3])
    g["p2_can_avoid"] = dict(
        rewards=[1, 1, 0, 0], players=[P2, PR, PR, PR],
        transition_list=[[("l", 2), ("r", 1)], [(0.5, 0), (0.5, 3)], [(1, 2)], [(1, 3)]],
        final_states=[3])
    g["fig55"] = dict(
        rewards=[0, 2, 5 / 3, 0, 0, 0, 0, 0],
        players=[P1, P2, P2, PR, PR, PR, PR, PR],
        transition_list=[[("alfa", 1), ("beta", 2)], [("x", 3)], [("x", 4)],
                         [(0.5, 5), (0.5, 6)], [(0.75, 6), (0.25, 7)],
                         [(1, 5)], [(1, 6)], [(1, 7)]], final_states=[6])
    g["prob_cycle"] = dict(
        rewards=[1, 2, 0, 0], players=[PR, PR, PR, PR],
        transition_list=[[(0.5, 1), (0.5, 0)], [(0.9, 0), (0.05, 2), (0.05, 3)],
                         [(1, 2)], [(1, 3)]], final_states=[2])
    g["rewarding_dead_sink"] = dict(
        rewards=[1, 0, 5], players=[PR, PR, PR],
        transition_list=[[(0.5, 1), (0.5, 2)], [(1, 1)], [(1, 2)]], final_states=[1])
    g["rewarding_final"] = dict(
        rewards=[1, 4], players=[PR, PR],
        transition_list=[[(1, 1)], [(1, 1)]], final_states=[1])
    g["final_not_absorbing"] = dict(
        rewards=[1, 0, 0], players=[PR, P1, PR],
        transition_list=[[(1, 1)], [("back", 0), ("on", 2)], [(1, 2)]], final_states=[1])
    g["float_inf_reward"] = dict(
        rewards=[float("inf"), 0], players=[PR, PR],
        transition_list=[[(1, 1)], [(1, 1)]], final_states=[1])
    g["nan_reward"] = dict(
        rewards=[float("nan"), 0], players=[P1, PR],
        transition_list=[[("a", 1)], [(1, 1)]], final_states=[1])
    g["nan_reward_p2"] = dict(
        rewards=[1, float("nan"), 0], players=[P2, PR, PR],
        transition_list=[[("a", 1), ("b", 2)], [(1, 2)], [(1, 2)]], final_states=[2])
    g["bool_index"] = dict(
        rewards=[1, 0], players=[PR, PR],
        transition_list=[[(1, True)], [(1, 1)]], final_states=[1])
    g["tuple_finals"] = dict(
        rewards=[1, 0], players=[PR, PR],
        transition_list=[[(1, 1)], [(1, 1)]], final_states=(1,))
    # malformed
    g["bad_no_finals"] = dict(rewards=[0], players=[PR], transition_list=[[(1, 0)]],
                              final_states=[])
    g["bad_empty"] = dict(rewards=[], players=[], transition_list=[], final_states=[0])
    g["bad_none_transitions"] = dict(rewards=[0, 0, 0], players=[PR, PR, PR],
                                     transition_list=[None, [(1, 2)], [(1, 2)]],
                                     final_states=[2])
    g["bad_empty_transitions"] = dict(rewards=[0, 0], players=[PR, PR],
                                      transition_list=[[], [(1, 1)]], final_states=[1])
    g["bad_rewards_len"] = dict(rewards=[0, 0], players=[PR, PR, PR],
                                transition_list=[[(1, 1)], [(1, 2)], [(1, 2)]],
                                final_states=[2])
    g["bad_players_len"] = dict(rewards=[0, 0, 0], players=[PR, PR],
                                transition_list=[[(1, 2)], [(1, 2)], [(1, 2)]],
                                final_states=[2])
    g["bad_negative"] = dict(rewards=[-10, 0, 0], players=[PR, PR, PR],
                             transition_list=[[(1, 1)], [(1, 2)], [(1, 2)]], final_states=[2])
    g["bad_final_low"] = dict(rewards=[0, 0], players=[PR, PR],
                              transition_list=[[(1, 1)], [(1, 1)]], final_states=[-1])
    g["bad_final_high"] = dict(rewards=[0, 0], players=[PR, PR],
                               transition_list=[[(1, 1)], [(1, 1)]], final_states=[2])
    g["bad_player"] = dict(rewards=[0, 0], players=[PR, "Player 3"],
                           transition_list=[[(1, 1)], [(1, 1)]], final_states=[1])
    g["bad_tuple_states"] = dict(rewards=[0, 0, 0], players=[PR, PR, PR],
                                 transition_list=[(1, 1), (1, 2), (1, 2)], final_states=[2])
    g["bad_not_tuples"] = dict(rewards=[0, 0, 0], players=[PR, PR, PR],
                               transition_list=[[1, 2, 3], [1, 2], [1, 2]], final_states=[2])
    g["bad_triple"] = dict(rewards=[0, 0], players=[PR, PR],
                           transition_list=[[(1, 1, 4)], [(1, 1)]], final_states=[1])
    g["bad_action_type"] = dict(rewards=[0, 0], players=[P2, PR],
                                transition_list=[[(1, 1)], [(1, 1)]], final_states=[1])
    g["bad_prob_type"] = dict(rewards=[0, 0], players=[PR, PR],
                              transition_list=[[("alfa", 1)], [(1, 1)]], final_states=[1])
    g["bad_state_type"] = dict(rewards=[0, 0], players=[PR, PR],
                               transition_list=[[(1, "1")], [(1, 1)]], final_states=[1])
    g["bad_state_idx"] = dict(rewards=[0, 0], players=[PR, PR],
                              transition_list=[[(1, 10)], [(1, 1)]], final_states=[1])
    g["bad_reward_str"] = dict(rewards=["1", "0"], players=[PR, PR],
                               transition_list=[[(1, 1)], [(1, 1)]], final_states=[1])
    g["bad_reward_none"] = dict(rewards=[None, 0], players=[PR, PR],
                                transition_list=[[(1, 1)], [(1, 1)]], final_states=[1])
    g["initial_dead"] = dict(rewards=[1, 0, 0], players=[PR, PR, PR],
                             transition_list=[[(1, 1)], [(1, 1)], [(1, 2)]], final_states=[2])
    return g


# --------------------------------------------------------------------------- #
# worker

class Budget(Exception):
    pass


class WallClock(Exception):
    pass


class Worker:
    def __init__(self, root):
        self.root = os.path.abspath(root)
        sys.path.insert(0, self.root)
        import logging
        self.logging = logging
        logging.getLogger().addHandler(logging.NullHandler())   # keep basicConfig() away
        logging.disable(logging.CRITICAL)
        import tad
        import conditionalrewards
        assert os.path.abspath(tad.__file__).startswith(self.root), tad.__file__
        self.tad = tad
        self.cr = conditionalrewards
        self.steps = 0
        self.limit = STEP_BUDGET
        self._install_counters()
        self.out = []

    def _install_counters(self):
        tad = self.tad
        worker = self

        def wrap(func):
            def counted(*args, **kwargs):
                worker.steps += 1
                if worker.steps > worker.limit:
                    raise Budget()
                return func(*args, **kwargs)
            counted.__wrapped__ = func
            return counted

        for cls in (tad.Node, tad.ProbabilisticNode, tad.PlayerOne, tad.PlayerTwo):
            for name in ("value_iteration_rewards", "value_iteration_reach"):
                if name in cls.__dict__:
                    setattr(cls, name, wrap(cls.__dict__[name]))

    def emit(self, key, value):
        self.out.append(f"{key}\t{value}")

    def guarded(self, func, limit=STEP_BUDGET):
        self.steps = 0
        self.limit = limit

        def on_alarm(signum, frame):
            raise WallClock()
        signal.signal(signal.SIGALRM, on_alarm)
        signal.alarm(WALL_CLOCK)
        try:
            return "OK " + repr(func())
        except Budget:
            return "BUDGET"
        except WallClock:
            return "WALLCLOCK"
        except Exception as exc:            # type and message are both compared
            return f"EXC {type(exc).__name__}: {exc}"
        finally:
            signal.alarm(0)

    # -- cases ------------------------------------------------------------- #

    def solve_case(self, key, game, limit=STEP_BUDGET):
        import copy
        for prune in (True, False):
            mine = copy.deepcopy(game)
            before = repr(mine)

            def run():
                sgame = self.tad.StochasticGame(prune_states=prune, **mine)
                return sgame.count_transitions(), sgame.solve()
            self.emit(f"{key}/prune={prune}", self.guarded(run, limit))
            self.emit(f"{key}/prune={prune}/untouched", repr(mine) == before)

    def staged_case(self, key, game, threshold, limit=STEP_BUDGET):
        import copy
        tad = self.tad
        for prune in (True, False):
            mine = copy.deepcopy(game)

            def run():
                trace = []
                sgame = tad.StochasticGame(prune_states=prune, **mine)
                sgame.check_game()
                states = sgame.init_states()
                solver = tad.Solver(threshold=threshold, state_list=states)
                strategies, n_reach = solver.solve_reachability(
                    sgame.transition_list, sgame.final_states, prune)
                trace.append(("reach", strategies, n_reach,
                              [s.reach_probability for s in states]))
                solver.prune_reachability(strategies)
                trace.append(("restricted", [s.next_states for s in states]))
                if prune:
                    solver.prune_paths()
                    trace.append(("paths", [s.next_states for s in states]))
                    solver.prune_states()
                    trace.append(("states", [s.next_states for s in states]))
                trace.append(("step", [s.value_iteration_rewards(states) for s in states]))
                n_rew = solver.value_iteration_total_rewards()
                trace.append(("vi", n_rew, [(s.expected_rewards, s.expected_rewards_min_reach,
                                            s.expected_reach_min_rewards) for s in states]))
                trace.append(("final", solver._get_total_rewards_strategies()))
                trace.append(("again", solver.solve_total_rewards()))
                return trace
            self.emit(f"{key}/staged/thr={threshold}/prune={prune}", self.guarded(run, limit))

    def unit_cases(self, rng):
        tad = self.tad
        special = [0, 0.0, 1, 2, 2, 0.5, 1 / 3, 3, 1e-7, 5]
        nasty = special + [-1, -0.5, float("inf"), float("nan")]
        for case in range(N_UNIT):
            pool = nasty if case % 4 == 0 else special
            n = rng.randint(1, 6)
            kinds = [rng.choice([P1, P2, PR]) for _ in range(n)]
            states = []
            for idx, kind in enumerate(kinds):
                k = rng.randint(1, 4)
                if kind == PR:
                    trans = [(p, rng.randrange(n)) for p in _probabilities(rng, k)]
                    cls = tad.ProbabilisticNode
                else:
                    trans = [(f"a{j}", rng.randrange(n)) for j in range(k)]
                    cls = tad.PlayerOne if kind == P1 else tad.PlayerTwo
                states.append(cls(player=kind, idx=idx, reward=rng.choice(pool),
                                  next_states=trans, num_states=n,
                                  is_final_node=rng.random() < 0.3))
            for state in states:
                state.reach_probability = rng.choice([0, 0, 1, 0.5, 0.25, 0.9999996, 0.9999994])
                state.expected_rewards = rng.choice(pool)
                state.expected_rewards_min_reach = rng.choice(pool)
                state.expected_reach_min_rewards = rng.choice([0, 1, 0.5, 0.25])
            if rng.random() < 0.3:
                rng.choice(states).next_states = []
            for state in states:
                self.emit(f"unit{case}/{state.idx}/step", self.guarded(
                    lambda: state.value_iteration_rewards(states)))
                if state.player == P2:
                    for strategies in ([], ["a0"], ["a1", "a2"], ["zz"], ["a3", "a0"]):
                        self.emit(f"unit{case}/{state.idx}/minreach{strategies}", self.guarded(
                            lambda: state._expected_rewards_min_reach(states, strategies)))
                    self.emit(f"unit{case}/{state.idx}/worst", self.guarded(
                        lambda: (state.get_worst_strategies_reachability(states, 6),
                                 state.get_worst_strategies_total_rewards(states, 6))))
                if state.player == P1:
                    self.emit(f"unit{case}/{state.idx}/best", self.guarded(
                        lambda: (state.get_best_strategies_reachability(states, 6),
                                 state.get_best_strategies_total_rewards(states, 6))))
            # the solver loop on the hand-filled list (may diverge -> BUDGET)
            threshold = rng.choice([1e-6, 1e-6, 1e-2, 1, 5])

            def run_solver():
                solver = tad.Solver(threshold=threshold, state_list=states)
                if case % 3 == 0:
                    solver.prune_stochastich_game()
                count = solver.value_iteration_total_rewards()
                return count, [s.next_states for s in states], [
                    (s.expected_rewards, s.expected_rewards_min_reach,
                     s.expected_reach_min_rewards) for s in states]
            self.emit(f"unit{case}/solver/thr={threshold}", self.guarded(run_solver, 4000))
        self.emit("empty_solver", self.guarded(
            lambda: (tad.Solver(state_list=[]).value_iteration_total_rewards(),
                     tad.Solver(state_list=[]).solve_total_rewards())))

    def debug_log_cases(self, games):
        logging = self.logging
        for key, game in games:
            stream = io.StringIO()
            handler = logging.StreamHandler(stream)
            handler.setFormatter(logging.Formatter("%(levelname)s %(message)s"))
            root_logger = logging.getLogger()
            old_level = root_logger.level
            root_logger.addHandler(handler)
            root_logger.setLevel(logging.DEBUG)
            logging.disable(logging.NOTSET)
            try:
                for prune in (True, False):
                    self.emit(f"{key}/debug/prune={prune}", self.guarded(
                        lambda: self.tad.StochasticGame(prune_states=prune, **game).solve()))
            finally:
                logging.disable(logging.CRITICAL)
                root_logger.removeHandler(handler)
                root_logger.setLevel(old_level)
            self.emit(f"{key}/debug/log", repr(stream.getvalue()))

    def file_cases(self):
        inputs = os.path.join(self.root, "inputs")
        names = sorted(n for n in os.listdir(inputs) if n.endswith(".py")
                       and os.path.getsize(os.path.join(inputs, n)) <= MAX_INPUT_BYTES)
        workdir = tempfile.mkdtemp(prefix="equiv_c02_")
        os.makedirs(os.path.join(workdir, "outputs"))
        os.chdir(workdir)
        for name in names:
            path = os.path.join(inputs, name)
            holder = {}

            def run():
                results = self.cr.run_games(self.cr.read_dict_from_file(path))
                holder["results"] = results
                return [(k, sorted((f, v) for f, v in r.items() if f != "total_time"))
                        for k, r in results.items()]
            self.emit(f"file/{name}", self.guarded(run, FILE_STEP_BUDGET))
            if "results" in holder:
                for r in holder["results"].values():
                    r["total_time"] = 0.0
                self.cr.save_results_to_file(holder["results"], path)
                with open(os.path.join(workdir, "outputs", name[:-3] + ".txt")) as fh:
                    self.emit(f"file/{name}/report", repr(fh.read()))
        os.chdir(tempfile.gettempdir())
        shutil.rmtree(workdir, ignore_errors=True)

    def run(self):
        rng = random.Random(SEED)
        stopping = [gen_stopping(rng) for _ in range(N_STOPPING)]
        wild = [gen_wild(rng) for _ in range(N_WILD)]
        for i, game in enumerate(stopping):
            self.solve_case(f"stop{i}", game)
        for i, game in enumerate(wild):
            self.solve_case(f"wild{i}", game, WILD_STEP_BUDGET)
        for key, game in boundary_games().items():
            self.solve_case(f"edge/{key}", game)
        thresholds = [1e-6, 1e-3, 1, 2, 1e-9]
        for i in range(N_STAGED):
            game = stopping[i] if i % 4 else wild[i % N_WILD]
            self.staged_case(f"g{i}", game, thresholds[i % len(thresholds)],
                             STEP_BUDGET if i % 4 else WILD_STEP_BUDGET)
        for key, game in boundary_games().items():
            if not key.startswith("bad_"):
                self.staged_case(f"edge/{key}", game, 1e-6)
        self.unit_cases(random.Random(SEED + 1))
        edge = boundary_games()
        self.debug_log_cases([("stop0", stopping[0]), ("stop1", stopping[1]),
                              ("stop2", stopping[2]), ("fig55", edge["fig55"]),
                              ("many_zero_succ", edge["many_zero_succ"]),
                              ("p1_all_dead", edge["p1_all_dead"])])
        self.file_cases()
        sys.stdout.write("\n".join(self.out) + "\n")


# --------------------------------------------------------------------------- #
# parent

def main(argv):
    if len(argv) == 3 and argv[1] == "--worker":
        Worker(argv[2]).run()
        return 0
    if len(argv) != 3:
        print(__doc__)
        return 2
    started = time.time()
    roots = [os.path.abspath(argv[1]), os.path.abspath(argv[2])]
    env = dict(os.environ, PYTHONDONTWRITEBYTECODE="1", PYTHONHASHSEED="0")
    procs = [subprocess.Popen([sys.executable, os.path.abspath(__file__), "--worker", root],
                              stdout=subprocess.PIPE, stderr=subprocess.PIPE, text=True,
                              env=env, cwd=tempfile.gettempdir())
             for root in roots]
    outputs = []
    for proc, root in zip(procs, roots):
        out, err = proc.communicate()
        if proc.returncode != 0:
            print(f"FAIL: worker for {root} crashed (exit {proc.returncode})")
            print(err[-3000:])
            return 1
        outputs.append(out.splitlines())
    patched, clean = outputs
    differences = []
    if len(patched) != len(clean):
        differences.append(f"different number of cases: {len(patched)} vs {len(clean)}")
    for line_p, line_c in zip(patched, clean):
        if line_p != line_c:
            differences.append(f"patched: {line_p[:600]}\n  clean  : {line_c[:600]}")
    kinds = {}
    for line in clean:
        verdict = line.split("\t", 1)[1].split(" ", 1)[0]
        kinds[verdict] = kinds.get(verdict, 0) + 1
    print(f"{len(clean)} cases compared in {time.time() - started:.1f}s; outcome kinds: {kinds}")
    if kinds.get("WALLCLOCK"):
        differences.append("a case hit the wall-clock limit: comparison inconclusive")
    if differences:
        print(f"FAIL: {len(differences)} difference(s)")
        for diff in differences[:15]:
            print("  " + diff)
        return 1
    print("PASS")
    return 0


if __name__ == "__main__":
    sys.exit(main(sys.argv))
