#!/usr/bin/env python
"""Behavioural equivalence check for property C03 (conditioning on reachability).

usage:  python equiv_test.py <path-to-patched-root> <path-to-clean-root>

Both trees are loaded in separate subprocesses (this same file, --worker mode).
Every worker runs the same deterministic list of cases and prints one JSON
record per case (case id -> repr of the outcome, or exception type + message).
The parent compares the two streams record by record, prints PASS and exits 0
when nothing differs, FAIL (and the first differences) otherwise.

What is exercised (all aimed at the quantifier of C03):
 * unit level: ProbabilisticNode.prune_paths / PlayerOne.prune_paths on nodes
   with 1..5 successors and EVERY pattern of zero-probability successors
   (none, first, last, adjacent, separated, all), several "zero" and "almost
   zero" values, duplicate transitions, int and float probabilities;
 * remove_path (both classes): every element, duplicates, absent element,
   probability-1 element (ZeroDivisionError), prune_paths_reachability with
   lists/tuples/sets/empty strategies;
 * Solver.prune_reachability / prune_paths / prune_states / prune_stochastich_game
   on random games with ARBITRARY (hand assigned) reachability outcomes;
 * several hundred random well-formed games (cycles through probabilistic
   states, several finals, dead states, ties, parallel edges), both pruning
   modes: the staged pipeline with a snapshot of every next_states after every
   stage, and the full StochasticGame.solve() result; the caller's
   transition_list is checked for mutation;
 * boundary and malformed games (exception type and message);
 * the shipped small input files through conditionalrewards.run_games.
Every value iteration has a deterministic iteration budget (the clean tree does
not converge on some non-stopping games) plus a wall clock alarm as a backstop.
"""
import json
import os
import random
import signal
import subprocess
import sys
import time

ITERATION_BUDGET = 1500
WALL_BUDGET = 20  # seconds, backstop only

P1, P2, PR = "Player 1", "Player 2", "Probabilistic"


# --------------------------------------------------------------------------- worker

class _Budget(BaseException):
    pass


class _Alarm(BaseException):
    pass


class _LoggingProxy:
    """Stands in for the `logging` module inside tad: counts value-iteration
    rounds (every round logs "iteration <i>") and aborts a solve that exceeds
    the budget.  Deterministic, identical for both trees."""

    def __init__(self, real):
        self._real = real
        self.count = 0

    def __getattr__(self, name):
        return getattr(self._real, name)

    def debug(self, msg, *args, **kwargs):
        if isinstance(msg, str) and msg.startswith("iteration"):
            self.count += 1
            if self.count > ITERATION_BUDGET:
                raise _Budget()

    def info(self, msg, *args, **kwargs):
        pass

    def error(self, msg, *args, **kwargs):
        pass


def _on_alarm(signum, frame):
    raise _Alarm()


def guarded(proxy, fn, partial=None):
    """Run fn() -> ['ok', repr] / ['exc', type, msg] / ['budget'] / ['alarm'].
    `partial` is a list the callee fills stage by stage; what it gathered before
    an exception / the budget is part of the compared record."""
    proxy.count = 0
    signal.signal(signal.SIGALRM, _on_alarm)
    signal.alarm(WALL_BUDGET)
    try:
        try:
            res = ["ok", repr(fn())]
        except _Budget:
            res = ["budget"]
        except _Alarm:
            res = ["alarm"]
        except Exception as exc:  # noqa: BLE001 - we compare type and message
            res = ["exc", type(exc).__name__, str(exc)]
    finally:
        signal.alarm(0)
    if partial is not None:
        res.append(repr(partial))
    return res


def snap(state_list):
    return [(type(s.next_states).__name__, list(s.next_states)) for s in state_list]


def snap_full(state_list):
    return [(type(s).__name__, s.player, s.idx, s.reward, type(s.next_states).__name__,
             list(s.next_states), s.is_final_node, s.reach_probability,
             s.expected_rewards, s.expected_rewards_min_reach,
             s.expected_reach_min_rewards) for s in state_list]


# ---- random material

def rand_probs(rng, k):
    style = rng.randrange(5)
    if style == 0:           # equal split, exact in binary for k = 1, 2, 4
        return [1 / k] * k
    if style == 1:           # integer weights over a common denominator
        w = [rng.randint(1, 9) for _ in range(k)]
        t = sum(w)
        return [x / t for x in w]
    if style == 2:           # decimals
        cuts = sorted(round(rng.random(), 2) for _ in range(k - 1))
        cuts = [0.0] + cuts + [1.0]
        p = [round(cuts[i + 1] - cuts[i], 2) for i in range(k)]
        if min(p) <= 0:
            return [1 / k] * k
        return p
    if style == 3:           # one dominant, tiny rest
        if k == 1:
            return [1]
        tiny = rng.choice([1e-3, 1e-6, 1e-9])
        return [1 - tiny * (k - 1)] + [tiny] * (k - 1)
    w = [rng.random() + 0.01 for _ in range(k)]
    t = sum(w)
    return [x / t for x in w]


ACTIONS = ["a", "b", "c", "d", "e", "f"]


def rand_game(rng):
    n = rng.randint(2, 11)
    n_sinks = rng.randint(1, max(1, n // 3))
    n_dead = rng.randint(0, 2)
    players = []
    for i in range(n):
        players.append(rng.choice([P1, P2, PR, PR, P1]))
    sinks = list(range(n - n_sinks, n))
    dead = []
    if n - n_sinks - 1 > 1:
        dead = rng.sample(range(1, n - n_sinks), min(n_dead, n - n_sinks - 1))
    finals = sorted(set(rng.sample(sinks, rng.randint(1, len(sinks)))))
    if rng.random() < 0.15:
        finals.append(rng.randrange(n))       # a final in the middle of the graph
    if rng.random() < 0.1:
        rng.shuffle(finals)
    transitions = []
    for i in range(n):
        if i in sinks:
            players[i] = rng.choice([PR, PR, P1, P2])
            transitions.append([(1, i)] if players[i] == PR else [("stay", i)])
            continue
        if i in dead:
            # dead region: only moves inside dead states / itself
            targets = [rng.choice(dead) for _ in range(rng.randint(1, 2))]
        else:
            k = rng.randint(1, 5)
            forward_bias = rng.random() < 0.6
            targets = []
            for _ in range(k):
                if forward_bias and i + 1 < n:
                    targets.append(rng.randint(i + 1, n - 1))
                else:
                    targets.append(rng.randrange(n))
            if rng.random() < 0.2:                      # parallel edges
                targets.append(targets[0])
            if dead and rng.random() < 0.5:             # edges into the dead region
                for _ in range(rng.randint(1, 3)):
                    targets.insert(rng.randint(0, len(targets)), rng.choice(dead))
        if players[i] == PR:
            probs = rand_probs(rng, len(targets))
            transitions.append(list(zip(probs, targets)))
        else:
            acts = ACTIONS[:len(targets)] + ["g%d" % j for j in range(len(targets) - len(ACTIONS))]
            if rng.random() < 0.15 and len(acts) > 1:   # duplicated action label
                acts[-1] = acts[0]
            transitions.append(list(zip(acts, targets)))
    rstyle = rng.randrange(4)
    if rstyle == 0:
        rewards = [0] * n
    elif rstyle == 1:
        rewards = [rng.randint(0, 5) for _ in range(n)]
    elif rstyle == 2:
        rewards = [rng.choice([0, 0, 1, 2.5, 5 / 3]) for _ in range(n)]
    else:
        rewards = [rng.randint(0, 3) for i in range(n)]
    # absorbing states (and usually the dead region) carry no reward, as in the
    # shipped inputs: otherwise total rewards never converge
    keep_dead_rewards = rng.random() < 0.25
    for i in range(n):
        if i in sinks and rng.random() < 0.95:
            rewards[i] = 0
        if i in dead and not keep_dead_rewards:
            rewards[i] = 0
    return dict(rewards=rewards, players=players, transition_list=transitions,
                final_states=finals)


def deep(game):
    return dict(rewards=list(game["rewards"]), players=list(game["players"]),
                transition_list=[list(t) for t in game["transition_list"]],
                final_states=list(game["final_states"]))


# ---- case groups

def unit_prune_paths(tad, proxy, emit):
    """Every pattern of dead successors on nodes with 1..5 successors."""
    zero_values = [0, 0.0, -0.0]
    live_values = [1, 0.5, 1e-300, 1e-7, 0.9999999]
    rng = random.Random(11)
    for k in range(1, 6):
        for mask in range(2 ** k):
            for variant in range(3):
                n = k + 1
                # world: state 0 is the node under test, states 1..k its successors
                world = []
                for i in range(n):
                    world.append(tad.ProbabilisticNode(PR, i, 0, [(1, i)], n, False))
                for j in range(k):
                    dead = (mask >> j) & 1
                    world[j + 1].reach_probability = (
                        zero_values[(variant + j) % 3] if dead
                        else live_values[(variant + j) % len(live_values)])
                targets = list(range(1, k + 1))
                if variant == 2 and k > 1:
                    targets[-1] = targets[0]            # duplicate target
                probs = rand_probs(rng, k)
                if variant == 1:
                    probs = [1 / k] * k                  # identical tuples when dup
                pnode = tad.ProbabilisticNode(PR, 0, 3, list(zip(probs, targets)), n, False)
                onode = tad.PlayerOne(P1, 0, 3, [(ACTIONS[j], targets[j]) for j in range(k)], n)
                for name, node in (("prob", pnode), ("p1", onode)):
                    before = node.next_states
                    res = guarded(proxy, lambda: (node.prune_paths(world),
                                                  type(node.next_states).__name__,
                                                  node.next_states))
                    emit("unit-prune/%s/k%d/m%d/v%d" % (name, k, mask, variant),
                         [res, repr(before)])
    # the node itself among its successors, with reach 0 / non 0
    for reach in (0, 0.25):
        world = [tad.ProbabilisticNode(PR, i, 0, [(1, i)], 3, False) for i in range(3)]
        node = tad.ProbabilisticNode(PR, 0, 1, [(0.25, 0), (0.25, 1), (0.5, 2)], 3, False)
        world[0] = node
        node.reach_probability = reach
        world[2].reach_probability = 1
        emit("unit-prune/self/%r" % reach,
             guarded(proxy, lambda: (node.prune_paths(world), node.next_states)))
        one = tad.PlayerOne(P1, 0, 1, [("a", 0), ("b", 1), ("c", 2), ("d", 0)], 3)
        world[0] = one
        one.reach_probability = reach
        emit("unit-prune/self-p1/%r" % reach,
             guarded(proxy, lambda: (one.prune_paths(world), one.next_states)))
    # a node whose list was already emptied
    world = [tad.ProbabilisticNode(PR, i, 0, [(1, i)], 2, False) for i in range(2)]
    for cls, ns in ((tad.ProbabilisticNode, [(1, 1)]), (tad.PlayerOne, [("a", 1)])):
        node = cls(PR if cls is tad.ProbabilisticNode else P1, 0, 0, ns, 2, False)
        node.next_states = []
        emit("unit-prune/empty/%s" % cls.__name__,
             guarded(proxy, lambda: (node.prune_paths(world), node.next_states)))


def unit_remove_path(tad, proxy, emit):
    rng = random.Random(12)
    for case in range(60):
        k = rng.randint(1, 5)
        n = 6
        targets = [rng.randrange(n) for _ in range(k)]
        probs = rand_probs(rng, k)
        if case % 5 == 0 and k > 1:
            probs[-1], targets[-1] = probs[0], targets[0]    # equal tuples
        trans = list(zip(probs, targets))
        for j in range(k + 2):
            node = tad.ProbabilisticNode(PR, 0, 0, list(trans), n, False)
            if j < k:
                victim = trans[j]
            elif j == k:
                victim = (0.123, 5)                          # absent
            else:
                victim = (float(trans[0][0]), trans[0][1])   # equal but distinct object
            emit("unit-remove/prob/%d/%d" % (case, j),
                 guarded(proxy, lambda: (node.remove_path(victim),
                                         type(node.next_states).__name__, node.next_states)))
        acts = [(ACTIONS[j], targets[j]) for j in range(k)]
        for j in range(k + 1):
            node = tad.PlayerOne(P1, 0, 0, list(acts), n)
            victim = acts[j] if j < k else ("zz", 0)
            emit("unit-remove/p1/%d/%d" % (case, j),
                 guarded(proxy, lambda: (node.remove_path(victim), node.next_states)))
    # probability 1 element with others left -> ZeroDivisionError; alone -> []
    for trans in ([(1, 1), (0, 2)], [(1, 1)], [(1.0, 1), (0.0, 2), (0.0, 3)], [(0.5, 1), (0.5, 1)]):
        node = tad.ProbabilisticNode(PR, 0, 0, list(trans), 4, False)
        emit("unit-remove/one/%r" % (trans,),
             guarded(proxy, lambda: (node.remove_path(trans[0]), node.next_states)))
    # malformed victims
    for victim in (None, (), (0.5,), "x", 3):
        node = tad.ProbabilisticNode(PR, 0, 0, [(0.5, 1), (0.5, 2)], 4, False)
        emit("unit-remove/bad/%r" % (victim,),
             guarded(proxy, lambda: (node.remove_path(victim), node.next_states)))


def unit_prune_reachability(tad, proxy, emit):
    rng = random.Random(13)
    for case in range(80):
        k = rng.randint(1, 6)
        acts = [rng.choice(ACTIONS[:4]) for _ in range(k)] if case % 3 == 0 else ACTIONS[:k]
        trans = [(acts[j], rng.randrange(5)) for j in range(k)]
        pool = sorted(set(acts)) + ["nope"]
        chosen = [a for a in pool if rng.random() < 0.5]
        shapes = [list(chosen), tuple(chosen), set(chosen), [], chosen + chosen,
                  list(reversed(chosen))]
        for si, best in enumerate(shapes):
            node = tad.PlayerOne(P1, 0, 0, list(trans), 5)
            emit("unit-best/%d/%d" % (case, si),
                 guarded(proxy, lambda: (node.prune_paths_reachability(best),
                                         type(node.next_states).__name__, node.next_states)))
    for best in (None, 5):
        node = tad.PlayerOne(P1, 0, 0, [("a", 1)], 5)
        emit("unit-best/bad/%r" % (best,),
             guarded(proxy, lambda: (node.prune_paths_reachability(best), node.next_states)))


def arbitrary_outcomes(tad, proxy, emit):
    """Solver level pruning with hand assigned reachability outcomes."""
    rng = random.Random(14)
    values = [0, 0, 0.0, 1, 0.5, 1e-9, 0.3333333333333333, -0.0]
    for case in range(250):
        game = rand_game(rng)
        ref = deep(game)
        sg = tad.StochasticGame(**game)

        def run():
            out = []
            state_list = sg.init_states()
            solver = tad.Solver(threshold=10 ** (-6), state_list=state_list)
            for s in state_list:
                s.reach_probability = rng_local.choice(values)
            strategies = []
            for s in state_list:
                if s.player == P1:
                    acts = [a for a, _ in s.next_states]
                    pick = [a for a in acts if rng_local.random() < 0.6]
                    strategies.append(pick if mode != 2 else acts)
                elif s.player == P2:
                    strategies.append([a for a, _ in s.next_states][:1])
                else:
                    strategies.append(None)
            if mode != 1:
                out.append(solver.prune_reachability(strategies))
                out.append(snap(state_list))
            if mode == 3:
                out.append(solver.prune_stochastich_game())
                out.append(snap(state_list))
            else:
                out.append(solver.prune_paths())
                out.append(snap(state_list))
                out.append(solver.prune_states())
                out.append(snap(state_list))
                out.append(solver.prune_states())       # idempotent second call
                out.append(snap(state_list))
            out.append(snap_full(state_list))
            return out

        for mode in (0, 1, 2, 3):
            rng_local = random.Random(case * 10 + mode)
            emit("arb/%d/%d" % (case, mode), guarded(proxy, run))
        emit("arb/%d/input-untouched" % case, repr(game) == repr(ref))


def staged(tad, proxy, game, prune, out):
    sg = tad.StochasticGame(prune_states=prune, **game)
    sg.check_game()
    state_list = sg.init_states()
    solver = tad.Solver(threshold=10 ** (-6), state_list=state_list)
    strategies, n_reach = solver.solve_reachability(
        sg.transition_list, sg.final_states, sg.prune_states)
    out.append((strategies, n_reach, [s.reach_probability for s in state_list]))
    out.append(solver.prune_reachability(strategies))
    out.append(snap(state_list))
    if prune:
        out.append(solver.prune_stochastich_game())
        out.append(snap(state_list))
        # the property itself, as data: surviving probabilities per state
        out.append([sum(p for p, _ in s.next_states) if s.player == PR and s.next_states else None
                    for s in state_list])
    out.append(solver.solve_total_rewards())
    out.append(snap_full(state_list))
    return len(out)


def random_games(tad, proxy, emit):
    rng = random.Random(15)
    for case in range(420):
        game = rand_game(rng)
        ref = repr(game)
        for prune in (True, False):
            emit("game/%d/%s/solve" % (case, prune),
                 guarded(proxy, lambda: tad.StochasticGame(prune_states=prune, **game).solve()))
            stages = []
            emit("game/%d/%s/staged" % (case, prune),
                 guarded(proxy, lambda: staged(tad, proxy, game, prune, stages), stages))
        emit("game/%d/input-untouched" % case, repr(game) == ref)


def handmade_games(tad, proxy, emit):
    games = {}
    # two adjacent dead successors, two separated, first, last, all but one; P1 and probabilistic
    sinks = [[(1, 5)], [(1, 6)], [(1, 7)]]
    for name, first in {
        "adjacent": [(0.25, 5), (0.25, 7), (0.5, 6)],
        "adjacent-tail": [(0.5, 6), (0.25, 5), (0.25, 7)],
        "separated": [(0.25, 5), (0.5, 6), (0.25, 7)],
        "all-but-one": [(0.2, 5), (0.2, 7), (0.2, 5), (0.2, 6), (0.2, 7)],
        "none": [(0.5, 6), (0.5, 6)],
        "three": [(0.1, 5), (0.1, 7), (0.1, 5), (0.7, 6)],
    }.items():
        games["prob-" + name] = dict(
            rewards=[1, 0, 0, 0, 0, 0, 0, 0],
            players=[PR, PR, PR, PR, PR, PR, PR, PR],
            transition_list=[[(0.5, 1), (0.5, 2)], first, [(1, 3)], [(1, 4)], [(1, 6)]] + sinks,
            final_states=[6])
    for name, first in {
        "adjacent": [("a", 5), ("b", 7), ("c", 6)],
        "separated": [("a", 5), ("c", 6), ("b", 7)],
        "tie": [("a", 6), ("b", 5), ("c", 6), ("d", 7)],
        "all-dead": [("a", 5), ("b", 7)],
    }.items():
        games["p1-" + name] = dict(
            rewards=[1, 2, 0, 0, 0, 0, 0, 0],
            players=[P2, P1, PR, PR, PR, PR, PR, PR],
            transition_list=[[("x", 1), ("y", 2)], first, [(1, 3)], [(1, 4)], [(1, 6)]] + sinks,
            final_states=[6])
    # initial state dead
    games["init-dead"] = dict(rewards=[0, 0, 0], players=[PR, PR, PR],
                              transition_list=[[(1, 1)], [(1, 1)], [(1, 2)]], final_states=[2])
    # initial state final
    games["init-final"] = dict(rewards=[3, 1], players=[PR, PR],
                               transition_list=[[(1, 1)], [(1, 1)]], final_states=[0])
    # single state
    games["single"] = dict(rewards=[0], players=[PR], transition_list=[[(1, 0)]], final_states=[0])
    # cycle through probabilistic states with a leak into a dead state
    games["cycle"] = dict(rewards=[1, 1, 0, 0], players=[PR, PR, PR, PR],
                          transition_list=[[(0.5, 1), (0.25, 2), (0.25, 3)],
                                           [(0.5, 0), (0.5, 3)], [(1, 2)], [(1, 3)]],
                          final_states=[2])
    # unreachable P2 / probabilistic states after pruning
    games["orphans"] = dict(
        rewards=[0, 1, 1, 1, 0, 0],
        players=[P1, P2, PR, P2, PR, PR],
        transition_list=[[("a", 1), ("b", 2)], [("x", 4)], [(0.5, 3), (0.5, 5)],
                         [("y", 5), ("z", 2)], [(1, 4)], [(1, 5)]],
        final_states=[4])
    # malformed
    games["bad-len"] = dict(rewards=[0], players=[PR, PR], transition_list=[[(1, 0)]], final_states=[0])
    games["bad-rewards"] = dict(rewards=[0, -1], players=[PR, PR],
                                transition_list=[[(1, 1)], [(1, 1)]], final_states=[1])
    games["bad-final"] = dict(rewards=[0, 0], players=[PR, PR],
                              transition_list=[[(1, 1)], [(1, 1)]], final_states=[2])
    games["no-final"] = dict(rewards=[0, 0], players=[PR, PR],
                             transition_list=[[(1, 1)], [(1, 1)]], final_states=[])
    games["bad-player"] = dict(rewards=[0, 0], players=[PR, "Player 3"],
                               transition_list=[[(1, 1)], [(1, 1)]], final_states=[1])
    games["empty-trans"] = dict(rewards=[0, 0], players=[PR, PR],
                                transition_list=[[(1, 1)], []], final_states=[1])
    games["tuple-trans"] = dict(rewards=[0, 0], players=[PR, PR],
                                transition_list=[[(1, 1)], ((1, 1),)], final_states=[1])
    games["list-pair"] = dict(rewards=[0, 0], players=[PR, PR],
                              transition_list=[[(1, 1)], [[1, 1]]], final_states=[1])
    games["triple"] = dict(rewards=[0, 0], players=[PR, PR],
                           transition_list=[[(1, 1)], [(1, 1, 1)]], final_states=[1])
    games["bad-action"] = dict(rewards=[0, 0], players=[P1, PR],
                               transition_list=[[(1, 1)], [(1, 1)]], final_states=[1])
    games["bad-prob"] = dict(rewards=[0, 0], players=[PR, PR],
                             transition_list=[[("a", 1)], [(1, 1)]], final_states=[1])
    games["bad-target"] = dict(rewards=[0, 0], players=[PR, PR],
                               transition_list=[[(1, 2)], [(1, 1)]], final_states=[1])
    games["float-target"] = dict(rewards=[0, 0], players=[PR, PR],
                                 transition_list=[[(1, 1.0)], [(1, 1)]], final_states=[1])
    games["neg-target"] = dict(rewards=[0, 0], players=[PR, PR],
                               transition_list=[[(1, -1)], [(1, 1)]], final_states=[1])
    for name, game in games.items():
        ref = repr(game)
        for prune in (True, False):
            emit("hand/%s/%s/solve" % (name, prune),
                 guarded(proxy, lambda: tad.StochasticGame(prune_states=prune, **game).solve()))
            stages = []
            emit("hand/%s/%s/staged" % (name, prune),
                 guarded(proxy, lambda: staged(tad, proxy, game, prune, stages), stages))
        emit("hand/%s/input-untouched" % name, repr(game) == ref)


SMALL_INPUTS = ["example_games.py", "paper_games.py", "example_17_08.py",
                "robot_1_w1_l2_r6_rb10_lb5_tb10_lt0.py", "robot_1_w2_l1_r6_rb10_lb5_tb10_lt0.py",
                "robot_1_w2_l2_r6_rb10_lb5_tb10_lt0.py",
                "robot_999132423_w3_l3_r6_rb1_lb2_tb10_lt30.py",
                "robot_999132423_w3_l3_r6_rb1_lb2_tb10_lt30_force_down.py",
                "manual_1_game_a.py"]


def shipped_inputs(tad, proxy, emit, root):
    import conditionalrewards as cr
    cr.logging = proxy
    for fname in SMALL_INPUTS:
        path = os.path.join(root, "inputs", fname)
        if not os.path.exists(path):
            emit("input/%s" % fname, "missing")
            continue

        def run():
            results = cr.run_games(cr.read_dict_from_file(path))
            for r in results.values():
                r.pop("total_time", None)
            return results
        emit("input/%s" % fname, guarded(proxy, run))


def worker(root):
    root = os.path.abspath(root)
    sys.path.insert(0, root)
    os.chdir(root)
    import logging as real_logging
    import tad
    assert os.path.dirname(os.path.abspath(tad.__file__)) == root, tad.__file__
    proxy = _LoggingProxy(real_logging)
    tad.logging = proxy
    out = sys.stdout

    def emit(case_id, value):
        out.write(json.dumps([case_id, value if isinstance(value, (list, bool, str)) else repr(value)]))
        out.write("\n")

    unit_prune_paths(tad, proxy, emit)
    unit_remove_path(tad, proxy, emit)
    unit_prune_reachability(tad, proxy, emit)
    arbitrary_outcomes(tad, proxy, emit)
    handmade_games(tad, proxy, emit)
    random_games(tad, proxy, emit)
    shipped_inputs(tad, proxy, emit, root)
    out.flush()


# --------------------------------------------------------------------------- parent

def main():
    if len(sys.argv) == 3 and sys.argv[1] == "--worker":
        worker(sys.argv[2])
        return 0
    if len(sys.argv) != 3:
        print(__doc__)
        return 2
    patched, clean = sys.argv[1], sys.argv[2]
    start = time.time()
    env = dict(os.environ, PYTHONDONTWRITEBYTECODE="1", PYTHONHASHSEED="0")
    procs = [subprocess.Popen([sys.executable, os.path.abspath(__file__), "--worker", root],
                              stdout=subprocess.PIPE, stderr=subprocess.PIPE, env=env, text=True)
             for root in (patched, clean)]
    outs = [p.communicate() for p in procs]
    failed = False
    for p, (so, se), root in zip(procs, outs, (patched, clean)):
        if p.returncode != 0:
            failed = True
            print("worker for %s crashed (exit %s):\n%s" % (root, p.returncode, se[-3000:]))
    if failed:
        print("FAIL")
        return 1
    recs = [[json.loads(line) for line in so.splitlines()] for so, _ in outs]
    a, b = recs
    diffs = []
    if [r[0] for r in a] != [r[0] for r in b]:
        diffs.append("case lists differ (%d vs %d)" % (len(a), len(b)))
    stats = {}
    for (ida, va), (idb, vb) in zip(a, b):
        kind = va[0] if isinstance(va, list) and va and isinstance(va[0], str) else "value"
        stats[kind] = stats.get(kind, 0) + 1
        if ida != idb or va != vb:
            diffs.append("%s:\n   patched: %s\n   clean:   %s" % (ida, str(va)[:600], str(vb)[:600]))
    print("%d cases compared in %.1fs; outcomes: %s" % (len(a), time.time() - start, stats))
    if diffs:
        for d in diffs[:15]:
            print(d)
        print("%d differences" % len(diffs))
        print("FAIL")
        return 1
    print("PASS")
    return 0


if __name__ == "__main__":
    sys.exit(main())
