#!/usr/bin/env python
"""
Equivalence test for property C06 (every well-formed stopping game is solved or
declared unsolvable).

usage:  python equiv_test.py <path-to-patched-root> <path-to-clean-root>

Both trees are loaded in separate subprocesses (this same file, --worker mode).
Each worker runs the same deterministic battery and prints one line per case:
    <case-id> \t <repr of outcome>
The parent compares the two streams line by line. PASS / exit 0 when identical.

What is compared
  * StochasticGame.solve() on several hundred random well-formed games (cycles
    through probabilistic states, several finals, dead sinks with and without
    rewards, ties, duplicated successors), in both pruning modes:
    repr() of the returned tuple or exception type + message, the final state
    of every node of the solver (next_states, values), the md5 of the complete
    logging stream (debug + info) and the (unchanged) game description.
    Every solve has a deterministic budget (number of value-iteration sweeps,
    counted through the "iteration N" debug records) and a wall clock alarm.
  * hand written boundary shapes (two separated dead successors, adjacent dead
    successors on a rewarded self loop, initial state dead, initial state forced
    away by Player 2, single state games, ...), malformed games, inf rewards.
  * conditionalrewards.run_games() result dicts (without total_time).
  * direct calls: reverse_dfs helpers, node step/prune methods, Solver
    value-iteration / pruning methods with several thresholds.
"""
import hashlib
import os
import random
import signal
import subprocess
import sys

ITER_BUDGET = 1500      # sweeps per solve (both value iterations together)
WALL_BUDGET = 20.0      # seconds per case, safety net only
N_RANDOM = 420

P1, P2, PR = "Player 1", "Player 2", "Probabilistic"


# --------------------------------------------------------------------------- #
# game generation (pure python, deterministic, independent of the trees)
# --------------------------------------------------------------------------- #
NICE = [0.5, 0.25, 0.75, 0.1, 0.9, 0.2, 0.3, 1 / 3, 2 / 3, 0.05, 0.01, 0.6, 0.125]


def split_probability(rng, k):
    if k == 1:
        return [rng.choice([1, 1.0])]
    mode = rng.random()
    if mode < 0.4:
        cuts = sorted(rng.random() for _ in range(k - 1))
        parts = [b - a for a, b in zip([0.0] + cuts, cuts + [1.0])]
        return parts
    if mode < 0.7:
        return [1 / k] * k
    parts = []
    rest = 1.0
    for _ in range(k - 1):
        p = rng.choice(NICE) * rest
        parts.append(p)
        rest -= p
    parts.append(rest)
    return parts


def random_game(rng, idx):
    n = rng.choice([1, 2, 3, 3, 4, 4, 5, 5, 6, 6, 7, 8, 9, 10, 12])
    shape = rng.random()
    stopping = idx % 2 == 0      # half of the games are stopping by construction
    n_final = rng.choice([1, 1, 1, 2, 2, 3])
    states = list(range(n))
    finals = sorted(rng.sample(states, min(n_final, n)))
    if rng.random() < 0.1:
        finals = finals + [finals[0]]          # duplicated final state
    n_dead = rng.choice([0, 0, 1, 1, 2, 2, 3, 4])
    candidates = [s for s in states if s not in finals and (s != 0 or rng.random() < 0.15)]
    dead = set(rng.sample(candidates, min(n_dead, len(candidates))))
    rewarded_sinks = rng.random() < 0.4
    players = []
    rewards = []
    transitions = []
    zero_heavy = rng.random() < 0.5
    for s in states:
        if s in finals and (stopping or rng.random() < 0.85):
            players.append(PR)
            transitions.append([(1, s)])
            rewards.append(0 if stopping or rng.random() < 0.9 else rng.choice([1, 2]))
            continue
        if s in dead:
            # a sink (or a small dead cluster) from which no final is reachable
            others = [d for d in dead]
            kind = rng.choice([PR, PR, P1, P2])
            players.append(kind)
            k = rng.choice([1, 1, 2])
            targets = [rng.choice(others) for _ in range(k)]
            if rng.random() < 0.6:
                targets[0] = s
            if kind == PR:
                probs = split_probability(rng, k)
                transitions.append(list(zip(probs, targets)))
            else:
                transitions.append([("d%d" % j, t) for j, t in enumerate(targets)])
            rewards.append(rng.choice([0, 0, 0, 1, 3]) if rewarded_sinks else 0)
            continue
        kind = rng.choice([PR, PR, PR, P1, P1, P2])
        players.append(kind)
        k = rng.choice([1, 2, 2, 3, 3, 4]) if shape < 0.7 else rng.choice([1, 2])
        forward = [t for t in states if t > s] + finals + list(dead)
        if stopping:
            # players only move forward (or into finals / sinks); probabilistic
            # states may loop back but always keep one forward successor
            if kind == PR:
                targets = [rng.choice(forward)] + [rng.choice(states) for _ in range(k - 1)]
                rng.shuffle(targets)
            else:
                targets = [rng.choice(forward) for _ in range(k)]
        else:
            if shape < 0.35:
                pool = states
            elif shape < 0.7:
                pool = forward or states
            else:
                pool = [t for t in states if abs(t - s) <= 2]
            targets = [rng.choice(pool) for _ in range(k)]
        if kind == PR:
            probs = split_probability(rng, k)
            transitions.append(list(zip(probs, targets)))
        else:
            names = ["a%d" % j for j in range(k)]
            if k > 1 and rng.random() < 0.05:
                names[1] = names[0]            # duplicated action name
            transitions.append(list(zip(names, targets)))
        if zero_heavy:
            rewards.append(rng.choice([0, 0, 0, 1, 2]))
        else:
            rewards.append(rng.choice([0, 1, 1, 2, 3, 5, 5 / 3, 0.5, 10]))
    return {"rewards": rewards, "players": players,
            "transition_list": transitions, "final_states": finals}


def g(rewards, players, transitions, finals):
    return {"rewards": rewards, "players": players,
            "transition_list": transitions, "final_states": finals}


def boundary_games():
    games = {}
    # two separated dead successors (the historical "x not in list" shape)
    games["sep_dead"] = g([1, 0, 0, 0, 0], [PR, PR, PR, PR, PR],
                          [[(0.25, 1), (0.25, 2), (0.25, 3), (0.25, 4)],
                           [(1, 1)], [(1, 2)], [(1, 3)], [(1, 4)]], [2, 4])
    games["sep_dead2"] = g([1, 0, 0, 0, 0], [PR, PR, PR, PR, PR],
                           [[(0.1, 1), (0.4, 2), (0.2, 3), (0.3, 4)],
                            [(1, 1)], [(1, 2)], [(1, 3)], [(1, 4)]], [2])
    # two adjacent dead successors on a rewarded self loop
    games["adj_dead_loop"] = g([2, 0, 0, 0], [PR, PR, PR, PR],
                               [[(0.25, 0), (0.25, 1), (0.25, 2), (0.25, 3)],
                                [(1, 1)], [(1, 2)], [(1, 3)]], [3])
    games["adj_dead_loop_rewarded_sinks"] = g([2, 1, 1, 0], [PR, PR, PR, PR],
                                              [[(0.25, 0), (0.25, 1), (0.25, 2), (0.25, 3)],
                                               [(1, 1)], [(1, 2)], [(1, 3)]], [3])
    games["all_dead_but_one"] = g([3, 1, 1, 1, 0], [PR, PR, PR, PR, PR],
                                  [[(0.2, 1), (0.2, 2), (0.2, 3), (0.2, 0), (0.2, 4)],
                                   [(1, 1)], [(0.5, 2), (0.5, 1)], [(1, 3)], [(1, 4)]], [4])
    # initial state cannot reach a final
    games["init_dead"] = g([1, 0], [PR, PR], [[(1, 0)], [(1, 1)]], [1])
    games["init_dead_p1"] = g([1, 0, 0], [P1, PR, PR],
                              [[("a", 0), ("b", 1)], [(1, 1)], [(1, 2)]], [2])
    # forced away by Player 2
    games["p2_forces_away"] = g([0, 0, 0], [P2, PR, PR],
                                [[("go", 1), ("stay", 2)], [(1, 1)], [(1, 2)]], [1])
    games["p2_forces_away_deep"] = g([1, 2, 0, 0, 0], [PR, P2, PR, PR, P1],
                                     [[(0.5, 1), (0.5, 4)], [("x", 2), ("y", 3)],
                                      [(1, 2)], [(1, 3)], [("r", 1), ("s", 1)]], [2])
    games["p2_partial"] = g([1, 2, 0, 0, 0], [PR, P2, PR, PR, PR],
                            [[(0.5, 1), (0.5, 2)], [("x", 2), ("y", 3)],
                             [(1, 2)], [(1, 3)], [(1, 0)]], [2])
    # single state games
    games["single_final"] = g([0], [PR], [[(1, 0)]], [0])
    games["single_final_p1"] = g([0], [P1], [[("a", 0)]], [0])
    games["single_final_rewarded"] = g([1], [PR], [[(1, 0)]], [0])
    # initial final
    games["init_final"] = g([0, 1], [PR, PR], [[(1, 0)], [(1, 0)]], [0])
    # ties for both players
    games["ties"] = g([0, 1, 1, 0, 0], [P1, P2, P2, PR, PR],
                      [[("l", 1), ("r", 2)], [("u", 3), ("v", 3)], [("u", 3), ("v", 4)],
                       [(1, 3)], [(1, 4)]], [3])
    # slow cycle through probabilistic states
    games["slow_cycle"] = g([1, 1, 0], [PR, PR, PR],
                            [[(0.99, 1), (0.01, 2)], [(1, 0)], [(1, 2)]], [2])
    games["tiny_prob"] = g([1, 0, 0], [PR, PR, PR],
                           [[(1e-9, 1), (1 - 1e-9, 2)], [(1, 1)], [(1, 2)]], [1])
    games["tiny_prob_dead_rest"] = g([1, 0, 0], [PR, PR, PR],
                                     [[(1e-3, 1), (1 - 1e-3, 2)], [(1, 1)], [(1, 2)]], [1])
    # unreachable states of every kind
    games["unreachable"] = g([0, 0, 4, 4, 4], [PR, PR, P1, P2, PR],
                             [[(1, 1)], [(1, 1)], [("a", 3)], [("b", 4)], [(1, 2)]], [1])
    # p1 chooses between dead and alive
    games["p1_dead_choice"] = g([1, 5, 0, 0], [P1, PR, PR, PR],
                                [[("dead", 1), ("ok", 2), ("half", 3)], [(1, 1)], [(1, 2)],
                                 [(0.5, 1), (0.5, 2)]], [2])
    # sub / super stochastic and inf rewards (not well formed, but accepted)
    games["substochastic"] = g([1, 0, 0], [PR, PR, PR],
                               [[(0.3, 1), (0.3, 2)], [(1, 1)], [(1, 2)]], [1])
    games["superstochastic"] = g([1, 0, 0], [PR, PR, PR],
                                 [[(0.8, 0), (0.8, 1)], [(1, 1)], [(1, 2)]], [1])
    games["inf_reward"] = g([float("inf"), 0, 0], [PR, PR, PR],
                            [[(0.5, 1), (0.5, 2)], [(1, 1)], [(1, 2)]], [1])
    games["inf_reward_p1"] = g([1, float("inf"), 0, 0], [P1, P2, PR, PR],
                               [[("a", 1), ("b", 2)], [("c", 2), ("d", 3)], [(1, 2)], [(0, 3), (1, 2)]], [2])
    games["zero_prob_edge"] = g([1, 0, 0], [PR, PR, PR],
                                [[(0, 1), (1, 2)], [(1, 1)], [(1, 2)]], [1])
    games["zero_prob_edge2"] = g([1, 0, 0], [PR, PR, PR],
                                 [[(0.0, 1), (1.0, 2)], [(1, 1)], [(1, 2)]], [2])
    return games


def malformed_games():
    base = lambda: g([1, 0, 0], [P1, PR, PR], [[("a", 1), ("b", 2)], [(1, 1)], [(1, 2)]], [1])
    games = {}
    m = base(); m["rewards"] = [1, 0]; games["short_rewards"] = m
    m = base(); m["transition_list"] = m["transition_list"][:2]; games["short_transitions"] = m
    m = base(); m["rewards"] = [1, -1, 0]; games["negative_reward"] = m
    m = base(); m["final_states"] = [3]; games["final_out_of_range"] = m
    m = base(); m["final_states"] = [-1]; games["final_negative"] = m
    m = base(); m["final_states"] = []; games["no_finals"] = m
    m = base(); m["players"] = [P1, "Player 3", PR]; games["bad_player"] = m
    m = base(); m["transition_list"][1] = []; games["missing_transitions"] = m
    m = base(); m["transition_list"][1] = [(1, 1, 1)]; games["triple"] = m
    m = base(); m["transition_list"][1] = [[1, 1]]; games["not_tuple"] = m
    m = base(); m["transition_list"][1] = ((1, 1),); games["not_list"] = m
    m = base(); m["transition_list"][1] = [(1, 1.0)]; games["float_target"] = m
    m = base(); m["transition_list"][1] = [(1, 3)]; games["target_out_of_range"] = m
    m = base(); m["transition_list"][1] = [(1, -1)]; games["target_negative"] = m
    m = base(); m["transition_list"][0] = [(1, 1)]; games["action_not_str"] = m
    m = base(); m["transition_list"][1] = [("x", 1)]; games["prob_not_number"] = m
    m = base(); m["players"] = []; m["rewards"] = []; m["transition_list"] = []; games["empty_game"] = m
    m = base(); m["final_states"] = [1.0]; games["float_final"] = m
    m = base(); m["final_states"] = (1,); games["tuple_finals"] = m
    m = base(); m["final_states"] = [True]; games["bool_final"] = m
    return games


# --------------------------------------------------------------------------- #
# worker
# --------------------------------------------------------------------------- #
class Budget(BaseException):
    pass


def worker(root):
    sys.path.insert(0, root)
    os.chdir(root)
    import logging
    import copy
    import tad
    import reverse_dfs as rdfs
    import conditionalrewards as cr

    out = sys.stdout

    rec = {"md5": hashlib.md5(), "iters": 0, "n": 0}

    def reset():
        rec["md5"] = hashlib.md5()
        rec["iters"] = 0
        rec["n"] = 0

    def make_logger(tag, budgeted):
        def _log(msg, *args, **kwargs):
            text = str(msg)
            rec["md5"].update((tag + text + "\n").encode())
            rec["n"] += 1
            if budgeted and text.startswith("iteration "):
                rec["iters"] += 1
                if rec["iters"] > ITER_BUDGET:
                    raise Budget("ITER")
        return _log

    logging.debug = make_logger("D:", True)
    logging.info = make_logger("I:", False)
    logging.error = make_logger("E:", False)
    logging.warning = make_logger("W:", False)

    def on_alarm(signum, frame):
        raise Budget("WALL")
    signal.signal(signal.SIGALRM, on_alarm)

    solvers = []
    original_init = tad.Solver.__init__

    def capturing_init(self, *args, **kwargs):
        solvers.append(self)
        return original_init(self, *args, **kwargs)
    tad.Solver.__init__ = capturing_init

    def node_dump(state_list):
        return [(type(s).__name__, s.idx, s.next_states, s.reach_probability, s.expected_rewards,
                 s.expected_rewards_min_reach, s.expected_reach_min_rewards) for s in state_list]

    def guarded(fn):
        """Run fn under the budgets, return a printable outcome."""
        reset()
        signal.setitimer(signal.ITIMER_REAL, WALL_BUDGET)
        try:
            try:
                res = ("OK", repr(fn()))
            finally:
                signal.setitimer(signal.ITIMER_REAL, 0)
        except Budget as b:
            res = ("BUDGET", str(b))
        except Exception as e:          # noqa
            res = ("EXC", type(e).__name__, str(e))
        return res

    def emit(case, value):
        out.write("%s\t%r\n" % (case, value))

    diverging = set()

    def solve_case(case, game, debug_level):
        for prune in (True, False):
            description = copy.deepcopy(game)
            description["prune_states"] = prune
            before = repr(description)
            del solvers[:]
            root_logger = logging.getLogger()
            old_level = root_logger.level
            if debug_level:
                root_logger.setLevel(logging.DEBUG)
            try:
                outcome = guarded(lambda: tad.StochasticGame(**description).solve())
            finally:
                root_logger.setLevel(old_level)
            log = (rec["n"], rec["md5"].hexdigest())
            nodes = node_dump(solvers[-1].state_list) if solvers else None
            emit("%s/prune=%s" % (case, prune),
                 (outcome, log, nodes, before == repr(description)))
            if outcome[0] == "BUDGET":
                diverging.add(case)

    # ---------------- 1. random well formed games through solve() ----------
    rng = random.Random(20240606)
    random_games = [random_game(rng, i) for i in range(N_RANDOM)]
    for i, game in enumerate(random_games):
        solve_case("rand%03d" % i, game, i % 4 == 0)

    # ---------------- 2. boundary + malformed games -------------------------
    for name, game in boundary_games().items():
        solve_case("bound/" + name, game, False)
        solve_case("bound-debug/" + name, game, True)
    for name, game in malformed_games().items():
        solve_case("malformed/" + name, game, False)

    # ---------------- 3. the batch driver ----------------------------------
    def strip(results):
        return [(k, sorted((kk, vv) for kk, vv in v.items() if kk != "total_time"))
                for k, v in results.items()]

    # (games that ran into the sweep budget above are left out of the batches:
    #  the budget exception would abort the whole batch)
    batch = {}
    for i in range(0, N_RANDOM, 2):
        if "rand%03d" % i not in diverging:
            batch["g%d" % i] = copy.deepcopy(random_games[i])
    for name, game in batch.items():
        emit("run_games/random/" + name, guarded(lambda: strip(cr.run_games({name: game}))))
    batch = {name: game for name, game in copy.deepcopy(boundary_games()).items()
             if "bound/" + name not in diverging}
    for name, game in batch.items():
        emit("run_games/boundary/" + name, guarded(lambda: strip(cr.run_games({name: game}))))
    emit("run_games/malformed", guarded(lambda: strip(cr.run_games(copy.deepcopy(malformed_games())))))
    for name in sorted(os.listdir("inputs")):
        path = os.path.join("inputs", name)
        if os.path.getsize(path) > 40000:
            continue
        for game_name, game in cr.read_dict_from_file(path).items():
            emit("run_games/file/%s/%s" % (name, game_name),
                 guarded(lambda: strip(cr.run_games({game_name: game}))))

    # ---------------- 4. reverse_dfs helpers, direct ------------------------
    rng = random.Random(77)
    for i in range(150):
        game = random_games[i]
        tl = game["transition_list"]
        finals = game["final_states"]
        emit("rdfs/%d" % i, guarded(lambda: rdfs.reverse_dfs(tl, finals)))
        emit("rdfs/tuple-finals/%d" % i, guarded(lambda: rdfs.reverse_dfs(tl, tuple(finals))))
        emit("rdfs/all-final/%d" % i, guarded(lambda: rdfs.reverse_dfs(tl, list(range(len(tl))))))
        emit("rdfs/rtl/%d" % i, guarded(lambda: rdfs.reverse_transition_list(tl)))
        emit("rdfs/core/%d" % i, guarded(lambda: rdfs.reverse_transition_list_core(tl)))
        core = rdfs.reverse_transition_list_core(tl)
        emit("rdfs/l2d/%d" % i, guarded(lambda: rdfs.list_of_tuples_to_dict_of_lists(core)))
        d = rdfs.list_of_tuples_to_dict_of_lists(core)
        emit("rdfs/add/%d" % i, guarded(lambda: (rdfs.add_missing_states(d, len(tl) + 2), d)))
        rev = rdfs.reverse_transition_list(tl)
        visited = set(rng.sample(range(len(tl)), rng.randint(0, len(tl))))
        start = rng.randrange(len(tl))
        emit("rdfs/from/%d" % i, guarded(
            lambda: (rdfs.reverse_dfs_from(start, rev, visited), sorted(visited))))
    weird = [[(1, 1)], [("a", 5), ("b", -1)], [(0.5, 0), (0.5, 1)]]
    emit("rdfs/weird/rtl", guarded(lambda: rdfs.reverse_transition_list(weird)))
    emit("rdfs/weird/dfs", guarded(lambda: rdfs.reverse_dfs(weird, [5])))
    emit("rdfs/weird/dfs2", guarded(lambda: rdfs.reverse_dfs(weird, [1, 7])))
    emit("rdfs/weird/dfs3", guarded(lambda: rdfs.reverse_dfs(weird, [9, 7])))
    emit("rdfs/weird/dfs4", guarded(lambda: rdfs.reverse_dfs(weird, [])))
    emit("rdfs/weird/dfs5", guarded(lambda: rdfs.reverse_dfs([], [])))
    emit("rdfs/weird/dfs6", guarded(lambda: rdfs.reverse_dfs([], [0])))
    emit("rdfs/weird/dfs7", guarded(lambda: rdfs.reverse_dfs(weird, [1.0])))
    emit("rdfs/weird/dfs8", guarded(lambda: rdfs.reverse_dfs(weird, [1, 1, 0])))
    emit("rdfs/weird/triple", guarded(lambda: rdfs.reverse_transition_list([[(1, 1, 1)]])))
    emit("rdfs/weird/strkeys", guarded(lambda: rdfs.reverse_transition_list([[(1, "x")], [(1, "x"), (1, 0)]])))
    emit("rdfs/weird/l2d", guarded(lambda: rdfs.list_of_tuples_to_dict_of_lists([(3, 1), (1, 2), (3, 0), (1, 2)])))
    emit("rdfs/weird/l2d-empty", guarded(lambda: rdfs.list_of_tuples_to_dict_of_lists([])))
    emit("rdfs/weird/add", guarded(lambda: rdfs.add_missing_states({2: [1]}, 4)))
    emit("rdfs/weird/add0", guarded(lambda: rdfs.add_missing_states({2: [1]}, 0)))
    # deep chain: no recursion limit problem
    chain = [[(1, i + 1)] for i in range(5000)] + [[(1, 5000)]]
    emit("rdfs/deep", guarded(lambda: hashlib.md5(repr(rdfs.reverse_dfs(chain, [5000])).encode()).hexdigest()))

    # ---------------- 5. node level steps, direct ---------------------------
    rng = random.Random(4242)
    values = [0, 0, 0.0, 1, 1.0, 0.5, 0.25, 1e-7, 4e-7, 5e-7, 0.9999996, 0.3, 2, 7.5, 1 / 3]
    for i in range(200):
        game = random_games[(i * 2) % N_RANDOM]
        try:
            state_list = tad.StochasticGame(**game).init_states()
        except Exception as e:      # noqa
            emit("node/%d/init" % i, (type(e).__name__, str(e)))
            continue
        for s in state_list:
            s.reach_probability = rng.choice(values[:12])
            s.expected_rewards = rng.choice(values)
            s.expected_rewards_min_reach = rng.choice(values)
            s.expected_reach_min_rewards = rng.choice(values[:12])
        res = []
        for s in state_list:
            res.append(guarded(lambda: s.value_iteration_reach(state_list)))
            res.append(guarded(lambda: tuple(s.value_iteration_rewards(state_list))))
            if s.player == P1:
                res.append(guarded(lambda: s.get_best_strategies_reachability(state_list, 6)))
                res.append(guarded(lambda: s.get_best_strategies_total_rewards(state_list, 6)))
            if s.player == P2:
                res.append(guarded(lambda: s.get_worst_strategies_reachability(state_list, 6)))
                res.append(guarded(lambda: s.get_worst_strategies_total_rewards(state_list, 6)))
        emit("node/%d/steps" % i, res)
        res = []
        for s in state_list:
            if s.player in (P1, PR):
                ident = s.next_states
                r = guarded(lambda: s.prune_paths(state_list))
                res.append((r, s.next_states, ident is s.next_states))
        emit("node/%d/prune_paths" % i, res)
        res = []
        for s in state_list:
            res.append(guarded(lambda: tuple(s.value_iteration_rewards(state_list))))
            res.append(guarded(lambda: s.value_iteration_reach(state_list)))
        emit("node/%d/steps-after-prune" % i, res)
        solver = tad.Solver(state_list)
        emit("node/%d/prune_states" % i, (guarded(solver.prune_states), node_dump(state_list)))
        emit("node/%d/prune_game" % i, (guarded(solver.prune_stochastich_game), node_dump(state_list)))

    # ---------------- 5b. wide probabilistic nodes (float summation order) ----
    rng = random.Random(99)
    for i in range(300):
        n = rng.randint(2, 9)
        k = rng.randint(1, 8)
        raw = [rng.random() for _ in range(k)]
        total = sum(raw)
        probs = [r / total for r in raw] if i % 3 else [rng.choice(NICE) for _ in range(k)]
        nodes = []
        for j in range(n):
            targets = [rng.randrange(n) for _ in range(k)]
            nodes.append(tad.ProbabilisticNode(
                player=PR, idx=j, reward=rng.choice([0, 1, 2.5, 1 / 3]),
                next_states=list(zip(probs, targets)), num_states=n, is_final_node=(j == n - 1)))
            rng.shuffle(probs)
        for node in nodes:
            node.reach_probability = rng.choice([0, 0, 0.0, 1, rng.random(), rng.random()])
            node.expected_rewards = rng.choice([0, rng.random() * 10, 3])
            node.expected_rewards_min_reach = rng.choice([0, rng.random() * 10, 3])
            node.expected_reach_min_rewards = rng.choice([0, rng.random(), 1])
        res = []
        for node in nodes:
            res.append(guarded(lambda: node.value_iteration_reach(nodes)))
            res.append(guarded(lambda: tuple(node.value_iteration_rewards(nodes))))
        for node in nodes:
            res.append((guarded(lambda: node.prune_paths(nodes)), node.next_states))
        for node in nodes:
            res.append(guarded(lambda: node.value_iteration_reach(nodes)))
            res.append(guarded(lambda: tuple(node.value_iteration_rewards(nodes))))
        emit("wide/%d" % i, res)

    # ---------------- 6. solver methods with several thresholds -------------
    thresholds = [1e-6, 1e-3, 1e-9, 0.5, 1, 2, 0.05]
    for i in range(160):
        game = random_games[(i * 2 + 1) % N_RANDOM]
        threshold = thresholds[i % len(thresholds)]
        try:
            state_list = tad.StochasticGame(**game).init_states()
        except Exception as e:      # noqa
            emit("solver/%d/init" % i, (type(e).__name__, str(e)))
            continue
        solver = tad.Solver(state_list, threshold) if i % 2 else tad.Solver(
            threshold=threshold, state_list=state_list)
        reaching = rdfs.reverse_dfs(game["transition_list"], game["final_states"])
        prune = bool(i % 3)
        if i % 5 == 0:
            logging.getLogger().setLevel(logging.DEBUG)
        r1 = guarded(lambda: solver.value_iteration_reachability(reaching, prune))
        l1 = (rec["n"], rec["md5"].hexdigest())
        d1 = node_dump(state_list)
        r2 = guarded(lambda: solver._get_reachability_strategies())
        strategies = solver._get_reachability_strategies()
        r3 = guarded(lambda: solver.prune_reachability(strategies))
        r4 = guarded(solver.prune_paths) if prune else None
        r5 = guarded(solver.prune_states) if prune else None
        d2 = node_dump(state_list)
        r6 = guarded(solver.value_iteration_total_rewards)
        l6 = (rec["n"], rec["md5"].hexdigest())
        d3 = node_dump(state_list)
        r7 = guarded(solver._get_total_rewards_strategies)
        logging.getLogger().setLevel(logging.WARNING)
        emit("solver/%d" % i, (r1, l1, d1, r2, r3, r4, r5, d2, r6, l6, d3, r7))
        # the public wrappers, on a fresh copy
        state_list = tad.StochasticGame(**game).init_states()
        solver = tad.Solver(state_list, threshold)
        ra = guarded(lambda: solver.solve_reachability(
            game["transition_list"], game["final_states"], prune))
        rb = guarded(solver.solve_total_rewards)
        emit("solver/%d/wrappers" % i, (ra, rb, node_dump(state_list)))
    # degenerate direct calls
    emit("solver/empty-reaching", guarded(
        lambda: tad.Solver(tad.StochasticGame(**boundary_games()["ties"]).init_states())
        .value_iteration_reachability([], True)))
    emit("solver/empty-state-list", guarded(
        lambda: tad.Solver([]).value_iteration_total_rewards()))
    emit("solver/empty-state-list-reach", guarded(
        lambda: tad.Solver([]).value_iteration_reachability([], False)))
    emit("solver/empty-state-list-reach-prune", guarded(
        lambda: tad.Solver([]).value_iteration_reachability([], True)))
    emit("solver/empty-state-list-prune", guarded(
        lambda: tad.Solver([]).prune_stochastich_game()))
    out.flush()


# --------------------------------------------------------------------------- #
# parent
# --------------------------------------------------------------------------- #
def run_worker(root):
    env = dict(os.environ)
    env["PYTHONDONTWRITEBYTECODE"] = "1"
    env["PYTHONHASHSEED"] = "0"
    env.pop("PYTHONPATH", None)
    return subprocess.Popen(
        [sys.executable, "-B", os.path.abspath(__file__), "--worker", os.path.abspath(root)],
        stdout=subprocess.PIPE, stderr=subprocess.PIPE, env=env, text=True)


def main():
    if len(sys.argv) == 3 and sys.argv[1] == "--worker":
        worker(sys.argv[2])
        return 0
    if len(sys.argv) != 3:
        print(__doc__)
        return 2
    patched, clean = sys.argv[1], sys.argv[2]
    procs = [run_worker(patched), run_worker(clean)]
    outputs = []
    for proc in procs:
        stdout, stderr = proc.communicate()
        outputs.append((proc.returncode, stdout, stderr))
    failed = False
    for label, (code, stdout, stderr) in zip(("patched", "clean"), outputs):
        if code != 0:
            failed = True
            print("worker for %s tree exited with %s" % (label, code))
            print(stderr[-3000:])
    lines_p = outputs[0][1].splitlines()
    lines_c = outputs[1][1].splitlines()
    if len(lines_p) != len(lines_c):
        failed = True
        print("different number of cases: %d vs %d" % (len(lines_p), len(lines_c)))
    n_diff = 0
    budget = 0
    for lp, lc in zip(lines_p, lines_c):
        if "'BUDGET'" in lc:
            budget += 1
        if "'WALL'" in lc or "'WALL'" in lp:
            failed = True
            print("wall clock budget hit: " + lc.split("\t")[0])
        if lp != lc:
            n_diff += 1
            if n_diff <= 8:
                print("DIFF in case " + lp.split("\t")[0])
                print("   patched: " + lp[:1500])
                print("   clean  : " + lc[:1500])
    if n_diff:
        failed = True
        print("%d differing cases" % n_diff)
    if not lines_c:
        failed = True
        print("no cases were run")
    print("%d cases compared, %d of them ran into the sweep budget on the clean tree"
          % (len(lines_c), budget))
    print("FAIL" if failed else "PASS")
    return 1 if failed else 0


if __name__ == "__main__":
    sys.exit(main())
