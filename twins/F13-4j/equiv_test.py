#!/usr/bin/env python
"""Behavioural equivalence check for refactorings of tad.py / reverse_dfs.py (property C13).

usage:  python equiv_test.py <path-to-patched-root> <path-to-clean-root>

The two trees are loaded in two separate worker subprocesses (this same file run
with --worker).  Each worker runs the same deterministic battery of cases and
writes one line of text (a repr) per case.  The parent compares the two
transcripts line by line and prints PASS (exit 0) when nothing differs, FAIL
(exit 1) otherwise.

The battery is aimed at the quantifier of C13 (results must not depend on how the
game is written down):
  * a few hundred random well-formed games (stopping ones with cycles through
    probabilistic states, several finals, dead states, ties, duplicated
    successors; and "wild" ones that may not be stopping), each solved in both
    pruning modes in its original presentation and in two transformed
    presentations (states renumbered keeping 0 first, transitions reordered,
    actions renamed injectively);
  * a step-by-step trace of the solver phases that also exposes the internal
    transition lists after each pruning phase;
  * the repository's own input files (including generated boards) and permuted
    presentations of some of them;
  * boundary and malformed games, and direct calls of the small public
    functions / methods with ordinary and odd arguments.
What is compared is repr() of the results (floats therefore bit for bit) or the
exception type and message.

Every solve has a deterministic iteration budget (value-iteration sweeps are
counted through the `logging.debug("iteration ...")` calls of the solver) plus a
wall-clock backstop, because the clean tree does not converge on some
non-stopping games.
"""
import os
import subprocess
import sys
import tempfile
import time

ITERATION_BUDGET = 1000      # value-iteration sweeps per case
WALL_CLOCK_BACKSTOP = 20.0   # seconds per case
WORKER_TIMEOUT = 170         # seconds per worker


# --------------------------------------------------------------------------- #
#                                   worker                                    #
# --------------------------------------------------------------------------- #

def worker(root, out_path):
    import glob
    import logging
    import random
    import signal

    root = os.path.abspath(root)
    sys.path.insert(0, root)
    import tad
    import reverse_dfs as rdfs
    for mod in (tad, rdfs):
        assert os.path.abspath(mod.__file__).startswith(root + os.sep), mod.__file__

    P1, P2, PR = tad.PLAYER_1, tad.PLAYER_2, tad.PROBABILISTIC

    class Budget(BaseException):
        pass

    class WallClock(BaseException):
        pass

    sweeps = [0]

    def counting_debug(msg, *args, **kwargs):
        if type(msg) is str and msg.startswith("iteration "):
            sweeps[0] += 1
            if sweeps[0] > ITERATION_BUDGET:
                raise Budget()

    logging.debug = counting_debug

    def on_alarm(signum, frame):
        raise WallClock()

    signal.signal(signal.SIGALRM, on_alarm)

    out = open(out_path, "w")
    counter = [0]

    def emit(label, text):
        counter[0] += 1
        out.write(f"{counter[0]:05d} {label} :: {text}\n")

    timing = {}

    def run(label, fn):
        started = time.time()
        try:
            _run(label, fn)
        finally:
            key = label.split("-")[0] + "-" + label.split("-")[1]
            timing[key] = timing.get(key, 0.0) + time.time() - started

    def _run(label, fn):
        sweeps[0] = 0
        signal.setitimer(signal.ITIMER_REAL, WALL_CLOCK_BACKSTOP)
        try:
            try:
                text = "OK " + repr(fn())
            finally:
                signal.setitimer(signal.ITIMER_REAL, 0)
        except Budget:
            text = "BUDGET"
        except WallClock:
            text = "WALLCLOCK"
        except Exception as exc:  # noqa
            text = f"EXC {type(exc).__name__}: {exc}"
        emit(label, text)

    def node_dump(node):
        return (type(node).__name__, node.player, node.idx, node.reward, node.next_states,
                node.is_final_node, node.reach_probability, node.expected_rewards,
                node.expected_rewards_min_reach, node.expected_reach_min_rewards)

    def dump(state_list):
        return [node_dump(node) for node in state_list]

    def copy_game(game):
        return {
            "rewards": list(game["rewards"]),
            "players": list(game["players"]),
            "transition_list": [list(ts) if isinstance(ts, list) else ts
                                for ts in game["transition_list"]],
            "final_states": list(game["final_states"])
            if isinstance(game["final_states"], list) else game["final_states"],
        }

    def solve(game, prune):
        g = copy_game(game)
        sg = tad.StochasticGame(prune_states=prune, **g)
        n_transitions = sg.count_transitions()
        result = sg.solve()
        # the caller's description must be left alone as well
        return n_transitions, result, g["transition_list"], g["final_states"], g["rewards"]

    def trace(game, prune):
        """solve() step by step, exposing the internal state after every phase."""
        steps = []
        g = copy_game(game)
        sg = tad.StochasticGame(prune_states=prune, **g)
        sg.check_game()
        state_list = sg.init_states()
        solver = tad.Solver(threshold=10 ** (-6), state_list=state_list)
        try:
            strategies, n_reach = solver.solve_reachability(
                sg.transition_list, sg.final_states, sg.prune_states)
            steps.append(("reach", strategies, n_reach, dump(state_list)))
            solver.prune_reachability(strategies)
            steps.append(("prune_reachability", dump(state_list)))
            if prune:
                solver.prune_paths()
                steps.append(("prune_paths", dump(state_list)))
                solver.prune_states()
                steps.append(("prune_states", dump(state_list)))
            final_strategies, n_rew = solver.solve_total_rewards()
            steps.append(("rewards", final_strategies, n_rew, dump(state_list)))
        except Budget:
            steps.append("BUDGET")
        except ValueError as exc:
            steps.append(("ValueError", str(exc), dump(state_list)))
        steps.append(g["transition_list"])
        return steps

    # ------------------------------------------------------------------ #
    # random games
    # ------------------------------------------------------------------ #
    ACTION_POOL = ["a", "b", "c", "alfa", "beta", "gamma", " ", "", "down", "up", "Z", "10", "2"]
    DYADIC = [(1,), (0.5, 0.5), (0.25, 0.75), (0.75, 0.25), (0.5, 0.25, 0.25),
              (0.125, 0.875), (0.25, 0.25, 0.5), (0.25, 0.25, 0.25, 0.25)]

    def random_probabilities(rng, k):
        choice = rng.random()
        if choice < 0.5:
            options = [d for d in DYADIC if len(d) == k]
            if options:
                return list(rng.choice(options))
        if choice < 0.75:
            weights = [rng.randint(1, 9) for _ in range(k)]
            total = sum(weights)
            return [w / total for w in weights]
        if choice < 0.85 and k >= 2:
            # tiny and near-1 probabilities
            eps = rng.choice([1e-9, 1e-6, 1e-3])
            rest = [(1 - eps) / (k - 1)] * (k - 1)
            probs = [eps] + rest
            rng.shuffle(probs)
            return probs
        weights = [rng.random() + 0.01 for _ in range(k)]
        total = sum(weights)
        return [w / total for w in weights]

    def absorbing(rng, idx):
        kind = rng.random()
        if kind < 0.7:
            return PR, [(1, idx)]
        if kind < 0.85:
            return P1, [(rng.choice(ACTION_POOL), idx)]
        return P2, [(rng.choice(ACTION_POOL), idx)]

    def player_transitions(rng, targets_pool, allow_duplicate_names):
        k = rng.randint(1, 4)
        if allow_duplicate_names and rng.random() < 0.15:
            names = [rng.choice(ACTION_POOL[:3]) for _ in range(k)]
        else:
            names = rng.sample(ACTION_POOL, k)
        return [(name, rng.choice(targets_pool)) for name in names]

    def stopping_game(rng):
        """Player states only move forward, probabilistic states always leak forward,
        the last states are absorbing with reward 0: every play stops."""
        n = rng.randint(2, 10)
        n_abs = rng.randint(1, min(4, n - 1))
        first_abs = n - n_abs
        players, transitions, rewards = [], [], []
        for s in range(n):
            if s >= first_abs:
                player, ts = absorbing(rng, s)
                players.append(player)
                transitions.append(ts)
                rewards.append(0)
                continue
            forward = list(range(s + 1, n))
            kind = rng.random()
            if kind < 0.3:
                players.append(P1)
                transitions.append(player_transitions(rng, forward, True))
            elif kind < 0.6:
                players.append(P2)
                transitions.append(player_transitions(rng, forward, True))
            else:
                players.append(PR)
                k = rng.randint(1, 4)
                probs = random_probabilities(rng, k)
                targets = [rng.choice(forward)]
                targets += [rng.randrange(n) for _ in range(k - 1)]
                rng.shuffle(targets)
                transitions.append(list(zip(probs, targets)))
            rewards.append(rng.choice([0, 0, 1, 1, 2, 3, 5, 0.5, 5 / 3, 10]))
        absorbing_states = list(range(first_abs, n))
        n_final = rng.randint(1, len(absorbing_states))
        finals = rng.sample(absorbing_states, n_final)
        if rng.random() < 0.1 and first_abs > 1:
            # a final state in the middle of the game (it keeps its transitions)
            finals.append(rng.randrange(1, first_abs))
        if rng.random() < 0.3:
            finals.sort()
        game = {"rewards": rewards, "players": players,
                "transition_list": transitions, "final_states": finals}
        # spread the absorbing states over the numbering
        return transform(game, rng, rename=False)

    def wild_game(rng):
        n = rng.randint(1, 8)
        players, transitions, rewards = [], [], []
        everything = list(range(n))
        for s in range(n):
            kind = rng.random()
            if kind < 0.3:
                players.append(P1)
                transitions.append(player_transitions(rng, everything, True))
            elif kind < 0.55:
                players.append(P2)
                transitions.append(player_transitions(rng, everything, True))
            else:
                players.append(PR)
                k = rng.randint(1, 3)
                transitions.append(list(zip(random_probabilities(rng, k),
                                            [rng.randrange(n) for _ in range(k)])))
            rewards.append(rng.choice([0, 0, 0, 1, 2, 0.5]))
        finals = rng.sample(everything, rng.randint(1, min(3, n)))
        for f in finals:
            if rng.random() < 0.7:
                players[f], transitions[f] = absorbing(rng, f)
                rewards[f] = 0
        return {"rewards": rewards, "players": players,
                "transition_list": transitions, "final_states": finals}

    def transform(game, rng, rename=True):
        """Another presentation of the same game."""
        n = len(game["players"])
        perm = list(range(1, n))
        rng.shuffle(perm)
        perm = [0] + perm                      # old index -> new index
        names = sorted({label for player, ts in zip(game["players"], game["transition_list"])
                        if player != PR for label, _ in ts})
        if rename:
            new_names = [f"n{k}" for k in range(len(names))]
            rng.shuffle(new_names)
            renaming = dict(zip(names, new_names))
        else:
            renaming = {name: name for name in names}
        rewards = [None] * n
        players = [None] * n
        transitions = [None] * n
        for old in range(n):
            new = perm[old]
            rewards[new] = game["rewards"][old]
            players[new] = game["players"][old]
            ts = []
            for label, target in game["transition_list"][old]:
                if game["players"][old] != PR:
                    label = renaming[label]
                ts.append((label, perm[target]))
            rng.shuffle(ts)
            transitions[new] = ts
        finals = [perm[f] for f in game["final_states"]]
        rng.shuffle(finals)
        return {"rewards": rewards, "players": players,
                "transition_list": transitions, "final_states": finals}

    rng = random.Random(20240913)
    for k in range(330):
        game = stopping_game(rng) if k < 250 else wild_game(rng)
        kind = "stop" if k < 250 else "wild"
        presentations = [game, transform(game, rng), transform(game, rng)]
        for prune in (True, False):
            for p, presentation in enumerate(presentations):
                run(f"rand-{kind}-{k}-prune{int(prune)}-pres{p}",
                    lambda: solve(presentation, prune))
            for p in (0, 1):
                run(f"rand-{kind}-{k}-prune{int(prune)}-pres{p}-trace",
                    lambda: trace(presentations[p], prune))

    # ------------------------------------------------------------------ #
    # the repository's input files (taken from the CLEAN side's own copy is
    # not possible here, each tree reads its own identical copy)
    # ------------------------------------------------------------------ #
    rng = random.Random(77)
    for path in sorted(glob.glob(os.path.join(root, "inputs", "*.py"))):
        size = os.path.getsize(path)
        if size > 70000:
            continue
        with open(path) as handle:
            games = eval(handle.read())
        for name, game in games.items():
            game = {key: game[key] for key in
                    ("rewards", "players", "transition_list", "final_states")}
            label = f"file-{os.path.basename(path)}-{name}"
            for prune in (True, False):
                run(f"{label}-prune{int(prune)}", lambda: solve(game, prune))
            if size < 35000:
                other = transform(game, rng)
                for prune in (True, False):
                    run(f"{label}-prune{int(prune)}-transformed", lambda: solve(other, prune))
                run(f"{label}-trace", lambda: trace(game, True))

    # ------------------------------------------------------------------ #
    # boundary and malformed games
    # ------------------------------------------------------------------ #
    nan = float("nan")
    inf = float("inf")
    base = {"rewards": [1, 2, 0, 0], "players": [P1, PR, PR, PR],
            "transition_list": [[("a", 1), ("b", 3)], [(0.5, 2), (0.5, 3)], [(1, 2)], [(1, 3)]],
            "final_states": [2]}

    def variant(**changes):
        game = copy_game(base)
        game.update(changes)
        return game

    boundary = {
        "base": base,
        "single-final-state": {"rewards": [0], "players": [PR],
                               "transition_list": [[(1, 0)]], "final_states": [0]},
        "single-nonfinal-state": {"rewards": [0], "players": [PR],
                                  "transition_list": [[(1, 0)]], "final_states": []},
        "single-p1-final": {"rewards": [3], "players": [P1],
                            "transition_list": [[("a", 0)]], "final_states": [0]},
        "single-p2-final": {"rewards": [3], "players": [P2],
                            "transition_list": [[("a", 0)]], "final_states": [0]},
        "empty-game": {"rewards": [], "players": [], "transition_list": [], "final_states": [0]},
        "empty-game-no-final": {"rewards": [], "players": [], "transition_list": [],
                                "final_states": []},
        "no-final": variant(final_states=[]),
        "final-out-of-range": variant(final_states=[4]),
        "final-negative": variant(final_states=[-1]),
        "final-duplicated": variant(final_states=[2, 2]),
        "final-tuple": variant(final_states=(2,)),
        "final-set": variant(final_states={2, 3}),
        "final-bool": variant(final_states=[True]),
        "final-float": variant(final_states=[2.0]),
        "all-final": variant(final_states=[0, 1, 2, 3]),
        "initial-final": variant(final_states=[0]),
        "initial-cannot-reach": variant(transition_list=[[("a", 3)], [(0.5, 2), (0.5, 3)],
                                                         [(1, 2)], [(1, 3)]]),
        "missing-transitions": variant(transition_list=[[("a", 1)], [], [(1, 2)], [(1, 3)]]),
        "short-transition-list": variant(transition_list=[[("a", 1)], [(1, 2)], [(1, 2)]]),
        "short-rewards": variant(rewards=[1, 2, 0]),
        "negative-reward": variant(rewards=[1, -2, 0, 0]),
        "nan-reward": variant(rewards=[1, nan, 0, 0]),
        "nan-reward-first": variant(rewards=[nan, 1, 0, 0]),
        "inf-reward": variant(rewards=[1, inf, 0, 0]),
        "float-rewards": variant(rewards=[0.1, 0.2, 0.0, 0.3]),
        "string-reward": variant(rewards=[1, "2", 0, 0]),
        "unknown-player": variant(players=[P1, "Nature", PR, PR]),
        "transitions-tuple": variant(transition_list=[(("a", 1),), [(1, 2)], [(1, 2)], [(1, 3)]]),
        "transition-not-tuple": variant(transition_list=[[["a", 1]], [(1, 2)], [(1, 2)], [(1, 3)]]),
        "transition-triple": variant(transition_list=[[("a", 1, 2)], [(1, 2)], [(1, 2)], [(1, 3)]]),
        "action-not-str": variant(transition_list=[[(1, 1)], [(1, 2)], [(1, 2)], [(1, 3)]]),
        "probability-str": variant(transition_list=[[("a", 1)], [("x", 2)], [(1, 2)], [(1, 3)]]),
        "target-float": variant(transition_list=[[("a", 1.0)], [(1, 2)], [(1, 2)], [(1, 3)]]),
        "target-out-of-range": variant(transition_list=[[("a", 4)], [(1, 2)], [(1, 2)], [(1, 3)]]),
        "target-negative": variant(transition_list=[[("a", -1)], [(1, 2)], [(1, 2)], [(1, 3)]]),
        "nan-probability": variant(transition_list=[[("a", 1), ("b", 3)], [(nan, 2), (0.5, 3)],
                                                    [(1, 2)], [(1, 3)]]),
        "inf-probability": variant(transition_list=[[("a", 1), ("b", 3)], [(inf, 2), (0.5, 3)],
                                                    [(1, 2)], [(1, 3)]]),
        "zero-probability": variant(transition_list=[[("a", 1), ("b", 3)], [(0, 2), (1, 3)],
                                                     [(1, 2)], [(1, 3)]]),
        "negative-probability": variant(transition_list=[[("a", 1), ("b", 3)],
                                                         [(-0.5, 2), (1.5, 3)],
                                                         [(1, 2)], [(1, 3)]]),
        "sub-stochastic": variant(transition_list=[[("a", 1), ("b", 3)], [(0.25, 2), (0.25, 3)],
                                                   [(1, 2)], [(1, 3)]]),
        "bool-probability": variant(transition_list=[[("a", 1), ("b", 3)], [(True, 2)],
                                                     [(1, 2)], [(1, 3)]]),
        "duplicate-actions": variant(transition_list=[[("a", 1), ("a", 3), ("a", 2)],
                                                      [(0.5, 2), (0.5, 3)], [(1, 2)], [(1, 3)]]),
        "substring-actions": variant(transition_list=[[("a", 3), ("ab", 1), ("", 2), ("b", 3)],
                                                      [(0.5, 2), (0.5, 3)], [(1, 2)], [(1, 3)]]),
        "p2-start-dead-adjacent": {
            "rewards": [0, 1, 0, 0, 0, 0], "players": [PR, P2, PR, PR, PR, PR],
            "transition_list": [[(0.25, 3), (0.25, 4), (0.25, 1), (0.25, 5)],
                                [("x", 2), ("y", 5)], [(1, 2)], [(1, 3)], [(1, 4)], [(1, 5)]],
            "final_states": [2]},
        "dead-successors-adjacent": {
            "rewards": [1, 0, 0, 0, 0], "players": [PR, PR, PR, PR, PR],
            "transition_list": [[(0.2, 1), (0.2, 2), (0.2, 3), (0.2, 4), (0.2, 0)],
                                [(1, 1)], [(1, 2)], [(1, 3)], [(1, 4)]],
            "final_states": [4]},
        "all-successors-dead-but-reachable-elsewhere": {
            "rewards": [1, 1, 0, 0], "players": [P1, PR, PR, PR],
            "transition_list": [[("a", 1), ("b", 2)], [(0.5, 3), (0.5, 1)], [(1, 2)], [(1, 3)]],
            "final_states": [2]},
        "p1-cycle-positive-reward": {
            "rewards": [1, 1, 0], "players": [P1, P1, PR],
            "transition_list": [[("a", 1), ("b", 2)], [("a", 0), ("b", 2)], [(1, 2)]],
            "final_states": [2]},
        "p2-cycle-positive-reward": {
            "rewards": [1, 1, 0], "players": [P2, P2, PR],
            "transition_list": [[("a", 1), ("b", 2)], [("a", 0), ("b", 2)], [(1, 2)]],
            "final_states": [2]},
        "rounding-ties": {
            "rewards": [0, 0, 0, 0, 0], "players": [P1, PR, PR, PR, PR],
            "transition_list": [[("a", 1), ("b", 2)], [(0.5000001, 3), (0.4999999, 4)],
                                [(0.5, 3), (0.5, 4)], [(1, 3)], [(1, 4)]],
            "final_states": [3]},
    }
    for name, game in boundary.items():
        for prune in (True, False):
            run(f"boundary-{name}-prune{int(prune)}", lambda: solve(game, prune))
        run(f"boundary-{name}-trace", lambda: trace(game, True))

    def bad_constructor_arguments():
        sg = tad.StochasticGame([0], [PR], [[(1, 0)]], [0])
        return sg.prune_states, sg.solve()
    run("boundary-default-prune-flag", bad_constructor_arguments)
    run("boundary-transition-list-None",
        lambda: tad.StochasticGame([0], [PR], None, [0]).solve())
    run("boundary-final-states-None",
        lambda: tad.StochasticGame([0], [PR], [[(1, 0)]], None).solve())
    run("boundary-count-transitions",
        lambda: tad.StochasticGame([0, 0], [PR, PR], [[(1, 0)], ((1, 0),)], [0]).count_transitions())

    # ------------------------------------------------------------------ #
    # reverse_dfs.py, function by function
    # ------------------------------------------------------------------ #
    tl_54 = [[("beta", 1), ("alfa", 2)], [(3 / 4, 3), (1 / 4, 4)], [(1 / 2, 5), (1 / 2, 6)],
             [("delta", 4), ("gamma", 5)], [(1, 4)], [(1, 5)], [(1, 6)]]
    tl_dup = [[("a", 1), ("b", 1), ("c", 0)], [(0.5, 0), (0.5, 0)], [(1, 1)]]
    chain = [[(1, i + 1)] for i in range(30000)] + [[(1, 30000)]]

    def gen(items):
        return (item for item in items)

    def ordered(d):
        # insertion order of the dict is part of what is compared
        return list(d.items()) if isinstance(d, dict) else ("not a dict", d)

    transition_lists = {"tl54": tl_54, "dup": tl_dup, "empty": [], "one-empty-state": [[]],
                        "tuples": ((("a", 1),), ((1, 0),)), "triple": [[("a", 1, 2)]],
                        "single": [[("a",)]], "not-iterable-state": [3], "none": None,
                        "string-states": ["ab"], "target-strings": [[("a", "x")], [("b", "y")]],
                        "unhashable-target": [[("a", [1])]]}
    for name, tl in transition_lists.items():
        run(f"rdfs-core-{name}", lambda: rdfs.reverse_transition_list_core(tl))
        run(f"rdfs-reverse-transition-list-{name}",
            lambda: ordered(rdfs.reverse_transition_list(tl)))
        for finals_name, finals in {"5": [5], "none": [], "6-5": [6, 5], "dup": [4, 4, 5],
                                    "tuple": (0,), "set": {1, 2}, "all": list(range(7)),
                                    "out-of-range": [99], "negative": [-1], "float": [1.0],
                                    "bool": [True], "str": ["a"], "unhashable": [[1]],
                                    "None": None, "int": 3}.items():
            run(f"rdfs-reverse-dfs-{name}-finals-{finals_name}",
                lambda: rdfs.reverse_dfs(tl, finals))
        run(f"rdfs-reverse-dfs-{name}-finals-generator",
            lambda: rdfs.reverse_dfs(tl, gen([5, 1])))
        run(f"rdfs-reverse-dfs-{name}-finals-dict",
            lambda: rdfs.reverse_dfs(tl, {1: "x"}))
    run("rdfs-chain", lambda: (lambda r: (len(r), r[:3], r[-3:]))(rdfs.reverse_dfs(chain, [30000])))
    run("rdfs-chain-middle", lambda: (lambda r: (len(r), r[:3], r[-3:]))(
        rdfs.reverse_dfs(chain, [15000, 7])))

    tuple_lists = {"sample": [(1, 99), (1, 98), (2, 97), (2, 96), (3, 95), (1, 90)],
                   "empty": [], "triples": [(1, 2, 3), (1, 4, 5)], "singles": [(1,)],
                   "empty-tuple": [()], "lists": [[1, 2], [1, 3]], "unhashable": [([1], 2)],
                   "strings": ["ab", "ac", "bd"], "mixed-keys": [(1, 0), (1.0, 1), (True, 2)],
                   "none": None, "ints": [1, 2], "generator-like": ((k % 3, k) for k in range(9)),
                   "none-key": [(None, 1), (None, 2)]}
    for name, tuples in tuple_lists.items():
        run(f"rdfs-dict-of-lists-{name}",
            lambda: ordered(rdfs.list_of_tuples_to_dict_of_lists(tuples)))

    def add_missing(d, n):
        result = rdfs.add_missing_states(d, n)
        return result is d, ordered(result)
    for name, (d, n) in {"empty-0": ({}, 0), "empty-3": ({}, 3), "partial": ({2: [1], 0: [0]}, 4),
                         "full": ({0: [], 1: [0]}, 2), "more-keys": ({7: [1]}, 2),
                         "negative": ({}, -2), "float-n": ({}, 2.0), "none-n": ({}, None),
                         "float-keys": ({1.0: [5]}, 3), "not-a-dict": ([[], []], 2),
                         "bool-n": ({}, True)}.items():
        run(f"rdfs-add-missing-{name}", lambda: add_missing(d, n))

    def dfs_from(state, reversed_transitions, visited):
        result = rdfs.reverse_dfs_from(state, reversed_transitions, visited)
        return result, sorted(visited, key=repr)
    rev_54 = rdfs.reverse_transition_list(tl_54)
    for name, (state, rev, visited) in {
            "from-5": (5, rev_54, set()), "from-0": (0, rev_54, set()),
            "already-visited": (5, rev_54, {5}), "partly-visited": (5, rev_54, {3}),
            "missing-key": (9, rev_54, set()), "missing-predecessor-key": (1, {1: [2]}, set()),
            "self-loop": (0, {0: [0, 0]}, set()), "unhashable": ([1], rev_54, set()),
            "visited-list": (5, rev_54, []), "cycle": (0, {0: [1], 1: [2], 2: [0, 1]}, set()),
            "duplicated-predecessors": (0, {0: [1, 1, 2, 1], 1: [2, 2], 2: []}, set()),
    }.items():
        run(f"rdfs-dfs-from-{name}", lambda: dfs_from(state, rev, visited))

    # ------------------------------------------------------------------ #
    # tad.py node methods and Solver methods, called directly
    # ------------------------------------------------------------------ #
    def small_state_list(reach=None, rewards=None, rew_min_reach=None, reach_min_rew=None):
        """state 0: P1, state 1: P2, state 2: Probabilistic, 3..6 absorbing."""
        n = 7
        nodes = [
            tad.PlayerOne(P1, 0, 1, [("a", 3), ("b", 4), ("c", 5), ("d", 6), ("ab", 2)], n),
            tad.PlayerTwo(P2, 1, 2, [("a", 3), ("b", 4), ("c", 5), ("d", 6), ("e", 0)], n),
            tad.ProbabilisticNode(PR, 2, 3, [(0.125, 3), (0.125, 4), (0.25, 5), (0.25, 6),
                                             (0.25, 1)], n, False),
            tad.ProbabilisticNode(PR, 3, 0, [(1, 3)], n, True),
            tad.ProbabilisticNode(PR, 4, 0, [(1, 4)], n, False),
            tad.ProbabilisticNode(PR, 5, 0, [(1, 5)], n, True),
            tad.ProbabilisticNode(PR, 6, 0, [(1, 6)], n, False),
        ]
        for attr, values in (("reach_probability", reach), ("expected_rewards", rewards),
                             ("expected_rewards_min_reach", rew_min_reach),
                             ("expected_reach_min_rewards", reach_min_rew)):
            if values is not None:
                for node, value in zip(nodes, values):
                    setattr(node, attr, value)
        return nodes

    value_sets = {
        "default": {},
        "mixed": {"reach": [0.5, 0.25, 0.75, 1, 0, 1, 0], "rewards": [3, 2, 3, 1, 5, 1, 0],
                  "rew_min_reach": [1, 2, 3, 4, 0, 6, 7], "reach_min_rew": [.1, .2, .3, .4, .5, .6, .7]},
        "all-zero": {"reach": [0] * 7, "rewards": [0] * 7, "rew_min_reach": [0] * 7,
                     "reach_min_rew": [0] * 7},
        "all-one": {"reach": [1] * 7, "rewards": [1] * 7},
        "ties-after-rounding": {"reach": [0, 0, 0.3, 0.50000004, 0.5, 0.49999996, 0.1],
                                "rewards": [0, 0, 2.0000004, 2, 2, 1.9999996, 7.1234564]},
        "nan": {"reach": [nan] * 7, "rewards": [nan] * 7, "rew_min_reach": [nan] * 7,
                "reach_min_rew": [nan] * 7},
        "some-nan": {"reach": [0.5, nan, 0.5, nan, 1, 0, nan], "rewards": [1, nan, 2, 3, nan, 3, 0]},
        "negative": {"reach": [-1, -0.5, -2, -3, -1, -1, -4], "rewards": [-1, -2, -3, -4, -5, -6, -7]},
        "above-one": {"reach": [2, 3, 4, 5, 6, 7, 8], "rewards": [1e300, 1e308, inf, 5, inf, 7, 8]},
        "ints-and-floats": {"reach": [0, 0.0, 1, 1.0, 0, 1, 0.0], "rewards": [0, 0.0, 2, 2.0, 2, 0, 0.0]},
    }
    for set_name, values in value_sets.items():
        for method, extra in (("value_iteration_reach", ()), ("value_iteration_rewards", ()),
                              ("get_best_strategies_reachability", (6,)),
                              ("get_best_strategies_reachability", (0,)),
                              ("get_best_strategies_total_rewards", (6,)),
                              ("get_best_strategies_total_rewards", (1,)),
                              ("get_worst_strategies_reachability", (6,)),
                              ("get_worst_strategies_reachability", (0,)),
                              ("get_worst_strategies_total_rewards", (6,)),
                              ("get_worst_strategies_total_rewards", (2,)),
                              ("prune_paths", ())):
            for idx in (0, 1, 2):
                def call():
                    nodes = small_state_list(**values)
                    node = nodes[idx]
                    before = node.next_states
                    result = getattr(node, method)(nodes, *extra)
                    return result, node.next_states is before, dump(nodes)
                run(f"node-{set_name}-{method}{extra}-state{idx}", call)

        def p2_min_reach(strategies):
            nodes = small_state_list(**values)
            return nodes[1]._expected_rewards_min_reach(nodes, strategies)
        for strategies in (["a"], ["e", "b"], [], ["zz"], ("c", "d"), {"a", "d"}, "ab", None):
            run(f"node-{set_name}-p2-min-reach-{strategies!r}", lambda: p2_min_reach(strategies))

    def restrict(best, transitions=None):
        nodes = small_state_list()
        node = nodes[0]
        if transitions is not None:
            node.next_states = transitions
        before = node.next_states
        result = node.prune_paths_reachability(best)
        return result, node.next_states is before, node.next_states
    dup_actions = [("a", 3), ("a", 4), ("b", 5), ("a", 3), ("", 6)]
    for best in (["a"], ["b", "a"], [], ["zz"], ["a", "a"], ("c",), {"a", "d"}, frozenset({"ab"}),
                 "ab", "", "abcd", {"a": 1}, None, 5, ["ab", "d", "c", "b", "a"], [""],
                 gen(["a", "c"]), gen(["d"])):
        label = "generator" if type(best).__name__ == "generator" else repr(best)
        run(f"node-restrict-{label}", lambda: restrict(best))
        if type(best).__name__ != "generator":
            run(f"node-restrict-dup-{label}", lambda: restrict(best, list(dup_actions)))
    run("node-restrict-empty-transitions", lambda: restrict(["a"], []))
    run("node-restrict-tuple-transitions", lambda: restrict(["a"], (("a", 1), ("b", 2))))
    run("node-restrict-triple-transitions", lambda: restrict(["a"], [("a", 1, 2)]))
    run("node-restrict-unhashable-action", lambda: restrict(["a"], [(["a"], 1)]))
    run("node-restrict-unhashable-action-set", lambda: restrict({"a"}, [(["a"], 1)]))

    def remove(idx, transition):
        nodes = small_state_list()
        result = nodes[idx].remove_path(transition)
        return result, nodes[idx].next_states
    run("node-remove-p1", lambda: remove(0, ("b", 4)))
    run("node-remove-p1-missing", lambda: remove(0, ("zz", 4)))
    run("node-remove-prob", lambda: remove(2, (0.25, 5)))
    run("node-remove-prob-missing", lambda: remove(2, (0.5, 5)))
    run("node-remove-prob-only", lambda: remove(3, (1, 3)))

    def prob_prune(transitions, reach):
        nodes = small_state_list(reach=reach)
        nodes[2].next_states = transitions
        before = nodes[2].next_states
        nodes[2].prune_paths(nodes)
        return nodes[2].next_states is before, nodes[2].next_states
    reach_a = [0.5, 0, 0.5, 1, 0, 1, 0]
    for name, transitions in {
            "alternating": [(0.2, 3), (0.2, 4), (0.2, 5), (0.2, 6), (0.2, 1)],
            "dead-adjacent": [(0.2, 4), (0.2, 6), (0.2, 1), (0.2, 3), (0.2, 5)],
            "dead-last": [(0.3, 3), (0.3, 5), (0.2, 4), (0.2, 6)],
            "all-dead": [(0.5, 4), (0.5, 6)], "none-dead": [(0.1, 3), (0.9, 5)],
            "single-dead": [(1, 4)], "single-live": [(1, 3)], "empty": [],
            "duplicates": [(0.25, 4), (0.25, 4), (0.25, 3), (0.25, 3)],
            "thirds": [(1 / 3, 3), (1 / 3, 4), (1 / 3, 5)],
            "zero-probability-survivor": [(0, 3), (1, 4)],
            "tiny": [(1e-300, 3), (1 - 1e-16, 4), (1e-300, 5)],
            "int-probabilities": [(1, 3), (1, 4), (2, 5)],
            "tuple": ((0.5, 3), (0.5, 4)), "out-of-range": [(0.5, 3), (0.5, 9)],
            "triples": [(0.5, 3, 1), (0.5, 4, 1)]}.items():
        run(f"node-prob-prune-{name}", lambda: prob_prune(transitions, reach_a))
        run(f"node-prob-prune-{name}-nan-reach", lambda: prob_prune(transitions, [nan] * 7))

    def p1_prune(transitions, reach):
        nodes = small_state_list(reach=reach)
        nodes[0].next_states = transitions
        before = nodes[0].next_states
        nodes[0].prune_paths(nodes)
        return nodes[0].next_states is before, nodes[0].next_states
    for name, transitions in {"mixed": [("a", 3), ("b", 4), ("c", 5), ("d", 6)],
                              "all-dead": [("a", 4), ("b", 6)], "none-dead": [("a", 3)],
                              "empty": [], "tuple": (("a", 3), ("b", 4)),
                              "out-of-range": [("a", 11)],
                              "dup": [("a", 4), ("a", 3), ("a", 4)]}.items():
        run(f"node-p1-prune-{name}", lambda: p1_prune(transitions, reach_a))

    def node_checks(cls, player, transitions, num_states=3, **kwargs):
        node = cls(player, 0, 1, transitions, num_states, **kwargs)
        return node_dump(node), node.next_states is transitions
    for name, (cls, player, transitions) in {
            "p1-ok": (tad.PlayerOne, P1, [("a", 1)]), "p2-ok": (tad.PlayerTwo, P2, [("a", 1)]),
            "p1-empty": (tad.PlayerOne, P1, []), "p1-tuple": (tad.PlayerOne, P1, (("a", 1),)),
            "p1-odd-player": (tad.PlayerOne, "someone", [(1, 1)]),
            "p1-int-action": (tad.PlayerOne, P1, [(1, 1)]),
            "p1-bool-target": (tad.PlayerOne, P1, [("a", True)]),
            "p1-target-3": (tad.PlayerOne, P1, [("a", 3)]),
            "p1-none": (tad.PlayerOne, P1, None)}.items():
        run(f"node-init-{name}", lambda: node_checks(cls, player, transitions))
    run("node-init-prob", lambda: node_checks(tad.ProbabilisticNode, PR, [(0.5, 1), (0.5, 2)],
                                              is_final_node=True))
    run("node-eq", lambda: (small_state_list()[0] == small_state_list()[0],
                            small_state_list()[0] == small_state_list()[1]))

    game_55 = {"rewards": [0, 2, 5 / 3, 0, 0, 0, 0, 0],
               "players": [P1, P2, P2, PR, PR, PR, PR, PR],
               "transition_list": [[("alfa", 1), ("beta", 2)], [(" ", 3)], [(" ", 4)],
                                   [(0.5, 5), (0.5, 6)], [(0.75, 6), (0.25, 7)],
                                   [(1, 5)], [(1, 6)], [(1, 7)]],
               "final_states": [6]}
    game_cycle = {"rewards": [1, 0, 2, 0, 0, 1],
                  "players": [PR, P1, P2, PR, PR, PR],
                  "transition_list": [[(0.5, 1), (0.25, 2), (0.25, 5)], [("x", 3), ("y", 5), ("z", 4)],
                                      [("x", 5), ("y", 4), ("z", 3)], [(1, 3)], [(1, 4)],
                                      [(0.5, 0), (0.25, 3), (0.25, 4)]],
                  "final_states": [3]}

    def states_of(game):
        return tad.StochasticGame(**copy_game(game)).init_states()

    for threshold in (10 ** (-6), 1e-6, 1e-3, 0.5, 1, 2, 10, 1e-12, 3e-7, 0, -1, nan, inf):
        def floor_of():
            solver = tad.Solver(states_of(game_55), threshold)
            return solver.floor, solver.threshold
        run(f"solver-floor-{threshold!r}", floor_of)
        for gname, game in (("g55", game_55), ("cycle", game_cycle)):
            def whole():
                state_list = states_of(game)
                solver = tad.Solver(state_list, threshold)
                reach = solver.solve_reachability(game["transition_list"],
                                                  game["final_states"], True)
                solver.prune_reachability(reach[0])
                solver.prune_stochastich_game()
                rew = solver.solve_total_rewards()
                return reach, rew, dump(state_list)
            run(f"solver-threshold-{threshold!r}-{gname}", whole)
    run("solver-default-threshold", lambda: (tad.Solver(states_of(game_55)).threshold,
                                             tad.Solver(states_of(game_55)).floor))

    def reach_iteration(game, order, prune):
        state_list = states_of(game)
        result = tad.Solver(state_list).value_iteration_reachability(order, prune)
        return result, dump(state_list)
    for gname, game in (("g55", game_55), ("cycle", game_cycle)):
        n = len(game["players"])
        orders = {"sorted": list(range(n)), "reversed": list(range(n - 1, -1, -1)), "empty": [],
                  "duplicates": [0, 0, 1, 1, 2, 0], "tuple": tuple(range(n)),
                  "set": set(range(n)), "out-of-range": [0, n], "negative": [-1, -2],
                  "only-nonfinal": rdfs.reverse_dfs(game["transition_list"], game["final_states"]),
                  "none": None, "strings": ["0"], "range": range(n)}
        for oname, order in orders.items():
            for prune in (True, False):
                run(f"solver-reach-iteration-{gname}-{oname}-prune{int(prune)}",
                    lambda: reach_iteration(game, order, prune))
        run(f"solver-reach-iteration-{gname}-generator",
            lambda: reach_iteration(game, gen(range(n)), False))

        def reach_strategies():
            state_list = states_of(game)
            solver = tad.Solver(state_list)
            first = solver._get_reachability_strategies()
            solver.value_iteration_reachability(list(range(n)), False)
            return first, solver._get_reachability_strategies(), solver._get_total_rewards_strategies()
        run(f"solver-strategies-{gname}", reach_strategies)

        def restrict_with(strategies):
            state_list = states_of(game)
            solver = tad.Solver(state_list)
            result = solver.prune_reachability(strategies)
            return result, dump(state_list)
        p1_index = game["players"].index(P1)
        some_action = game["transition_list"][p1_index][0][0]
        full = [None] * n
        full[p1_index] = [some_action]
        for sname, strategies in {
                "one-action": full, "short": [[some_action]] * p1_index, "empty": [],
                "none-entry": [None] * n, "all-empty-lists": [[] for _ in range(n)],
                "longer": [[some_action]] * (n + 3), "tuple": tuple([(some_action,)] * n),
                "dict": {p1_index: [some_action]}, "strings": [some_action] * n,
                "none": None}.items():
            run(f"solver-prune-reachability-{gname}-{sname}", lambda: restrict_with(strategies))

        def prune_phases(reach):
            state_list = states_of(game)
            for node, value in zip(state_list, reach):
                node.reach_probability = value
            solver = tad.Solver(state_list)
            steps = []
            steps.append(solver.prune_paths())
            steps.append(dump(state_list))
            steps.append(solver.prune_states())
            steps.append(dump(state_list))
            steps.append(solver.value_iteration_total_rewards())
            steps.append(dump(state_list))
            steps.append(solver._get_total_rewards_strategies())
            return steps
        prng = random.Random(5)
        for r in range(12):
            reach = [prng.choice([0, 0, 0.5, 1, 0.0, 0.25]) for _ in range(n)]
            run(f"solver-prune-phases-{gname}-{r}", lambda: prune_phases(reach))
        run(f"solver-prune-phases-{gname}-nan", lambda: prune_phases([nan] * n))

    def odd_player_nodes():
        nodes = small_state_list(reach=reach_a)
        nodes[1].player = "someone else"
        nodes[4].player = P1      # a ProbabilisticNode labelled as Player 1
        solver = tad.Solver(nodes)
        steps = [solver._get_reachability_strategies()]
        return steps
    run("solver-odd-player-strategies", odd_player_nodes)

    def odd_player_prune_paths(label):
        nodes = small_state_list(reach=reach_a)
        nodes[1].player = label
        tad.Solver(nodes).prune_paths()
        return dump(nodes)
    for label in (P1, PR, P2, "other", None):
        run(f"solver-odd-player-prune-paths-{label!r}", lambda: odd_player_prune_paths(label))

    def odd_player_prune_reachability(label):
        nodes = small_state_list(reach=reach_a)
        nodes[1].player = label
        nodes[2].player = label
        tad.Solver(nodes).prune_reachability([["a"]] * 7)
        return dump(nodes)
    for label in (P1, PR, P2, "other", None):
        run(f"solver-odd-player-prune-reachability-{label!r}",
            lambda: odd_player_prune_reachability(label))

    run("solver-empty-state-list-reach",
        lambda: tad.Solver([]).value_iteration_reachability([], False))
    run("solver-empty-state-list-reach-prune",
        lambda: tad.Solver([]).value_iteration_reachability([], True))
    run("solver-empty-state-list-rewards", lambda: tad.Solver([]).solve_total_rewards())
    run("solver-empty-state-list-prune", lambda: tad.Solver([]).prune_stochastich_game())
    run("solver-solve-reachability-no-finals",
        lambda: tad.Solver(states_of(game_55)).solve_reachability(game_55["transition_list"], [], True))
    run("solver-solve-reachability-none-finals",
        lambda: tad.Solver(states_of(game_55)).solve_reachability(game_55["transition_list"], None, True))
    run("solver-solve-reachability-other-transitions",
        lambda: tad.Solver(states_of(game_55)).solve_reachability(tl_54, [5], False))

    out.close()
    if os.environ.get("EQUIV_TIMING"):
        for key, seconds in sorted(timing.items(), key=lambda item: -item[1])[:12]:
            print(f"{seconds:8.2f}s {key}")


# --------------------------------------------------------------------------- #
#                                   parent                                    #
# --------------------------------------------------------------------------- #

def main():
    if len(sys.argv) == 4 and sys.argv[1] == "--worker":
        worker(sys.argv[2], sys.argv[3])
        return 0
    if len(sys.argv) != 3:
        print(__doc__)
        return 2
    patched, clean = (os.path.abspath(p) for p in sys.argv[1:3])
    started = time.time()
    env = dict(os.environ, PYTHONDONTWRITEBYTECODE="1", PYTHONHASHSEED="0")
    with tempfile.TemporaryDirectory(prefix="equiv_c13_") as tmp:
        procs = []
        for name, root in (("patched", patched), ("clean", clean)):
            out_path = os.path.join(tmp, name + ".txt")
            proc = subprocess.Popen(
                [sys.executable, "-B", os.path.abspath(__file__), "--worker", root, out_path],
                cwd=tmp, env=env, stdout=subprocess.PIPE, stderr=subprocess.STDOUT, text=True)
            procs.append((name, proc, out_path))
        transcripts = {}
        failed = False
        for name, proc, out_path in procs:
            try:
                output, _ = proc.communicate(timeout=max(5, WORKER_TIMEOUT - (time.time() - started)))
            except subprocess.TimeoutExpired:
                proc.kill()
                output, _ = proc.communicate()
                print(f"FAIL: the {name} worker did not finish in time")
                failed = True
            if proc.returncode != 0:
                print(f"FAIL: the {name} worker exited with status {proc.returncode}")
                print(output[-3000:])
                failed = True
            if os.path.exists(out_path):
                with open(out_path) as handle:
                    transcripts[name] = handle.read().splitlines()
            else:
                transcripts[name] = []
    if failed:
        return 1
    a, b = transcripts["patched"], transcripts["clean"]
    differences = []
    for line_a, line_b in zip(a, b):
        if line_a != line_b:
            differences.append((line_a, line_b))
    if len(a) != len(b):
        differences.append((f"{len(a)} cases", f"{len(b)} cases"))
    budget = sum(1 for line in b if line.endswith(":: BUDGET"))
    wall = sum(1 for line in a + b if line.endswith(":: WALLCLOCK"))
    errors = sum(1 for line in b if " :: EXC " in line)
    print(f"{len(b)} cases compared in {time.time() - started:.1f}s "
          f"({errors} raising, {budget} over the iteration budget, {wall} wall-clock stops)")
    if wall:
        print("warning: some cases were stopped by the wall-clock backstop")
    if differences or not b:
        for line_a, line_b in differences[:15]:
            print("  patched:", line_a[:600])
            print("  clean  :", line_b[:600])
        print(f"FAIL ({len(differences)} differing cases)")
        return 1
    print("PASS")
    return 0


if __name__ == "__main__":
    sys.exit(main())
