#!/usr/bin/env python
"""
Equivalence / property test for property C11 (generator -> reader -> solver).

usage: python equiv_test.py <path-to-patched-root> <path-to-clean-root>

Both trees are exercised in SEPARATE subprocesses (this very file is re-run with
--worker), each in its own scratch directory, on the same list of cases:

  * many accepted parameter sets of the generator (through main() with a
    patched sys.argv, and a few through a real `python roberta_generator.py`),
    including the boundaries: width 1, length 1, 1x1, max reward 1, seed 0,
    huge seed, tiny and near-1 probabilities, force_down on/off, big boards;
  * rejected parameter sets (must be rejected the same way, no file written);
  * boards passed in by hand through stochastic_game_from_roborta_board;
  * the writer functions called directly on an in-memory file.

For every written file the worker records the bytes, and checks the property
itself: the reader loads exactly game_a, game_b, game_c; every game passes the
solver's validation; every state has a transition; probabilities are positive
and sum to 1; the only final state is the absorbing winning state; the losing
state is absorbing; and run_games either solves a game or reports no solution.

The parent compares the two records: PASS iff they are identical and the
property checks found nothing in either tree.

Variant 2 adds the option --board FILE (take the board from the picture at the
top of a generated file). Without the option the patched tree must behave as
the clean one (the comparison above). With the option (patched tree only, see
extra_cases) every parameter set is regenerated from its own picture and must
give the same bytes; hand-written pictures must give the games of the manual
entry point; malformed pictures must be rejected; every file written is put
through the checks of the property.
"""
import hashlib
import io
import json
import math
import os
import random
import subprocess
import sys
import tempfile

# The solver is run on boards of up to SOLVE_MAX_TILES tiles whose three failure
# probabilities lie in SOLVE_PROB_RANGE: value iteration needs of the order of
# 1/probability sweeps, so the extreme probabilities (1e-12, 1-1e-9 ...) are only
# checked structurally (their files are still compared byte for byte).
SOLVE_MAX_TILES = 12
SOLVE_PROB_RANGE = (0.02, 0.9)
SOLVE_TIME_LIMIT = 120      # seconds, safety net; a file that hits it is not solved
MSG_OK = ("Game solved", "Game not solved")


# --------------------------------------------------------------------------- cases
def build_cases():
    rnd = random.Random(20241004)
    cli = []

    def add(seed=0, width=3, length=3, p=0.1, q=0.1, r=0.1, t=0.3, m=6, f=False):
        cli.append(dict(seed=seed, width=width, length=length, p=p, q=q, r=r, t=t, m=m, f=f))

    # boundaries
    for f in (False, True):
        add(f=f)
        add(width=1, length=1, f=f)
        add(width=1, length=1, m=1, seed=1, f=f)
        add(width=1, length=2, seed=1, f=f)
        add(width=2, length=1, seed=1, f=f)
        add(width=1, length=7, seed=5, f=f)
        add(width=7, length=1, seed=5, f=f)
        add(width=2, length=2, seed=1, q=0.05, t=0.001, f=f)
        add(width=3, length=3, seed=999132423, p=0.01, q=0.02, f=f)
        add(width=3, length=2, seed=2**63 + 11, f=f)
        add(width=2, length=3, p=1e-9, q=1e-12, r=1e-300, t=1e-6, f=f)
        add(width=2, length=3, p=1 - 1e-9, q=1 - 1e-12, r=1 - 1e-16, t=1 - 1e-6, f=f)
        add(width=3, length=2, p=0.999999, q=5e-324, r=0.5, t=0.999999, seed=3, f=f)
        add(width=3, length=2, r=0.3, t=0.99, seed=4, f=f)      # 1-0.3 is not 0.7 exactly
        add(width=2, length=2, p=1 / 3, q=2 / 3, r=0.1 + 0.2, t=0.5, m=1, seed=8, f=f)
        add(width=2, length=2, m=1000, seed=9, f=f)
        add(width=40, length=10, seed=47, f=f)                   # 400 tiles, files only
        add(width=20, length=10, seed=40, f=f)
        add(width=5, length=5, seed=47, f=f)
    # random parameter sets
    for k in range(150):
        width = rnd.choice([1, 1, 2, 2, 3, 3, 4, 5, 6, 9])
        length = rnd.choice([1, 1, 2, 2, 3, 3, 4, 5, 6, 9])
        def prob():
            kind = rnd.random()
            if kind < 0.08:
                return 10.0 ** -rnd.randint(3, 30)
            if kind < 0.16:
                return 1 - 10.0 ** -rnd.randint(3, 15)
            if kind < 0.30:
                return rnd.random() or 0.5
            return round(rnd.uniform(0.02, 0.9), rnd.choice([2, 3, 17]))
        add(seed=rnd.choice([0, 1, k, rnd.randrange(10**9)]), width=width, length=length,
            p=prob(), q=prob(), r=prob(), t=prob(), m=rnd.choice([1, 2, 3, 6, 6, 20]),
            f=rnd.random() < 0.5)

    rejected = [
        dict(seed=-1), dict(width=0), dict(width=-3), dict(length=0), dict(length=-1),
        dict(p=0.0), dict(p=1.0), dict(p=-0.1), dict(p=1.5), dict(q=0.0), dict(q=1.0),
        dict(r=0.0), dict(r=1.0), dict(t=0.0), dict(t=1.0), dict(m=0), dict(m=-2),
        dict(seed=-1, width=0), dict(width=0, f=True),
    ]

    # boards by hand (moves, rewards, loose_tiles, prob_robot, prob_light, prob_tile)
    manual = [
        ([[1]], [[0]], [[0]], 0.1, 0.1, 0.1),
        ([[3]], [[2]], [[1]], 0.1, 0.1, 0.1),
        ([[0]], [[5]], [[1]], 0.25, 0.5, 0.75),
        ([[1, 0, 2]], [[1, 2, 3]], [[0, 1, 0]], 0.1, 0.05, 0.1),
        ([[1], [0], [2]], [[1], [2], [3]], [[0], [1], [0]], 0.1, 0.05, 0.1),
        ([[1, 1], [1, 1]], [[0, 0], [0, 0]], [[1, 1], [1, 1]], 0.3, 0.3, 0.3),
        ([[3, 3], [3, 3]], [[4, 0], [0, 4]], [[0, 0], [0, 0]], 0.3, 0.3, 0.3),
        ([[0, 0], [2, 2]], [[1, 0], [0, 1]], [[0, 1], [1, 0]], 1e-7, 1 - 1e-7, 0.5),
        ([[1, 3, 1, 0], [2, 1, 3, 1], [1, 1, 1, 3], [3, 0, 2, 1]],
         [[0, 1, 2, 5], [1, 0, 0, 3], [2, 2, 1, 0], [0, 0, 4, 1]],
         [[0, 1, 0, 0], [1, 0, 0, 1], [0, 0, 1, 0], [0, 1, 0, 0]], 0.1, 0.1, 0.1),
        # rewards that are not ints, loose tiles given as booleans
        ([[1, 2], [0, 1]], [[0.5, 2.0], [1.25, 3]], [[True, False], [False, True]],
         0.2, 0.4, 0.6),
    ]
    for k in range(40):
        width, length = rnd.randint(1, 4), rnd.randint(1, 4)
        top = rnd.choice([2, 3])
        manual.append((
            [[rnd.randint(0, top) for _ in range(width)] for _ in range(length)],
            [[rnd.randint(0, 6) for _ in range(width)] for _ in range(length)],
            [[rnd.randint(0, 1) for _ in range(width)] for _ in range(length)],
            rnd.uniform(0.02, 0.9), rnd.uniform(0.02, 0.9), rnd.uniform(0.02, 0.9)))

    # a few parameter sets run as a real command line
    real = [dict(), dict(width=1, length=1), dict(width=2, length=3, f=True, seed=7),
            dict(width=4, length=2, p=0.015, q=0.985, r=0.5, t=0.5, m=2, seed=12)]
    return dict(cli=cli, rejected=rejected, manual=manual, real=real)


def argv_of(case):
    names = dict(seed="--seed", width="--width", length="--length", p="--prob_robot_break",
                 q="--prob_light_break", r="--prob_tile_break", t="--prob_loose_tile",
                 m="--max_reward")
    argv = []
    for key, value in case.items():
        if key == "f":
            if value:
                argv.append("--force_down")
        elif key in names:
            argv += [names[key], repr(value)]
        else:                       # options that only the patched tree knows
            argv += value
    return argv


# --------------------------------------------------------------------------- worker
def check_games(games, problems, where):
    """The property, checked on the loaded dictionary of games."""
    from tad import StochasticGame, PLAYER_1, PLAYER_2, PROBABILISTIC
    if not isinstance(games, dict) or list(games) != ["game_a", "game_b", "game_c"]:
        problems.append(f"{where}: the file does not hold exactly game_a, game_b, game_c")
        return
    for name, game in games.items():
        tag = f"{where}/{name}"
        if sorted(game) != ["final_states", "players", "rewards", "transition_list"]:
            problems.append(f"{tag}: unexpected keys {sorted(game)}")
            continue
        try:
            sgame = StochasticGame(**game)
            sgame.check_game()
            sgame.init_states()
        except Exception as error:             # noqa
            problems.append(f"{tag}: validation failed: {error!r}")
            continue
        n = len(game["players"])
        win, lose = n - 1, n - 2
        if game["final_states"] != [win]:
            problems.append(f"{tag}: final states are {game['final_states']}")
        for idx, (player, transitions) in enumerate(zip(game["players"], game["transition_list"])):
            if not isinstance(transitions, list) or not transitions:
                problems.append(f"{tag}: state {idx} has no transition")
                continue
            if player == PROBABILISTIC:
                probs = [tr[0] for tr in transitions]
                if any(isinstance(pr, bool) or not pr > 0 for pr in probs):
                    problems.append(f"{tag}: state {idx} has a non positive probability")
                if not math.isclose(sum(probs), 1.0, rel_tol=0, abs_tol=1e-12):
                    problems.append(f"{tag}: state {idx} probabilities sum to {sum(probs)}")
            elif player not in (PLAYER_1, PLAYER_2):
                problems.append(f"{tag}: state {idx} has player {player}")
        for idx, what in ((win, "winning"), (lose, "losing")):
            if game["players"][idx] != PROBABILISTIC or game["transition_list"][idx] != [(1, idx)]:
                problems.append(f"{tag}: the {what} state is not absorbing")


def solve_games(games, problems, where):
    import conditionalrewards
    results = conditionalrewards.run_games(games)
    summary = {}
    for name, result in results.items():
        msg = result["msg"]
        if msg not in MSG_OK and not msg.startswith("Error while solving the game: "):
            problems.append(f"{where}/{name}: unexpected outcome {msg}")
        summary[name] = {key: value for key, value in result.items() if key != "total_time"}
    if list(results) != [g + s for g in ("game_a", "game_b", "game_c") for s in ("", "_no_prune")]:
        problems.append(f"{where}: results for {list(results)}")
    return repr(summary)


class TooSlow(Exception):
    pass


def too_slow(signum, frame):
    raise TooSlow()


def solvable(tiles, probabilities):
    low, high = SOLVE_PROB_RANGE
    return tiles <= SOLVE_MAX_TILES and all(low <= pr <= high for pr in probabilities)


def inspect_file(path, solve, record, problems, where):
    import conditionalrewards
    import signal
    with open(path, "rb") as handle:
        raw = handle.read()
    record["file"] = os.path.basename(path)
    record["sha"] = hashlib.sha256(raw).hexdigest()
    record["size"] = len(raw)
    try:
        games = conditionalrewards.read_dict_from_file(path)
    except Exception as error:                 # noqa
        problems.append(f"{where}: the reader failed: {error!r}")
        return
    # the loaded games, not only the bytes (game-for-game comparison)
    record["games_sha"] = hashlib.sha256(repr(games).encode()).hexdigest()
    check_games(games, problems, where)
    if solve:
        signal.signal(signal.SIGALRM, too_slow)
        signal.alarm(SOLVE_TIME_LIMIT)
        try:
            record["solved"] = hashlib.sha256(
                solve_games(games, problems, where).encode()).hexdigest()
        except TooSlow:
            SLOW.append(where)
        except Exception as error:             # noqa
            problems.append(f"{where}: run_games raised {error!r}")
        finally:
            signal.alarm(0)


SLOW = []


def expected_board_name(source, moves, rewards, p_robot, p_light, p_tile):
    """The documented name of the file written for --board, computed independently."""
    stem = os.path.basename(source)
    stem = stem.rsplit(".", 1)[0] if "." in stem[1:] else stem      # without its extension
    pct = lambda prob: str(round(prob * 100))          # noqa
    name = "board_%s_w%d_l%d_r%d_rb%s_lb%s_tb%s" % (
        stem, len(moves[0]), len(moves), max(max(row) for row in rewards),
        pct(p_robot), pct(p_light), pct(p_tile))
    return name + ("_force_down" if any(3 in row for row in moves) else "") + ".py"


def draw_board(moves, rewards, loose, style):
    """A hand-written picture of a board, in several spacings."""
    arrows, marks = ["<-", "<>", "->", "v"], ["( )", "(X)"]
    text = ["# a board written by hand", "", "# Board:"] + (["#"] if style != 1 else [])
    for row_m, row_r, row_l in zip(moves, rewards, loose):
        tiles = [(str(r), arrows[m], marks[int(l)]) for m, r, l in zip(row_m, row_r, row_l)]
        if style == 0:
            text.append("#  " + "".join(" [%s|%s%s]" % tile for tile in tiles))
        elif style == 1:
            text.append("#" + "".join("[%s|%s%s]" % tile for tile in tiles))
        elif style == 2:
            text.append("#\t" + "   ".join("[ 00%s | %s %s ]" % tile for tile in tiles) + "   ")
        else:
            text.append("# " + " ".join("[%s|%s%s]" % tile for tile in tiles))
            text.append("#   ")
    end = "\r\n" if style == 3 else "\n"
    return end.join(text + ["", "{'this is': 'never read'}", "# [1|v(X)] not a row either", ""])


BAD_BOARDS = {
    "no title": "#\n#   [0|<>( )]\n\n",
    "empty file": "",
    "title only": "# Board:\n",
    "title, no rows": "# Board:\n#\n\n{}\n",
    "rows not in comments": "# Board:\n [0|<>( )]\n",
    "ragged": "# Board:\n#\n#   [0|<>( )] [1|<>( )]\n#   [0|<>( )]\n\n",
    "ragged 2": "# Board:\n#   [0|<>( )]\n#   [0|<>( )] [1|<>( )]\n\n",
    "junk between tiles": "# Board:\n#   [0|<>( )] and [1|<>( )]\n\n",
    "unknown move": "# Board:\n#   [0|^( )]\n\n",
    "unknown tile": "# Board:\n#   [0|<>(O)]\n\n",
    "negative reward": "# Board:\n#   [-1|<>( )]\n\n",
    "float reward": "# Board:\n#   [1.5|<>( )]\n\n",
    "no reward": "# Board:\n#   [|<>( )]\n\n",
    "unclosed tile": "# Board:\n#   [0|<>( )\n\n",
    "comment among rows": "# Board:\n#   [0|<>( )]\n# seed 3\n#   [0|<>( )]\n\n",
    "title with a tail": "# Board: 3x3\n#   [0|<>( )]\n\n",
}


def extra_cases(cases, out, problems, scratch):
    """
    Only in the patched tree: the new --board option.
      * every accepted parameter set is generated, then generated again from
        the picture at the top of its own file: same bytes, documented name,
        source untouched; then once more with other probabilities, to be
        compared with the seeded generation for those probabilities;
      * hand-written pictures (several spacings, CRLF) of the hand-made boards
        give the games of the manual entry point;
      * malformed pictures, a missing file and bad probabilities are rejected
        and nothing is written.
    Every file written goes through the checks of the property.
    Returns the number of files checked.
    """
    import roberta_generator as gen
    import stochastic_game_from_roborta_board as manual_entry
    import conditionalrewards
    if "--board" not in gen.init_parser().format_help():
        return 0
    checked = 0
    rnd = random.Random(99)
    os.mkdir("boards")

    def listing():
        return sorted(os.listdir("inputs"))

    def clean():
        for name in listing():
            os.remove(os.path.join("inputs", name))

    def content(path):
        with open(path, "rb") as handle:
            return handle.read()

    def run(argv):
        sys.argv = ["roberta_generator.py"] + argv
        gen.main()

    solved = 0
    for number, case in enumerate(cases["cli"]):
        where = f"board cli[{number}] {case}"
        clean()
        run(argv_of(case))
        (source,) = listing()
        source_bytes = content("inputs/" + source)
        moves, rewards, loose = gen.gen_rnd_board(case["seed"], case["length"], case["width"],
                                                  case["t"], case["m"], case["f"])
        if gen.read_board("inputs/" + source) != (moves, rewards, loose):
            problems.append(f"{where}: the board read back is not the board drawn")
        # 1. same probabilities: the same file again, under the documented name
        others = ["--seed", "5", "--width", "2", "--length", "9", "--max_reward", "1",
                  "--prob_loose_tile", "0.9"] if number % 2 else []
        probs = ["-p", repr(case["p"]), "-q", repr(case["q"]), "-r", repr(case["r"])]
        try:
            run([["--board", "-b"][number % 2], "inputs/" + source] + probs + others)
        except BaseException as error:          # noqa
            problems.append(f"{where}: not accepted: {error!r}")
            continue
        name = expected_board_name(source, moves, rewards, case["p"], case["q"], case["r"])
        if listing() != sorted([source, name]):
            problems.append(f"{where}: files {listing()}, expected {name}")
            continue
        if content("inputs/" + source) != source_bytes:
            problems.append(f"{where}: the source file was modified")
        if content("inputs/" + name) != source_bytes:
            problems.append(f"{where}: the file made from the picture differs from its source")
        solve = solved < 40 and solvable(case["width"] * case["length"],
                                         [case["p"], case["q"], case["r"]])
        record = {}
        inspect_file("inputs/" + name, solve, record, problems, where)
        solved += "solved" in record
        checked += 1
        # 2. other probabilities: as the seeded generation with those probabilities
        other = dict(case, p=rnd.choice([0.25, 1e-9, 1 - 1e-9, rnd.random() or 0.5]),
                     q=rnd.choice([0.5, 1e-12, 0.999, rnd.random() or 0.5]),
                     r=rnd.choice([0.3, 5e-324, 1 - 1e-16, rnd.random() or 0.5]))
        os.rename("inputs/" + source, "boards/source.py")
        clean()
        run(["-b", "boards/source.py", "-p", repr(other["p"]), "-q", repr(other["q"]),
             "-r", repr(other["r"])])
        (made,) = listing() or [None]
        if made != expected_board_name("source.py", moves, rewards, other["p"], other["q"], other["r"]):
            problems.append(f"{where}: name {made} for {other}")
        made_bytes = content("inputs/" + made)
        inspect_file("inputs/" + made, False, {}, problems, where + " / other probabilities")
        clean()
        run(argv_of(other))
        (seeded,) = listing()
        if content("inputs/" + seeded) != made_bytes:
            problems.append(f"{where}: differs from the seeded generation for {other}")
        os.remove("boards/source.py")
        checked += 1

    # hand-written pictures against the manual entry point (integer rewards only:
    # the picture shows int(reward))
    for number, (moves, rewards, loose, p_robot, p_light, p_tile) in enumerate(cases["manual"]):
        where = f"board manual[{number}]"
        if any(not isinstance(r, int) or isinstance(r, bool) for row in rewards for r in row):
            continue
        clean()
        manual_entry.create_sg_from_board(moves, rewards, loose, p_robot, p_light, p_tile)
        (manual,) = listing()
        manual_bytes = content("inputs/" + manual)
        for style in range(4):
            clean()
            with open("boards/hand.txt", "w", newline="") as handle:
                handle.write(draw_board(moves, rewards, loose, style))
            if gen.read_board("boards/hand.txt") != (
                    moves, rewards, [[int(l) for l in row] for row in loose]):
                problems.append(f"{where}/{style}: the board read is not the board written")
            run(["--board", "boards/hand.txt", "-p", repr(p_robot), "-q", repr(p_light),
                 "-r", repr(p_tile)])
            (made,) = listing() or [None]
            if made != expected_board_name("hand.txt", moves, rewards, p_robot, p_light, p_tile):
                problems.append(f"{where}/{style}: name {made}")
            if content("inputs/" + made) != manual_bytes:
                problems.append(f"{where}/{style}: differs from the manual entry point")
            inspect_file("inputs/" + made,
                         style == 0 and number % 4 == 0 and solvable(
                             len(moves) * len(moves[0]), [p_robot, p_light, p_tile]),
                         {}, problems, f"{where}/{style}")
            checked += 1

    # what must be rejected, with nothing written
    clean()
    for label, text in BAD_BOARDS.items():
        with open("boards/bad.py", "w") as handle:
            handle.write(text)
        try:
            run(["--board", "boards/bad.py"])
            problems.append(f"bad board '{label}' was accepted: {listing()}")
        except ValueError:
            pass
        except BaseException as error:          # noqa
            problems.append(f"bad board '{label}': {error!r} instead of ValueError")
        if listing():
            problems.append(f"bad board '{label}': something was written: {listing()}")
            clean()
    with open("boards/good.py", "w") as handle:
        handle.write("# Board:\n#\n#   [2|<>(X)]\n\n")
    for argv, expected in [(["-b", "boards/missing.py"], OSError),
                           (["-b", "boards/good.py", "-p", "0"], ValueError),
                           (["-b", "boards/good.py", "-q", "1"], ValueError),
                           (["-b", "boards/good.py", "-r", "1.5"], ValueError),
                           (["-b", "boards/good.py", "-t", "0"], ValueError),
                           (["-b", "boards/good.py", "-w", "0"], ValueError),
                           (["-b", "boards/good.py", "-s", "-1"], ValueError)]:
        try:
            run(argv)
            problems.append(f"{argv} was accepted")
        except expected:
            pass
        except BaseException as error:          # noqa
            problems.append(f"{argv}: {error!r}")
        if listing():
            problems.append(f"{argv}: something was written: {listing()}")
            clean()

    # a real command line
    done = subprocess.run([sys.executable, gen.__file__, "--board", "boards/good.py"],
                          capture_output=True, text=True)
    if done.returncode != 0 or listing() != ["board_good_w1_l1_r2_rb10_lb10_tb10.py"]:
        problems.append(f"board real: rc {done.returncode} {done.stderr} {listing()}")
    else:
        inspect_file("inputs/" + listing()[0], True, {}, problems, "board real")
        checked += 1
    return checked


def worker(root, spec_path, out_path):
    sys.path.insert(0, root)
    scratch = tempfile.mkdtemp(prefix="c11_")
    os.chdir(scratch)
    os.mkdir("inputs")
    os.mkdir("outputs")
    import roberta_generator
    import stochastic_game_from_roborta_board as manual_entry
    assert os.path.dirname(os.path.abspath(roberta_generator.__file__)) == os.path.abspath(root)
    with open(spec_path) as handle:
        cases = json.load(handle)
    out = dict(cli=[], rejected=[], manual=[], real=[], direct=[])
    problems = []

    def listing():
        return sorted(os.listdir("inputs"))

    def clean():
        for name in listing():
            os.remove(os.path.join("inputs", name))

    for number, case in enumerate(cases["cli"]):
        where = f"cli[{number}] {case}"
        record = {}
        clean()
        sys.argv = ["roberta_generator.py"] + argv_of(case)
        try:
            roberta_generator.main()
        except BaseException as error:          # noqa
            problems.append(f"{where}: not accepted: {error!r}")
            out["cli"].append(record)
            continue
        files = listing()
        record["files"] = files
        if len(files) != 1:
            problems.append(f"{where}: {len(files)} files written")
        else:
            inspect_file(os.path.join("inputs", files[0]),
                         solvable(case["width"] * case["length"],
                                  [case["p"], case["q"], case["r"]]),
                         record, problems, where)
        out["cli"].append(record)

    for number, case in enumerate(cases["rejected"]):
        clean()
        sys.argv = ["roberta_generator.py"] + argv_of(case)
        try:
            roberta_generator.main()
            outcome = "accepted"
        except BaseException as error:          # noqa
            outcome = f"{type(error).__name__}: {error}"
        out["rejected"].append(dict(outcome=outcome, files=listing()))

    for number, (moves, rewards, loose, p_robot, p_light, p_tile) in enumerate(cases["manual"]):
        where = f"manual[{number}]"
        record = {}
        clean()
        before = repr((moves, rewards, loose))
        try:
            manual_entry.create_sg_from_board(moves, rewards, loose, p_robot, p_light, p_tile)
        except BaseException as error:          # noqa
            problems.append(f"{where}: raised {error!r}")
            out["manual"].append(record)
            continue
        if repr((moves, rewards, loose)) != before:
            problems.append(f"{where}: the board passed in was modified")
        files = listing()
        record["files"] = files
        if len(files) != 1:
            problems.append(f"{where}: {len(files)} files written")
        else:
            inspect_file(os.path.join("inputs", files[0]),
                         solvable(len(moves) * len(moves[0]), [p_robot, p_light, p_tile]),
                         record, problems, where)
        out["manual"].append(record)

    for number, case in enumerate(cases["real"]):
        where = f"real[{number}] {case}"
        record = {}
        clean()
        done = subprocess.run(
            [sys.executable, os.path.join(root, "roberta_generator.py")] + argv_of(case),
            capture_output=True, text=True)
        record["rc"], record["stdout"], record["stderr"] = done.returncode, done.stdout, done.stderr
        files = listing()
        record["files"] = files
        if done.returncode != 0 or len(files) != 1:
            problems.append(f"{where}: rc {done.returncode}, files {files}")
        else:
            inspect_file(os.path.join("inputs", files[0]),
                         solvable(case.get("width", 3) * case.get("length", 3),
                                  [case.get(key, 0.1) for key in "pqr"]),
                         record, problems, where)
        out["real"].append(record)

    # the writer functions called directly on an in-memory file
    for seed, length, width, force in [(0, 1, 1, False), (1, 2, 3, True), (2, 3, 2, False),
                                       (3, 1, 4, True), (4, 4, 1, False)]:
        moves, rewards, loose = roberta_generator.gen_rnd_board(seed, length, width, 0.4, 3, force)
        buffer = io.StringIO()
        roberta_generator.write_preamble(buffer, length, width, moves, rewards, loose)
        roberta_generator.write_robot_A(buffer, length, width, moves, rewards, loose, 0.2)
        roberta_generator.write_robot_B(buffer, length, width, moves, rewards, loose, 0.2, 0.3)
        roberta_generator.write_robot_C(buffer, length, width, moves, rewards, loose, 0.2, 0.3, 0.4)
        text = buffer.getvalue()
        out["direct"].append(text)
        try:
            check_games(eval(text), problems, f"direct[{seed}]")
        except Exception as error:             # noqa
            problems.append(f"direct[{seed}]: not evaluable: {error!r}")

    extra = extra_cases(cases, out, problems, scratch)
    clean()
    with open(out_path, "w") as handle:
        json.dump(dict(out=out, problems=problems, slow=SLOW, extra=extra), handle)


# --------------------------------------------------------------------------- parent
def run_tree(root, spec_path, label, tmp):
    out_path = os.path.join(tmp, f"{label}.json")
    env = dict(os.environ, PYTHONDONTWRITEBYTECODE="1", PYTHONHASHSEED="0")
    done = subprocess.run([sys.executable, os.path.abspath(__file__), "--worker",
                           os.path.abspath(root), spec_path, out_path],
                          capture_output=True, text=True, env=env)
    if done.returncode != 0:
        print(f"FAIL: the worker for the {label} tree crashed\n{done.stdout}\n{done.stderr}")
        sys.exit(1)
    with open(out_path) as handle:
        return json.load(handle)


def compare(patched, clean, failures):
    for section in clean["out"]:
        a, b = patched["out"].get(section), clean["out"][section]
        if len(a) != len(b):
            failures.append(f"{section}: {len(a)} records against {len(b)}")
            continue
        for number, (x, y) in enumerate(zip(a, b)):
            if x != y:
                failures.append(f"{section}[{number}] differs:\n   patched {str(x)[:300]}\n"
                                f"   clean   {str(y)[:300]}")


def main():
    if len(sys.argv) >= 2 and sys.argv[1] == "--worker":
        worker(*sys.argv[2:5])
        return
    if len(sys.argv) != 3:
        print(__doc__)
        sys.exit(2)
    patched_root, clean_root = sys.argv[1:3]
    with tempfile.TemporaryDirectory() as tmp:
        spec_path = os.path.join(tmp, "cases.json")
        cases = build_cases()
        with open(spec_path, "w") as handle:
            json.dump(cases, handle)
        patched = run_tree(patched_root, spec_path, "patched", tmp)
        clean = run_tree(clean_root, spec_path, "clean", tmp)
    failures = []
    for label, tree in (("patched", patched), ("clean", clean)):
        for problem in tree["problems"]:
            failures.append(f"[{label}] property: {problem}")
    compare(patched, clean, failures)
    counts = ", ".join(f"{len(v)} {k}" for k, v in clean["out"].items())
    solved = sum("solved" in record for section in patched["out"].values()
                 for record in section if isinstance(record, dict))
    counts += f"; {solved} files also solved, {len(patched['slow'])} gave up as too slow"
    counts += f"; {patched['extra']} files made with --board checked"
    if not patched["extra"]:
        failures.append("the patched tree does not know --board: nothing was checked for it")
    if failures:
        print(f"FAIL ({len(failures)} findings; cases: {counts})")
        for failure in failures[:40]:
            print(" -", failure)
        sys.exit(1)
    print(f"PASS (cases: {counts}; files byte-identical, games identical, "
          f"solver outcomes identical, property checks clean in both trees)")


if __name__ == "__main__":
    main()
