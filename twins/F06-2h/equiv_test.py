#!/usr/bin/env python
"""
Equivalence test for C06, variant 2 (error classes, named result tuple, split tail of the
reachability value iteration, driver records an UNSOLVED default).

usage: python equiv_test.py <path-to-patched-root> <path-to-clean-root>

The parent process builds a deterministic list of jobs and has each tree execute them in
its OWN subprocess (same module names, separate interpreters).  For every job the two
trees must produce the same observable outcome:

 * solve(): ~600 random well-formed stopping games + boundary games, pruning on and off.
   The returned object must be a tuple of length 8 equal (==) to the clean 8-tuple; an
   exception must be a ValueError with the same message (the concrete class may now be a
   subclass of ValueError, that is the point of the change); no time-out;
 * Solver.solve_reachability() called directly (as the unit tests do), including the
   "no final state" call and the prune flag on/off;
 * malformed games of every kind check_game()/check_next_states()/init_states() reject,
   plus the ones that die in a builtin (empty game, empty final_states): same message, and
   "is a ValueError" must agree (the driver only catches ValueError);
 * run_games() on batches mixing solvable, unsolvable and malformed games, and the report
   file written by save_results_to_file(): identical (wall-clock fields removed).
Patched-tree-only checks: the result has the documented field names in positional order,
"no solution" is a NoSolutionError < GameError < ValueError, malformed games raise
MalformedGameError, "no solution" is raised exactly when pruning is on and the (clean)
reach probability of state 0 is 0.
Prints PASS and exits 0 when nothing differs, FAIL (with details) otherwise.
"""
import os
import pickle
import random
import subprocess
import sys
import tempfile

P1, P2, PR = "Player 1", "Player 2", "Probabilistic"
NO_SOLUTION = "The game has no solution. The initial state has a reach probability of 0."
SOLVE_TIMEOUT = 20
FIELDS = ("final_strategies", "reachability_strategies", "rewards", "probabilities",
          "n_iterations_reach", "n_iterations_rew", "expected_reach_min_rewards",
          "expected_rewards_min_reach")


# --------------------------------------------------------------------------- worker
def worker(root, jobs_file, out_file):
    import signal
    root = os.path.abspath(root)
    sys.path.insert(0, root)
    scratch = tempfile.mkdtemp(prefix="c06_worker_")
    os.makedirs(os.path.join(scratch, "outputs"))
    os.chdir(scratch)
    import tad
    import conditionalrewards
    assert os.path.abspath(tad.__file__).startswith(root), tad.__file__
    assert os.path.abspath(conditionalrewards.__file__).startswith(root)

    class Timeout(BaseException):
        pass

    def on_alarm(signum, frame):
        raise Timeout()

    signal.signal(signal.SIGALRM, on_alarm)

    def guarded(fn):
        signal.alarm(SOLVE_TIMEOUT)
        try:
            return ("ok", fn())
        except Timeout:
            return ("timeout",)
        except Exception as e:  # every exception is an observable outcome
            return ("err", isinstance(e, ValueError), str(e),
                    [c.__name__ for c in type(e).__mro__])
        finally:
            signal.alarm(0)

    with open(jobs_file, "rb") as f:
        jobs = pickle.load(f)
    out = {}
    for job_id, kind, payload in jobs:
        if kind == "solve":
            def run(payload=payload):
                result = tad.StochasticGame(**payload).solve()
                a, b, c, d, e, f_, g, h = result            # must unpack like before
                named = None
                if hasattr(result, "_fields"):
                    named = (tuple(result._fields),
                             tuple(getattr(result, name) for name in result._fields))
                return (isinstance(result, tuple), len(result), tuple(result),
                        result == tuple(result) and tuple(result) == result,
                        (a, b, c, d, e, f_, g, h) == tuple(result), named)
            out[job_id] = guarded(run)
        elif kind == "solver_direct":
            game, finals, prune = payload

            def run(game=game, finals=finals, prune=prune):
                sgame = tad.StochasticGame(**game)
                state_list = sgame.init_states()
                res = tad.Solver(state_list).solve_reachability(
                    sgame.transition_list, finals, prune)
                return (tuple(res), [st.reach_probability for st in state_list],
                        [st.expected_reach_min_rewards for st in state_list])
            out[job_id] = guarded(run)
        elif kind == "batch":
            games, kwargs, report_name = payload

            def run(games=games, kwargs=kwargs, report_name=report_name):
                results = conditionalrewards.run_games(games, **kwargs)
                conditionalrewards.save_results_to_file(results, "inputs/%s.py" % report_name)
                with open("outputs/%s.txt" % report_name) as rf:
                    report = [line for line in rf.read().split("\n")
                              if not line.startswith("Total time")]
                for entry in results.values():
                    entry.pop("total_time")
                return (list(results.items()), report)
            out[job_id] = guarded(run)
    with open(out_file, "wb") as f:
        pickle.dump(out, f)


# --------------------------------------------------------------------------- games
def absorbing(i):
    return [(1, i)]


def random_probs(rng, k, style):
    if k == 1:
        return [1]
    if style == "dyadic":
        ws = [rng.choice([1, 1, 2, 3]) for _ in range(k)]
        tot = sum(ws)
        return [w / tot for w in ws]
    if style == "tiny":
        # the first weight belongs to the guaranteed forward edge: it is never tiny, so the
        # game does not only stop in theory (value iteration would need ~1e9 sweeps)
        ws = [rng.choice([1e-9, 1e-4, 1.0, 2.0]) for _ in range(k)]
        ws[0] = rng.choice([1.0, 2.0])
        tot = sum(ws)
        return [w / tot for w in ws]
    ws = [rng.random() + 0.01 for _ in range(k)]
    tot = sum(ws)
    return [w / tot for w in ws]


def random_game(rng, structural=False):
    """
    A well-formed stopping game: the last states are absorbing (zero reward, self-loop),
    player edges only go forward in a hidden order, probabilistic states always keep a
    forward edge with positive probability (back edges and self-loops allowed), so every
    play is absorbed with probability 1 whatever the players do.  The hidden order is
    then shuffled so that dead / final / initial states sit at arbitrary indices.
    """
    n_abs = rng.randint(1, 4)
    n_inner = rng.randint(0, 4 if structural else 9)
    n = n_inner + n_abs
    style = "dyadic" if structural else rng.choice(["dyadic", "dyadic", "tiny", "float"])
    players, trans, rewards = [], [], []
    for i in range(n_inner):
        player = rng.choice([P1, P2, PR, PR])
        players.append(player)
        rewards.append(rng.choice([0, 0, 1, 1, 2, 5, 2.5, 5 / 3]))
        forward = list(range(i + 1, n))
        if player == PR:
            k = rng.randint(1, 4)
            targets = [rng.choice(forward)]
            for _ in range(k - 1):
                # tiny probabilities only on forward edges: a tiny exit probability on a cycle
                # stops in theory but needs ~1e9 sweeps (in the clean tree as well)
                only_forward = style == "tiny" or rng.random() < 0.6
                targets.append(rng.choice(forward if only_forward else list(range(n))))
            probs = random_probs(rng, k, style)
            row = [(p, t) for p, t in zip(probs, targets)]
            rng.shuffle(row)
            trans.append(row)
        else:
            k = rng.randint(1, 3)
            names = rng.sample(["alfa", "beta", "gamma", "delta", " "], k)
            trans.append([(a, rng.choice(forward)) for a in names])
    for i in range(n_inner, n):
        players.append(PR)
        rewards.append(0)
        trans.append(absorbing(i))
    finals = [i for i in range(n_inner, n) if rng.random() < 0.5]
    if not finals:
        finals = [rng.randrange(n_inner, n)]     # final states are absorbing (the play stops)
    # shuffle the indices (sometimes keep 0 first so that the initial state is "early")
    perm = list(range(n))
    if rng.random() < 0.6:
        rng.shuffle(perm)
    elif n > 2:
        tail = perm[1:]
        rng.shuffle(tail)
        perm = [0] + tail
    new_players, new_trans, new_rewards = [None] * n, [None] * n, [None] * n
    for old in range(n):
        new = perm[old]
        new_players[new] = players[old]
        new_rewards[new] = rewards[old]
        new_trans[new] = [(x, perm[t]) for x, t in trans[old]]
    finals = sorted({perm[f] for f in finals})
    if rng.random() < 0.3:
        rng.shuffle(finals)
    return {"rewards": new_rewards, "players": new_players,
            "transition_list": new_trans, "final_states": finals}


def boundary_games():
    games = {}
    # one state, final and absorbing
    games["single_final"] = dict(rewards=[0], players=[PR], transition_list=[[(1, 0)]],
                                 final_states=[0])
    # initial state absorbing and not final: no solution
    games["initial_dead_sink"] = dict(rewards=[0, 0], players=[PR, PR],
                                      transition_list=[[(1, 0)], [(1, 1)]], final_states=[1])
    # initial state cannot reach the final state through a chain
    games["initial_chain_dead"] = dict(
        rewards=[1, 2, 0, 0], players=[P1, P2, PR, PR],
        transition_list=[[("a", 1)], [("b", 2)], [(1, 2)], [(1, 3)]], final_states=[3])
    # Player 2 forces the play away from the final state
    games["p2_forces_away"] = dict(
        rewards=[1, 0, 0], players=[P2, PR, PR],
        transition_list=[[("good", 1), ("bad", 2)], [(1, 1)], [(1, 2)]], final_states=[1])
    games["p2_forces_away_deep"] = dict(
        rewards=[0, 1, 3, 0, 0], players=[PR, P2, P1, PR, PR],
        transition_list=[[(0.5, 1), (0.5, 1)], [("x", 2), ("y", 4)], [("u", 3), ("v", 4)],
                         [(1, 3)], [(1, 4)]], final_states=[3])
    # two separated dead successors (used to abort with 'x not in list')
    games["two_separated_dead"] = dict(
        rewards=[1, 0, 0, 0, 0], players=[PR, PR, PR, PR, PR],
        transition_list=[[(0.25, 1), (0.25, 2), (0.25, 3), (0.25, 4)],
                         [(1, 1)], [(1, 2)], [(1, 3)], [(1, 4)]], final_states=[2, 4])
    # two adjacent dead successors on a rewarded self-loop (used to never terminate)
    games["two_adjacent_dead_selfloop"] = dict(
        rewards=[3, 0, 0, 0], players=[PR, PR, PR, PR],
        transition_list=[[(0.25, 1), (0.25, 2), (0.25, 0), (0.25, 3)],
                         [(1, 1)], [(1, 2)], [(1, 3)]], final_states=[3])
    games["same_dead_twice"] = dict(
        rewards=[3, 0, 0], players=[PR, PR, PR],
        transition_list=[[(0.2, 1), (0.2, 1), (0.3, 0), (0.3, 2)], [(1, 1)], [(1, 2)]],
        final_states=[2])
    # every successor of an inner probabilistic state is dead
    games["inner_all_dead"] = dict(
        rewards=[0, 4, 0, 0, 0], players=[P1, PR, PR, PR, PR],
        transition_list=[[("l", 1), ("r", 4)], [(0.5, 2), (0.5, 3)], [(1, 2)], [(1, 3)],
                         [(1, 4)]], final_states=[4])
    # tiny and near-1 probabilities
    games["tiny_prob"] = dict(
        rewards=[1, 0, 0], players=[PR, PR, PR],
        transition_list=[[(1e-12, 1), (1 - 1e-12, 2)], [(1, 1)], [(1, 2)]], final_states=[1])
    games["slow_selfloop"] = dict(
        rewards=[1, 0, 0], players=[PR, PR, PR],
        transition_list=[[(0.999, 0), (0.0005, 1), (0.0005, 2)], [(1, 1)], [(1, 2)]],
        final_states=[1])
    # ties everywhere
    games["ties"] = dict(
        rewards=[0, 1, 1, 1, 0, 0], players=[P1, P2, P2, PR, PR, PR],
        transition_list=[[("a", 1), ("b", 2), ("c", 3)], [("x", 4), ("y", 4)],
                         [("x", 4), ("y", 4)], [(0.5, 4), (0.5, 4)], [(1, 4)], [(1, 5)]],
        final_states=[4])
    # several finals, the first listed is not the smallest
    games["finals_unordered"] = dict(
        rewards=[2, 0, 0, 0], players=[PR, PR, PR, PR],
        transition_list=[[(0.5, 1), (0.25, 2), (0.25, 3)], [(1, 1)], [(1, 2)], [(1, 3)]],
        final_states=[3, 1])
    # the initial state is final itself
    games["initial_is_final"] = dict(
        rewards=[1, 0], players=[P1, PR],
        transition_list=[[("go", 1)], [(1, 1)]], final_states=[0])
    return games


def malformed_games():
    ok = dict(rewards=[1, 0, 0], players=[P1, PR, PR],
              transition_list=[[("a", 1), ("b", 2)], [(1, 1)], [(1, 2)]], final_states=[1])

    def variant(**changes):
        game = {k: (list(v) if isinstance(v, list) else v) for k, v in ok.items()}
        game.update(changes)
        return game
    games = {}
    games["bad_short_transitions"] = variant(transition_list=[[("a", 1)], [(1, 1)]])
    games["bad_short_rewards"] = variant(rewards=[1, 0])
    games["bad_short_players"] = variant(players=[P1, PR])
    games["bad_negative_reward"] = variant(rewards=[1, -1, 0])
    games["bad_final_high"] = variant(final_states=[3])
    games["bad_final_low"] = variant(final_states=[-1])
    games["bad_final_empty"] = variant(final_states=[])
    games["bad_player"] = variant(players=[P1, "Player 3", PR])
    games["bad_missing_transitions"] = variant(transition_list=[[], [(1, 1)], [(1, 2)]])
    games["bad_next_not_list"] = variant(transition_list=[(("a", 1),), [(1, 1)], [(1, 2)]])
    games["bad_next_not_tuple"] = variant(transition_list=[[["a", 1]], [(1, 1)], [(1, 2)]])
    games["bad_next_long_tuple"] = variant(transition_list=[[("a", 1, 2)], [(1, 1)], [(1, 2)]])
    games["bad_action_type"] = variant(transition_list=[[(1, 1)], [(1, 1)], [(1, 2)]])
    games["bad_prob_type"] = variant(transition_list=[[("a", 1)], [("x", 1)], [(1, 2)]])
    games["bad_next_state_type"] = variant(transition_list=[[("a", 1.0)], [(1, 1)], [(1, 2)]])
    games["bad_next_state_range"] = variant(transition_list=[[("a", 3)], [(1, 1)], [(1, 2)]])
    games["bad_next_state_negative"] = variant(transition_list=[[("a", -1)], [(1, 1)], [(1, 2)]])
    games["bad_empty_game"] = dict(rewards=[], players=[], transition_list=[], final_states=[])
    games["bad_rewards_none"] = variant(rewards=None)
    return games


# --------------------------------------------------------------------------- parent
def run_tree(root, jobs, tag):
    tmp = tempfile.mkdtemp(prefix="c06_%s_" % tag)
    jobs_file = os.path.join(tmp, "jobs.pkl")
    out_file = os.path.join(tmp, "out.pkl")
    with open(jobs_file, "wb") as f:
        pickle.dump(jobs, f)
    env = dict(os.environ)
    env.pop("PYTHONPATH", None)
    env["PYTHONDONTWRITEBYTECODE"] = "1"
    proc = subprocess.run([sys.executable, os.path.abspath(__file__), "--worker",
                           root, jobs_file, out_file], env=env,
                          stdout=subprocess.PIPE, stderr=subprocess.PIPE, text=True)
    if proc.returncode != 0:
        print("FAIL: worker for %s crashed\n%s" % (tag, proc.stderr[-3000:]))
        sys.exit(1)
    with open(out_file, "rb") as f:
        return pickle.load(f)


def main():
    patched_root, clean_root = sys.argv[1], sys.argv[2]
    rng = random.Random(260606)
    games = dict(boundary_games())
    for i in range(600):
        games["rnd_%03d" % i] = random_game(rng)
    bad = malformed_games()

    jobs = []
    for name, game in list(games.items()) + list(bad.items()):
        for prune in (True, False):
            jobs.append((("solve", name, prune), "solve", dict(game, prune_states=prune)))
    direct_names = list(games)[:150]
    for name in direct_names:
        game = games[name]
        for prune in (True, False):
            jobs.append((("direct", name, prune), "solver_direct",
                         (game, game["final_states"], prune)))
        jobs.append((("direct_nofinal", name), "solver_direct", (game, [], True)))
    everything = dict(games)
    everything.update(bad)
    everything.pop("bad_rewards_none")     # a TypeError: aborts the whole batch in both trees
    names = list(everything)
    rng.shuffle(names)                     # malformed games spread over the batches
    batches = [names[i:i + 25] for i in range(0, len(names), 25)]
    for b, chunk in enumerate(batches):
        jobs.append((("batch", b), "batch",
                     ({n: everything[n] for n in chunk}, {}, "batch_%d" % b)))

    patched = run_tree(patched_root, jobs, "patched")
    clean = run_tree(clean_root, jobs, "clean")

    failures = []

    def fail(msg):
        failures.append(msg)

    def same(p, c):
        """Outcome equality; the concrete exception class is allowed to be a subclass."""
        if p[0] != c[0]:
            return False
        if p[0] == "err":
            return p[1:3] == c[1:3]
        if p[0] == "ok":
            return p[1] == c[1] if not isinstance(p[1], tuple) or len(p[1]) != 6 \
                else p[1][:5] == c[1][:5]
        return True

    n_ok = n_nosol = n_bad = 0
    for job_id, kind, payload in jobs:
        p, c = patched[job_id], clean[job_id]
        if p[0] == "timeout" or c[0] == "timeout":
            fail("%s: time-out (patched %s, clean %s)" % (job_id, p[0], c[0]))
            continue
        if kind == "batch":
            if p[0] != "ok" or c[0] != "ok" or p[1] != c[1]:
                fail("%s: run_games results or report differ (patched %r, clean %r)"
                     % (job_id, p if p[0] != "ok" else "ok", c if c[0] != "ok" else "ok"))
                if p[0] == "ok" and c[0] == "ok":
                    for (pn, pe), (cn, ce) in zip(p[1][0], c[1][0]):
                        if (pn, pe) != (cn, ce):
                            fail("   first difference at %s:\n   %r\n   %r" % (pn, pe, ce))
                            break
            continue
        if not same(p, c):
            fail("%s: outcome differs\n   patched %r\n   clean   %r" % (job_id, p, c))
            continue
        if kind != "solve":
            if job_id[0] == "direct_nofinal":
                if not (p[0] == "err" and "MalformedGameError" in p[3] and
                        p[2] == "There must be at least one final state to solve reachability."):
                    fail("%s: %r" % (job_id, p))
            continue
        # ---- solve(): patched-only expectations
        _, name, prune = job_id
        if p[0] == "ok":
            is_tuple, length, as_tuple, eq_plain, unpacked_ok, named = p[1]
            n_states = len(payload["players"])
            if not (is_tuple and length == 8 and eq_plain and unpacked_ok):
                fail("%s: result does not behave like the old 8-tuple" % (job_id,))
            if named is None or named[0] != FIELDS or named[1] != as_tuple:
                fail("%s: named fields wrong: %r" % (job_id, named and named[0]))
            for pos in (0, 1, 2, 3, 6, 7):
                if len(as_tuple[pos]) != n_states:
                    fail("%s: field %d is not complete" % (job_id, pos))
            if any(v is None for pos in (2, 3, 6, 7) for v in as_tuple[pos]):
                fail("%s: missing value" % (job_id,))
            if name in bad:
                fail("%s: malformed game solved" % (job_id,))
            n_ok += 1
        else:
            _, is_value_error, message, mro = p
            if name in bad:
                n_bad += 1
                builtin = name in ("bad_final_empty", "bad_empty_game", "bad_rewards_none")
                if not builtin and not ("MalformedGameError" in mro and is_value_error):
                    fail("%s: expected MalformedGameError, got %r" % (job_id, mro))
                if builtin and "GameError" in mro:
                    fail("%s: builtin error expected, got %r" % (job_id, mro))
            else:
                n_nosol += 1
                if not (prune and message == NO_SOLUTION and is_value_error and
                        mro[:3] == ["NoSolutionError", "GameError", "ValueError"]):
                    fail("%s: unexpected error %r" % (job_id, p))
    # "no solution" exactly when pruning and the initial reach probability is 0
    for name in games:
        off, on = clean[("solve", name, False)], patched[("solve", name, True)]
        if off[0] != "ok":
            fail("%s: clean no-prune solve failed %r" % (name, off))
            continue
        dead = off[1][2][3][0] == 0
        if dead != (on[0] == "err"):
            fail("%s: initial reach %r but pruned outcome %r" % (name, off[1][2][3][0], on[0]))

    print("%d jobs per tree: %d solved, %d 'no solution', %d malformed, %d direct Solver "
          "calls, %d batches" % (len(jobs), n_ok, n_nosol, n_bad, 3 * len(direct_names),
                                 len(batches)))
    if n_nosol < 50:
        fail("the inputs do not exercise the 'no solution' branch enough")
    if failures:
        print("FAIL")
        for msg in failures[:25]:
            print(" -", msg)
        sys.exit(1)
    print("PASS")


if __name__ == "__main__":
    if len(sys.argv) >= 2 and sys.argv[1] == "--worker":
        worker(sys.argv[2], sys.argv[3], sys.argv[4])
    elif len(sys.argv) == 3:
        main()
    else:
        print(__doc__)
        sys.exit(2)
