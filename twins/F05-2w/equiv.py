#!/usr/bin/env python
"""Differential test for property C05 (final strategies are reward-optimal among
reachability-optimal actions).

usage: python equiv.py <clean_repo_dir> <patched_repo_dir>

Every tree is loaded in its own subprocess (the module names collide); both
workers replay the same deterministic battery and print one repr per case.
The parent compares the two transcripts line by line, prints `SAME` and exits 0
when nothing differs, prints the first difference and exits 1 otherwise.
"""
import os
import subprocess
import sys

WORKER_TIMEOUT = 110


# --------------------------------------------------------------------------- #
# worker side
# --------------------------------------------------------------------------- #
class Cutoff(BaseException):
    """Deterministic cap on the number of node updates of one solve."""


def worker(tree):
    import copy
    import random
    import shutil
    import tempfile
    import types

    tree = os.path.abspath(tree)
    sys.path.insert(0, tree)
    os.chdir(tree)
    import logging
    import time as _time
    import tad
    import conditionalrewards as cr
    logging.disable(logging.CRITICAL)  # silences handlers only; effective levels are untouched
    clock = [_time.process_time()]

    def phase(name):
        if os.environ.get("EQUIV_VERBOSE"):
            now = _time.process_time()
            sys.stderr.write("%-12s %6.2f s cpu, %d lines\n" % (name, now - clock[0], len(out)))
            clock[0] = now
    assert os.path.dirname(os.path.abspath(tad.__file__)) == tree, tad.__file__

    P1, P2, PR = tad.PLAYER_1, tad.PLAYER_2, tad.PROBABILISTIC
    out = []
    emit = out.append

    # ---- deterministic cap: count node updates, identical in both trees ---- #
    budget = {"left": 0}

    def capped(cls, name):
        original = getattr(cls, name)

        def wrapper(self, state_list):
            budget["left"] -= 1
            if budget["left"] < 0:
                raise Cutoff()
            return original(self, state_list)
        setattr(cls, name, wrapper)

    for cls in (tad.PlayerOne, tad.PlayerTwo, tad.ProbabilisticNode):
        capped(cls, "value_iteration_reach")
        capped(cls, "value_iteration_rewards")

    def guarded(label, thunk, cap=2000):
        budget["left"] = cap
        try:
            result = repr(thunk())
        except Cutoff:
            result = "CUTOFF"
        except BaseException as exc:  # type and message are part of the behaviour
            result = "EXC %s: %s" % (type(exc).__name__, exc)
        emit("%s -> %s" % (label, result))

    # ---------------------------------------------------------------- games #
    ACTIONS = ["a", "b", "c", "d", "e", "", " ", "a"]  # "a" twice: duplicate labels

    def split_probabilities(rng, k):
        style = rng.randrange(4)
        if style == 0:
            return [1 / k] * k
        if style == 1:
            cuts = sorted(rng.choice([0.1, 0.2, 0.25, 0.3, 0.5, 0.75]) for _ in range(k - 1))
            cuts = [0] + cuts + [1]
            return [cuts[i + 1] - cuts[i] for i in range(k)]
        if style == 2:
            weights = [rng.randint(1, 4) for _ in range(k)]
            return [w / sum(weights) for w in weights]
        weights = [rng.random() + 0.05 for _ in range(k)]
        return [w / sum(weights) for w in weights]

    def random_game(rng, acyclic):
        n = rng.randint(2, 9)
        n_final = rng.randint(1, min(3, n - 1))
        finals = sorted(rng.sample(range(1, n), n_final))
        if rng.random() < 0.05:
            finals = finals + [finals[0]]
        reward_style = rng.randrange(4)
        players, rewards, transitions = [], [], []
        for idx in range(n):
            sink = idx in finals or (idx >= n - 2 and rng.random() < 0.6)
            if reward_style == 0:
                reward = rng.choice([0, 0, 1, 2])
            elif reward_style == 1:
                reward = rng.choice([0, 1, 1, 3, 5 / 3, 0.5, 10])
            elif reward_style == 2:
                reward = rng.choice([0, 1e-7, 4e-7, 5e-7, 1, 1 + 5e-7, 1 + 4e-7])
            else:
                reward = rng.randint(0, 3)
            if sink and rng.random() < 0.9:
                players.append(PR)
                rewards.append(0 if rng.random() < 0.9 else reward)
                transitions.append([(1, idx)])
                continue
            player = rng.choice([P1, P1, P2, P2, PR])
            k = rng.randint(1, 4)
            if acyclic and idx < n - 1:
                targets = [rng.randint(idx + 1, n - 1) for _ in range(k)]
            else:
                targets = [rng.randrange(n) if rng.random() < 0.3 or idx == n - 1
                           else rng.randint(idx + 1, n - 1) for _ in range(k)]
            if rng.random() < 0.25 and k > 1:
                targets[-1] = targets[0]  # parallel edges
            if player == PR:
                probabilities = split_probabilities(rng, k)
                transitions.append(list(zip(probabilities, targets)))
            else:
                labels = [rng.choice(ACTIONS) for _ in range(k)] if rng.random() < 0.3 \
                    else rng.sample(ACTIONS[:7], k)
                transitions.append(list(zip(labels, targets)))
            players.append(player)
            rewards.append(reward)
        return {"rewards": rewards, "players": players,
                "transition_list": transitions, "final_states": finals}

    def solve_once(game, prune):
        sgame = tad.StochasticGame(prune_states=prune, **copy.deepcopy(game))
        result = sgame.solve()
        return result, sgame.transition_list, sgame.final_states

    rng = random.Random(50505)
    games, settled = [], []
    for case in range(640):
        game = random_game(rng, acyclic=case % 2 == 0)
        games.append(game)
        before = len(out)
        for prune in (True, False):
            guarded("solve[%d,%s]" % (case, prune), lambda: solve_once(game, prune))
        if not any(line.endswith("CUTOFF") for line in out[before:]):
            settled.append(game)
    phase("solve")

    # ------------------------------------------------- hand-made tie games #
    def tie_game(r_a, r_b, r_c, chooser, final_reward=0):
        return {
            "rewards": [0, r_a, r_b, r_c, final_reward, 0],
            "players": [chooser, PR, PR, PR, PR, PR],
            "transition_list": [[("x", 1), ("y", 2), ("z", 3), ("x", 2)],
                                [(0.5, 4), (0.5, 5)], [(0.5, 4), (0.5, 5)],
                                [(0.25, 4), (0.75, 5)], [(1, 4)], [(1, 5)]],
            "final_states": [4]}

    values = [0, 0.0, 1, 2, 4e-7, 6e-7, 1 + 4e-7, 1 + 6e-7, 1e9]
    for chooser in (P1, P2):
        for r_a in values:
            for r_b in values:
                game = tie_game(r_a, r_b, rng.choice(values), chooser)
                for prune in (True, False):
                    guarded("tie[%s,%r,%r,%s]" % (chooser, r_a, r_b, prune),
                            lambda: solve_once(game, prune))

    phase("ties")
    # ------------------------------------------------------ malformed games #
    base = {"rewards": [0, 1, 2, 0], "players": [P1, P2, PR, PR],
            "transition_list": [[("a", 1), ("b", 2)], [("c", 2), ("d", 3)],
                                [(0.5, 3), (0.5, 0)], [(1, 3)]],
            "final_states": [3]}

    def mutated(**changes):
        game = copy.deepcopy(base)
        game.update(changes)
        return game

    def with_transitions(idx, value):
        game = copy.deepcopy(base)
        game["transition_list"][idx] = value
        return game

    malformed = [
        mutated(rewards=[0, 1, 2]), mutated(rewards=[0, 1, 2, 0, 0]),
        mutated(rewards=[0, -1, 2, 0]), mutated(rewards=[0, "1", 2, 0]),
        mutated(rewards=[0, None, 2, 0]), mutated(rewards=[]),
        mutated(rewards=[0, float("nan"), 2, 0]), mutated(rewards=[0, float("inf"), 2, 0]),
        mutated(rewards=[float("nan"), 1, 2, 0]), mutated(rewards=[0, 1, float("nan"), 0]),
        mutated(rewards=[True, False, 2, 0]),
        mutated(final_states=[]), mutated(final_states=[4]), mutated(final_states=[-1]),
        mutated(final_states=[3, 3]), mutated(final_states=[0]), mutated(final_states=[1, 2]),
        mutated(final_states=["3"]), mutated(final_states=None), mutated(final_states=(3,)),
        mutated(players=[P1, P2, PR]), mutated(players=[P1, P2, PR, "Player 3"]),
        mutated(players=[P1, P2, PR, None]), mutated(players=[P2, P1, PR, PR]),
        mutated(players=[PR, PR, PR, PR]), mutated(players=[P1, P1, P1, P1]),
        mutated(players=[P2, P2, P2, P2]), mutated(players=[]),
        mutated(transition_list=[]), mutated(transition_list=None),
        mutated(transition_list=base["transition_list"][:3]),
        with_transitions(0, []), with_transitions(1, []), with_transitions(3, []),
        with_transitions(0, None), with_transitions(0, (("a", 1),)),
        with_transitions(0, [["a", 1]]), with_transitions(0, [("a", 1, 2)]),
        with_transitions(0, [("a",)]), with_transitions(0, [(1, 1)]),
        with_transitions(1, [(None, 2)]), with_transitions(2, [("0.5", 3), (0.5, 0)]),
        with_transitions(0, [("a", 1.0)]), with_transitions(0, [("a", "1")]),
        with_transitions(0, [("a", 4)]), with_transitions(0, [("a", -1)]),
        with_transitions(1, [("c", 7)]), with_transitions(2, [(0.5, 9)]),
        with_transitions(2, [(True, 3)]), with_transitions(0, [("a", True)]),
        with_transitions(0, [("a", 0)]), with_transitions(0, [("a", 0), ("a", 0)]),
        with_transitions(0, [("a", 1), ("a", 2), ("a", 1)]),
        with_transitions(2, [(0, 3), (1, 0)]), with_transitions(2, [(0.0, 3), (1.0, 1)]),
        with_transitions(2, [(2, 3)]), with_transitions(2, [(-1, 3), (2, 3)]),
        with_transitions(2, [(float("nan"), 3)]), with_transitions(3, [(1, 0)]),
    ]
    for number, game in enumerate(malformed):
        for prune in (True, False):
            guarded("malformed[%d,%s]" % (number, prune), lambda: solve_once(game, prune))

    phase("malformed")
    # ---------------------------------------------- direct calls on the nodes #
    nan, inf = float("nan"), float("inf")
    pool_plain = [0, 0.0, -0.0, 1, 1.0, 2, 3, 0.5, 2.5, 3.5, 1e-7, 4e-7, 5e-7, 6e-7, 1.5e-6,
                  0.1 + 0.2, 0.3, 1 / 3, 2 / 3, 5 / 3, 1e9, 1e16, 1e300, True, False]
    pool_wild = pool_plain + [nan, inf, -inf, -1, -0.5, -4e-7, -1e-9, 1 - 4e-7, 1 + 4e-7,
                              1 - 6e-7, 0.5000005, 0.4999995, 2.675, 0.125, 0.375]
    floors = [6, 6, 6, 0, 1, 2, 3, 12, -1, None]

    def fake_states(values):
        return [types.SimpleNamespace(expected_rewards=v, reach_probability=v,
                                      expected_rewards_min_reach=v,
                                      expected_reach_min_rewards=v) for v in values]

    def make_node(cls, player, next_states, n):
        return cls(player=player, idx=0, reward=1, next_states=next_states,
                   num_states=n, is_final_node=False)

    for case in range(5000):
        pool = pool_plain if case % 3 == 0 else pool_wild
        n = rng.randint(1, 7)
        if case % 5 == 0:  # heavy exact ties
            few = [rng.choice(pool) for _ in range(2)]
            values = [rng.choice(few) for _ in range(n)]
        else:
            values = [rng.choice(pool) for _ in range(n)]
        k = rng.randint(0, 6)
        next_states = [(rng.choice(ACTIONS), rng.randrange(n)) for _ in range(k)]
        floor = rng.choice(floors)
        states = fake_states(values)
        one = make_node(tad.PlayerOne, P1, next_states, n)
        two = make_node(tad.PlayerTwo, P2, next_states, n)
        guarded("best[%d]" % case,
                lambda: (one.get_best_strategies_total_rewards(states, floor), one.next_states))
        guarded("worst[%d]" % case,
                lambda: (two.get_worst_strategies_total_rewards(states, floor), two.next_states))
        guarded("best_reach[%d]" % case,
                lambda: one.get_best_strategies_reachability(states, floor))
        guarded("worst_reach[%d]" % case,
                lambda: two.get_worst_strategies_reachability(states, floor))
        if case % 4 == 0:
            keep = [rng.choice(ACTIONS) for _ in range(rng.randint(0, 3))]
            guarded("prune_paths_reachability[%d]" % case,
                    lambda: (one.prune_paths_reachability(keep), one.next_states,
                             one.get_best_strategies_total_rewards(states, floor)))

    phase("direct")
    # results must be fresh lists that do not alias the node or each other
    def aliasing():
        states = fake_states([0, 2, 2, 1])
        one = make_node(tad.PlayerOne, P1, [("a", 1), ("b", 2), ("c", 3)], 4)
        two = make_node(tad.PlayerTwo, P2, [("a", 1), ("b", 2), ("c", 3)], 4)
        first, second = (one.get_best_strategies_total_rewards(states, 6) for _ in range(2))
        third, fourth = (two.get_worst_strategies_total_rewards(states, 6) for _ in range(2))
        first.append("zzz")
        third.append("zzz")
        return (first, second, third, fourth, type(first).__name__, type(third).__name__,
                first is second, third is fourth, one.next_states, two.next_states)
    guarded("aliasing", aliasing)

    # bad arguments to the direct calls
    def bad_calls():
        states = fake_states([0, 1, 2])
        result = []
        for cls, player, name in ((tad.PlayerOne, P1, "get_best_strategies_total_rewards"),
                                  (tad.PlayerTwo, P2, "get_worst_strategies_total_rewards")):
            for next_states in ([], [("a", 1)], [("a", 1), ("b", 2)]):
                node = make_node(cls, player, next_states, 3)
                for state_list, floor in ((states, "6"), (states, 1.5), ([], 6), (states[:2], 6),
                                          (None, 6), (fake_states(["x", None, 1j]), 6),
                                          ([object()] * 3, 6), (states, True)):
                    try:
                        result.append(repr(getattr(node, name)(state_list, floor)))
                    except Exception as exc:
                        result.append("%s: %s" % (type(exc).__name__, exc))
        return result
    guarded("bad_calls", bad_calls)

    # ------------------------------------- Solver on hand-filled state lists #
    for case in range(500):
        game = games[rng.randrange(len(games))]

        def strategies_for_filled_values():
            state_list = tad.StochasticGame(**copy.deepcopy(game)).init_states()
            solver = tad.Solver(state_list, threshold=rng.choice([10 ** -6, 10 ** -3, 0.5, 1e-9]))
            for state in state_list:
                state.expected_rewards = rng.choice(pool_plain if case % 2 else pool_wild)
                state.reach_probability = rng.choice([0, 0.25, 0.5, 0.5000004, 1])
            reach = solver._get_reachability_strategies()
            before = solver._get_total_rewards_strategies()
            solver.prune_reachability(reach)
            after = solver._get_total_rewards_strategies()
            return solver.floor, reach, before, after, [s.next_states for s in state_list]
        guarded("filled[%d]" % case, strategies_for_filled_values)

    phase("filled")
    # ---------------------------------------------------- run_games + report #
    scratch = tempfile.mkdtemp(prefix="equiv_F05_")
    os.makedirs(os.path.join(scratch, "outputs"))
    os.chdir(scratch)
    real_time = cr.time.time
    ticks = iter(range(10 ** 9))
    cr.time = types.SimpleNamespace(time=lambda: float(next(ticks)))
    try:
        batches = []
        for start in range(0, min(120, len(settled) - 6), 6):
            batch = {"g%d" % i: copy.deepcopy(settled[i]) for i in range(start, start + 6)}
            if start % 3 == 0:
                batch["bad%d" % start] = copy.deepcopy(malformed[(start // 3) % len(malformed)])
            batches.append(batch)
        batches.append({"m%d" % i: copy.deepcopy(g) for i, g in enumerate(malformed)})
        for number, batch in enumerate(batches):
            def run_and_save():
                results = cr.run_games(batch)
                cr.save_results_to_file(results, "some/dir/batch_%d.v2.py" % number)
                with open(os.path.join("outputs", "batch_%d.txt" % number), "rb") as handle:
                    return results, handle.read(), batch
            guarded("run_games[%d]" % number, run_and_save, cap=40000)
    finally:
        cr.time = types.SimpleNamespace(time=real_time)
        os.chdir(tree)

    phase("run_games")
    # ---------------------------------------------- games shipped in inputs/ #
    for file_name in ("example_games.py", "paper_games.py", "example_17_08.py",
                      "manual_1_game_a.py"):
        path = os.path.join(tree, "inputs", file_name)
        if not os.path.exists(path):
            emit("shipped[%s] -> missing" % file_name)
            continue

        def shipped():
            shipped_games = cr.read_dict_from_file(path)
            return [(name, solve_once(g, prune)[0][:2])
                    for name, g in shipped_games.items() for prune in (True, False)
                    if len(g["players"]) <= 60]
        guarded("shipped[%s]" % file_name, shipped, cap=60000)
    phase("shipped")

    shutil.rmtree(scratch, ignore_errors=True)
    sys.stdout.write("\n".join(line.replace("\n", "\\n") for line in out))
    sys.stdout.write("\nEND %d\n" % len(out))


# --------------------------------------------------------------------------- #
# parent side
# --------------------------------------------------------------------------- #
def main():
    if len(sys.argv) == 3 and sys.argv[1] == "--worker":
        worker(sys.argv[2])
        return 0
    if len(sys.argv) != 3:
        print(__doc__)
        return 2
    env = dict(os.environ, PYTHONHASHSEED="0", PYTHONDONTWRITEBYTECODE="1")
    procs = [subprocess.Popen([sys.executable, os.path.abspath(__file__), "--worker", tree],
                              stdout=subprocess.PIPE, stderr=subprocess.PIPE, env=env)
             for tree in sys.argv[1:3]]
    transcripts = []
    for tree, proc in zip(sys.argv[1:3], procs):
        try:
            stdout, stderr = proc.communicate(timeout=WORKER_TIMEOUT)
        except subprocess.TimeoutExpired:
            for other in procs:
                other.kill()
            print("DIFFERENT: worker for %s exceeded %d s" % (tree, WORKER_TIMEOUT))
            return 1
        if proc.returncode != 0:
            for other in procs:
                other.kill()
            print("DIFFERENT: worker for %s failed (exit %s)\n%s"
                  % (tree, proc.returncode, stderr.decode(errors="replace")[-3000:]))
            return 1
        transcripts.append(stdout.decode(errors="replace").splitlines())
    clean, patched = transcripts
    if not clean or not clean[-1].startswith("END "):
        print("DIFFERENT: clean transcript is incomplete")
        return 1
    for number, (left, right) in enumerate(zip(clean, patched)):
        if left != right:
            print("DIFFERENT at case %d\n  clean  : %s\n  patched: %s"
                  % (number, left[:1500], right[:1500]))
            return 1
    if len(clean) != len(patched):
        print("DIFFERENT: %d lines versus %d lines" % (len(clean), len(patched)))
        return 1
    print("SAME")
    return 0


if __name__ == "__main__":
    sys.exit(main())
