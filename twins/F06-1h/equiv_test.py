#!/usr/bin/env python
"""
Equivalence / property test for C06, variant 1 (configurable initial state).

usage: python equiv_test.py <path-to-patched-root> <path-to-clean-root>

The parent process builds a deterministic list of jobs (games to solve, batches for
run_games) and has each tree execute its jobs in its OWN subprocess (same module names,
separate interpreters).  It then checks

 A. default configuration: for every game and both pruning modes the patched tree gives
    exactly the outcome of the clean tree (returned 8-tuple compared with ==, or the
    exception type and message), no time-out, and run_games()/the report are identical
    (wall-clock fields removed, the new 'initial_state' entry must be 0 and is removed);
 B. new code path (initial_state=k, every k of many games), judged against the CLEAN tree:
    * pruning off: the whole result equals the clean result (the initial state is
      irrelevant without pruning);
    * pruning on: "no solution" is raised exactly when the clean reach probability of
      state k is 0, otherwise a complete result comes back whose probabilities and
      reachability strategies equal the clean ones (they do not depend on the initial
      state) and whose rewards agree (tolerance) with the clean solution of the same
      game with a fresh state 0 that moves to k with probability 1;
    * run_games(games, initial_state=k) agrees with the direct solves.
Prints PASS and exits 0 when nothing differs, FAIL (with details) otherwise.
"""
import os
import pickle
import random
import subprocess
import sys
import tempfile

P1, P2, PR = "Player 1", "Player 2", "Probabilistic"
NO_SOLUTION = "The game has no solution. The initial state has a reach probability of 0."
SOLVE_TIMEOUT = 20


# --------------------------------------------------------------------------- worker
def worker(root, jobs_file, out_file):
    import signal
    root = os.path.abspath(root)
    sys.path.insert(0, root)
    scratch = tempfile.mkdtemp(prefix="c06_worker_")
    os.makedirs(os.path.join(scratch, "outputs"))
    os.chdir(scratch)
    import tad
    import conditionalrewards
    assert os.path.abspath(tad.__file__).startswith(root), tad.__file__
    assert os.path.abspath(conditionalrewards.__file__).startswith(root)

    class Timeout(BaseException):
        pass

    def on_alarm(signum, frame):
        raise Timeout()

    signal.signal(signal.SIGALRM, on_alarm)

    def guarded(fn):
        signal.alarm(SOLVE_TIMEOUT)
        try:
            return ("ok", fn())
        except Timeout:
            return ("timeout",)
        except Exception as e:  # every exception is an observable outcome
            return ("err", type(e).__name__, isinstance(e, ValueError), str(e))
        finally:
            signal.alarm(0)

    with open(jobs_file, "rb") as f:
        jobs = pickle.load(f)
    out = {}
    for job_id, kind, payload in jobs:
        if kind == "solve":
            def run(payload=payload):
                result = tad.StochasticGame(**payload).solve()
                return (type(result) is tuple or isinstance(result, tuple), tuple(result))
            out[job_id] = guarded(run)
        elif kind == "batch":
            games, kwargs, report_name = payload

            def run(games=games, kwargs=kwargs, report_name=report_name):
                results = conditionalrewards.run_games(games, **kwargs)
                conditionalrewards.save_results_to_file(results, "inputs/%s.py" % report_name)
                with open("outputs/%s.txt" % report_name) as rf:
                    report = [line for line in rf.read().split("\n")
                              if not line.startswith("Total time")]
                for entry in results.values():
                    entry.pop("total_time")
                return (list(results.items()), report)
            out[job_id] = guarded(run)
    with open(out_file, "wb") as f:
        pickle.dump(out, f)


# --------------------------------------------------------------------------- games
def absorbing(i):
    return [(1, i)]


def random_probs(rng, k, style):
    if k == 1:
        return [1]
    if style == "dyadic":
        ws = [rng.choice([1, 1, 2, 3]) for _ in range(k)]
        tot = sum(ws)
        return [w / tot for w in ws]
    if style == "tiny":
        # the first weight belongs to the guaranteed forward edge: it is never tiny, so the
        # game does not only stop in theory (value iteration would need ~1e9 sweeps)
        ws = [rng.choice([1e-9, 1e-4, 1.0, 2.0]) for _ in range(k)]
        ws[0] = rng.choice([1.0, 2.0])
        tot = sum(ws)
        return [w / tot for w in ws]
    ws = [rng.random() + 0.01 for _ in range(k)]
    tot = sum(ws)
    return [w / tot for w in ws]


def random_game(rng, structural=False):
    """
    A well-formed stopping game: the last states are absorbing (zero reward, self-loop),
    player edges only go forward in a hidden order, probabilistic states always keep a
    forward edge with positive probability (back edges and self-loops allowed), so every
    play is absorbed with probability 1 whatever the players do.  The hidden order is
    then shuffled so that dead / final / initial states sit at arbitrary indices.
    """
    n_abs = rng.randint(1, 4)
    n_inner = rng.randint(0, 4 if structural else 9)
    n = n_inner + n_abs
    style = "dyadic" if structural else rng.choice(["dyadic", "dyadic", "tiny", "float"])
    players, trans, rewards = [], [], []
    for i in range(n_inner):
        player = rng.choice([P1, P2, PR, PR])
        players.append(player)
        rewards.append(rng.choice([0, 0, 1, 1, 2, 5, 2.5, 5 / 3]))
        forward = list(range(i + 1, n))
        if player == PR:
            k = rng.randint(1, 4)
            targets = [rng.choice(forward)]
            for _ in range(k - 1):
                # tiny probabilities only on forward edges: a tiny exit probability on a cycle
                # stops in theory but needs ~1e9 sweeps (in the clean tree as well)
                only_forward = style == "tiny" or rng.random() < 0.6
                targets.append(rng.choice(forward if only_forward else list(range(n))))
            probs = random_probs(rng, k, style)
            row = [(p, t) for p, t in zip(probs, targets)]
            rng.shuffle(row)
            trans.append(row)
        else:
            k = rng.randint(1, 3)
            names = rng.sample(["alfa", "beta", "gamma", "delta", " "], k)
            trans.append([(a, rng.choice(forward)) for a in names])
    for i in range(n_inner, n):
        players.append(PR)
        rewards.append(0)
        trans.append(absorbing(i))
    finals = [i for i in range(n_inner, n) if rng.random() < 0.5]
    if not finals:
        finals = [rng.randrange(n_inner, n)]     # final states are absorbing (the play stops)
    # shuffle the indices (sometimes keep 0 first so that the initial state is "early")
    perm = list(range(n))
    if rng.random() < 0.6:
        rng.shuffle(perm)
    elif n > 2:
        tail = perm[1:]
        rng.shuffle(tail)
        perm = [0] + tail
    new_players, new_trans, new_rewards = [None] * n, [None] * n, [None] * n
    for old in range(n):
        new = perm[old]
        new_players[new] = players[old]
        new_rewards[new] = rewards[old]
        new_trans[new] = [(x, perm[t]) for x, t in trans[old]]
    finals = sorted({perm[f] for f in finals})
    if rng.random() < 0.3:
        rng.shuffle(finals)
    return {"rewards": new_rewards, "players": new_players,
            "transition_list": new_trans, "final_states": finals}


def boundary_games():
    games = {}
    # one state, final and absorbing
    games["single_final"] = dict(rewards=[0], players=[PR], transition_list=[[(1, 0)]],
                                 final_states=[0])
    # initial state absorbing and not final: no solution
    games["initial_dead_sink"] = dict(rewards=[0, 0], players=[PR, PR],
                                      transition_list=[[(1, 0)], [(1, 1)]], final_states=[1])
    # initial state cannot reach the final state through a chain
    games["initial_chain_dead"] = dict(
        rewards=[1, 2, 0, 0], players=[P1, P2, PR, PR],
        transition_list=[[("a", 1)], [("b", 2)], [(1, 2)], [(1, 3)]], final_states=[3])
    # Player 2 forces the play away from the final state
    games["p2_forces_away"] = dict(
        rewards=[1, 0, 0], players=[P2, PR, PR],
        transition_list=[[("good", 1), ("bad", 2)], [(1, 1)], [(1, 2)]], final_states=[1])
    games["p2_forces_away_deep"] = dict(
        rewards=[0, 1, 3, 0, 0], players=[PR, P2, P1, PR, PR],
        transition_list=[[(0.5, 1), (0.5, 1)], [("x", 2), ("y", 4)], [("u", 3), ("v", 4)],
                         [(1, 3)], [(1, 4)]], final_states=[3])
    # two separated dead successors (used to abort with 'x not in list')
    games["two_separated_dead"] = dict(
        rewards=[1, 0, 0, 0, 0], players=[PR, PR, PR, PR, PR],
        transition_list=[[(0.25, 1), (0.25, 2), (0.25, 3), (0.25, 4)],
                         [(1, 1)], [(1, 2)], [(1, 3)], [(1, 4)]], final_states=[2, 4])
    # two adjacent dead successors on a rewarded self-loop (used to never terminate)
    games["two_adjacent_dead_selfloop"] = dict(
        rewards=[3, 0, 0, 0], players=[PR, PR, PR, PR],
        transition_list=[[(0.25, 1), (0.25, 2), (0.25, 0), (0.25, 3)],
                         [(1, 1)], [(1, 2)], [(1, 3)]], final_states=[3])
    games["same_dead_twice"] = dict(
        rewards=[3, 0, 0], players=[PR, PR, PR],
        transition_list=[[(0.2, 1), (0.2, 1), (0.3, 0), (0.3, 2)], [(1, 1)], [(1, 2)]],
        final_states=[2])
    # every successor of an inner probabilistic state is dead
    games["inner_all_dead"] = dict(
        rewards=[0, 4, 0, 0, 0], players=[P1, PR, PR, PR, PR],
        transition_list=[[("l", 1), ("r", 4)], [(0.5, 2), (0.5, 3)], [(1, 2)], [(1, 3)],
                         [(1, 4)]], final_states=[4])
    # tiny and near-1 probabilities
    games["tiny_prob"] = dict(
        rewards=[1, 0, 0], players=[PR, PR, PR],
        transition_list=[[(1e-12, 1), (1 - 1e-12, 2)], [(1, 1)], [(1, 2)]], final_states=[1])
    games["slow_selfloop"] = dict(
        rewards=[1, 0, 0], players=[PR, PR, PR],
        transition_list=[[(0.999, 0), (0.0005, 1), (0.0005, 2)], [(1, 1)], [(1, 2)]],
        final_states=[1])
    # ties everywhere
    games["ties"] = dict(
        rewards=[0, 1, 1, 1, 0, 0], players=[P1, P2, P2, PR, PR, PR],
        transition_list=[[("a", 1), ("b", 2), ("c", 3)], [("x", 4), ("y", 4)],
                         [("x", 4), ("y", 4)], [(0.5, 4), (0.5, 4)], [(1, 4)], [(1, 5)]],
        final_states=[4])
    # several finals, the first listed is not the smallest
    games["finals_unordered"] = dict(
        rewards=[2, 0, 0, 0], players=[PR, PR, PR, PR],
        transition_list=[[(0.5, 1), (0.25, 2), (0.25, 3)], [(1, 1)], [(1, 2)], [(1, 3)]],
        final_states=[3, 1])
    # the initial state is final itself
    games["initial_is_final"] = dict(
        rewards=[1, 0], players=[P1, PR],
        transition_list=[[("go", 1)], [(1, 1)]], final_states=[0])
    return games


def with_fresh_initial(game, k):
    """The same game with a new state 0 that moves to (old) state k with probability 1."""
    shifted = [[(x, t + 1) for x, t in row] for row in game["transition_list"]]
    return {"rewards": [0] + list(game["rewards"]),
            "players": [PR] + list(game["players"]),
            "transition_list": [[(1, k + 1)]] + shifted,
            "final_states": [f + 1 for f in game["final_states"]]}


# --------------------------------------------------------------------------- parent
def run_tree(root, jobs, tag):
    tmp = tempfile.mkdtemp(prefix="c06_%s_" % tag)
    jobs_file = os.path.join(tmp, "jobs.pkl")
    out_file = os.path.join(tmp, "out.pkl")
    with open(jobs_file, "wb") as f:
        pickle.dump(jobs, f)
    env = dict(os.environ)
    env.pop("PYTHONPATH", None)
    env["PYTHONDONTWRITEBYTECODE"] = "1"
    proc = subprocess.run([sys.executable, os.path.abspath(__file__), "--worker",
                           root, jobs_file, out_file], env=env,
                          stdout=subprocess.PIPE, stderr=subprocess.PIPE, text=True)
    if proc.returncode != 0:
        print("FAIL: worker for %s crashed\n%s" % (tag, proc.stderr[-3000:]))
        sys.exit(1)
    with open(out_file, "rb") as f:
        return pickle.load(f)


def close(a, b, tol=1e-3):
    return abs(a - b) <= tol * max(1.0, abs(a), abs(b))


def main():
    patched_root, clean_root = sys.argv[1], sys.argv[2]
    rng = random.Random(60606)
    games = dict(boundary_games())
    for i in range(600):
        games["rnd_%03d" % i] = random_game(rng)
    structural = dict(boundary_games())
    for name in ("tiny_prob", "slow_selfloop"):
        structural.pop(name)          # zero-ness of a reach value must be structural for B
    for i in range(150):
        structural["str_%03d" % i] = random_game(rng, structural=True)

    patched_jobs, clean_jobs = [], []
    # A. default configuration
    for name, game in games.items():
        for prune in (True, False):
            job = (("A", name, prune), "solve", dict(game, prune_states=prune))
            patched_jobs.append(job)
            clean_jobs.append(job)
    names = list(games)
    batches = [names[i:i + 25] for i in range(0, len(names), 25)]
    for b, chunk in enumerate(batches):
        job = (("Abatch", b), "batch", ({n: games[n] for n in chunk}, {}, "batch_%d" % b))
        patched_jobs.append(job)
        clean_jobs.append(job)
    # B. the new path
    for name, game in structural.items():
        n = len(game["players"])
        clean_jobs.append((("Bclean", name), "solve", dict(game, prune_states=False)))
        for k in range(n):
            for prune in (True, False):
                patched_jobs.append((("B", name, k, prune), "solve",
                                     dict(game, prune_states=prune, initial_state=k)))
            clean_jobs.append((("Bfresh", name, k), "solve",
                               dict(with_fresh_initial(game, k), prune_states=True)))
    bnames = list(structural)[:40]
    for k in (0, 1):
        chunk = {n: structural[n] for n in bnames if len(structural[n]["players"]) > k}
        patched_jobs.append((("Bbatch", k), "batch", (chunk, {"initial_state": k},
                                                      "bbatch_%d" % k)))

    patched = run_tree(patched_root, patched_jobs, "patched")
    clean = run_tree(clean_root, clean_jobs, "clean")

    failures = []

    def fail(msg):
        failures.append(msg)

    # ---- A
    n_ok = n_nosol = 0
    for name in games:
        for prune in (True, False):
            key = ("A", name, prune)
            p, c = patched[key], clean[key]
            if p[0] == "timeout":
                fail("%s: patched solver did not terminate" % (key,))
            if p != c:
                fail("%s: outcome differs\n   patched %r\n   clean   %r" % (key, p, c))
            if p[0] == "ok":
                n_ok += 1
            elif p[0] == "err" and p[3] == NO_SOLUTION:
                n_nosol += 1
            else:
                fail("%s: unexpected outcome %r" % (key, p))
    for b in range(len(batches)):
        p, c = patched[("Abatch", b)], clean[("Abatch", b)]
        if p[0] != "ok" or c[0] != "ok":
            fail("batch %d: %r / %r" % (b, p[:1], c[:1]))
            continue
        (p_results, p_report), (c_results, c_report) = p[1], c[1]
        for (pn, pe) in p_results:
            if pe.pop("initial_state", None) != 0:
                fail("batch %d/%s: default initial state is not 0" % (b, pn))
        if p_results != c_results:
            fail("batch %d: run_games results differ" % b)
        if p_report != c_report:
            fail("batch %d: report differs" % b)

    # ---- B
    n_b = n_b_nosol = 0
    for name, game in structural.items():
        n = len(game["players"])
        ref = clean[("Bclean", name)]
        if ref[0] != "ok":
            fail("%s: clean no-prune solve failed: %r" % (name, ref))
            continue
        ref_tuple = ref[1][1]
        ref_probs, ref_reach_strats = ref_tuple[3], ref_tuple[1]
        for k in range(n):
            off = patched[("B", name, k, False)]
            if off != ref:
                fail("%s k=%d no-prune: differs from clean\n   %r\n   %r" % (name, k, off, ref))
            on = patched[("B", name, k, True)]
            fresh = clean[("Bfresh", name, k)]
            n_b += 1
            if ref_probs[k] == 0:
                n_b_nosol += 1
                if not (on[0] == "err" and on[1] == "ValueError" and on[3] == NO_SOLUTION):
                    fail("%s k=%d: dead initial state but outcome %r" % (name, k, on))
                if not (fresh[0] == "err" and fresh[3] == NO_SOLUTION):
                    fail("%s k=%d: oracle disagrees on unsolvable: %r" % (name, k, fresh))
                continue
            if on[0] != "ok":
                fail("%s k=%d: live initial state but outcome %r" % (name, k, on))
                continue
            is_tuple, res = on[1]
            if not is_tuple or len(res) != 8:
                fail("%s k=%d: result is not an 8-tuple" % (name, k))
                continue
            final_s, reach_s, rewards, probs, it_reach, it_rew, prob_min_rew, rew_min_reach = res
            for label, lst in (("final", final_s), ("reach", reach_s), ("rewards", rewards),
                               ("probs", probs), ("pmr", prob_min_rew), ("rmr", rew_min_reach)):
                if len(lst) != n:
                    fail("%s k=%d: %s has length %d" % (name, k, label, len(lst)))
            if any(v is None for v in list(rewards) + list(probs)):
                fail("%s k=%d: incomplete values" % (name, k))
            if list(probs) != list(ref_probs) or reach_s != ref_reach_strats:
                fail("%s k=%d: reachability part depends on the initial state" % (name, k))
            if fresh[0] != "ok":
                fail("%s k=%d: oracle (fresh initial state) failed: %r" % (name, k, fresh))
                continue
            f_res = fresh[1][1]
            for label, idx in (("rewards", 2), ("rew_min_reach", 7), ("prob_min_rew", 6)):
                mine, theirs = res[idx], f_res[idx][1:]
                if not all(close(a, b) for a, b in zip(mine, theirs)):
                    fail("%s k=%d: %s differ from the oracle\n   %r\n   %r"
                         % (name, k, label, mine, theirs))
    for k in (0, 1):
        out = patched[("Bbatch", k)]
        if out[0] != "ok":
            fail("Bbatch %d: %r" % (k, out))
            continue
        for rname, entry in out[1][0]:
            base = rname[:-len("_no_prune")] if rname.endswith("_no_prune") else rname
            prune = not rname.endswith("_no_prune")
            direct = patched[("B", base, k, prune)]
            if entry["initial_state"] != k:
                fail("Bbatch %d/%s: initial_state entry %r" % (k, rname, entry["initial_state"]))
            if not prune and patched[("B", base, k, True)][0] != "ok":
                if entry["msg"] != "Game not solved":
                    fail("Bbatch %d/%s: msg %r" % (k, rname, entry["msg"]))
            elif direct[0] == "ok":
                if entry["msg"] != "Game solved" or entry["rewards"] != direct[1][1][2]:
                    fail("Bbatch %d/%s: driver disagrees with solve()" % (k, rname))
            elif prune:
                if entry["msg"] != "Error while solving the game: " + NO_SOLUTION:
                    fail("Bbatch %d/%s: msg %r" % (k, rname, entry["msg"]))

    print("A: %d solves compared (%d solved, %d 'no solution'), %d batches; "
          "B: %d (game, initial state) pairs, %d unsolvable"
          % (2 * len(games), n_ok, n_nosol, len(batches), n_b, n_b_nosol))
    if n_nosol < 20 or n_b_nosol < 20:
        fail("the inputs do not exercise the 'no solution' branch enough")
    if failures:
        print("FAIL")
        for msg in failures[:25]:
            print(" -", msg)
        sys.exit(1)
    print("PASS")


if __name__ == "__main__":
    if len(sys.argv) >= 2 and sys.argv[1] == "--worker":
        worker(sys.argv[2], sys.argv[3], sys.argv[4])
    elif len(sys.argv) == 3:
        main()
    else:
        print(__doc__)
        sys.exit(2)
