#!/usr/bin/env python
"""Behavioural equivalence check for property C01 (reachability probabilities).

usage: python equiv_test.py <path-to-patched-root> <path-to-clean-root>

Both trees are loaded in separate subprocesses (this file re-executes itself in
worker mode with the tree as sys.path[0] and as working directory).  Each worker
runs the same deterministic list of cases and writes one record per case:
repr() of the result, or the exception type and message.  The parent compares
the two record lists; prints PASS and exits 0 when nothing differs, FAIL
otherwise.

Every solve has a deterministic budget: the node methods value_iteration_reach /
value_iteration_rewards are wrapped with a call counter and a private exception
is raised after BUDGET calls (the clean tree does not converge on some
non-stopping games).  A wall-clock alarm is a second safety net.
"""
import json
import os
import subprocess
import sys

BUDGET = 60000          # Bellman steps per case
WALL_SECONDS = 20       # safety net per case


# --------------------------------------------------------------------------- #
#                                   worker                                    #
# --------------------------------------------------------------------------- #

def worker(root, out_path):
    import copy
    import io
    import logging
    import random
    import signal
    import tempfile
    import hashlib
    import time

    sys.path.insert(0, root)
    os.chdir(root)
    import tad
    import reverse_dfs as rdfs
    import conditionalrewards as cr

    P1, P2, PR = tad.PLAYER_1, tad.PLAYER_2, tad.PROBABILISTIC

    class Budget(Exception):
        pass

    class WallClock(Exception):
        pass

    counter = {"n": 0, "limit": BUDGET}

    def counted(fn):
        def wrapper(self, *a, **k):
            counter["n"] += 1
            if counter["n"] > counter["limit"]:
                raise Budget("budget exceeded")
            return fn(self, *a, **k)
        wrapper.__name__ = fn.__name__
        return wrapper

    for cls in (tad.PlayerOne, tad.PlayerTwo, tad.ProbabilisticNode):
        for name in ("value_iteration_reach", "value_iteration_rewards"):
            # the method may live on the class or be inherited: wrap what getattr finds
            setattr(cls, name, counted(getattr(cls, name)))

    def on_alarm(signum, frame):
        raise WallClock("wall clock")
    signal.signal(signal.SIGALRM, on_alarm)

    records = []

    def run(case_id, fn, budget=BUDGET):
        counter["n"] = 0
        counter["limit"] = budget
        signal.alarm(WALL_SECONDS)
        t0 = time.time()
        try:
            res = fn()
            rec = "OK " + repr(res)
        except Budget:
            rec = "BUDGET calls=%d" % counter["n"]
        except WallClock:
            rec = "WALLCLOCK"
        except BaseException as e:      # noqa - we want everything
            rec = "EXC %s: %s" % (type(e).__name__, e)
        finally:
            signal.alarm(0)
        if os.environ.get("EQUIV_PROFILE"):
            grp = "/".join(case_id.split("/")[:2]) if case_id.startswith(("hand", "shipped")) else case_id.split("/")[0]
            prof = counter.setdefault("prof", {})
            ent = prof.setdefault(grp, [0, 0.0, 0])
            ent[0] += 1
            ent[1] += time.time() - t0
            ent[2] += rec.startswith("BUDGET")
        records.append([case_id, rec + " #calls=%d" % counter["n"]])

    # ------------------------------ log capture ---------------------------- #
    class Collect(logging.Handler):
        def __init__(self):
            super().__init__(level=logging.DEBUG)
            self.h = hashlib.sha256()
            self.n = 0

        def emit(self, record):
            if record.getMessage().startswith("Total time"):
                return              # wall-clock value
            self.h.update(("%s|%s\n" % (record.levelname, record.getMessage())).encode())
            self.n += 1

    def with_logs(fn):
        """run fn with the root logger at DEBUG, return (result, n_log_records, digest)"""
        def inner():
            root_logger = logging.getLogger()
            old = root_logger.level
            h = Collect()
            root_logger.addHandler(h)
            root_logger.setLevel(logging.DEBUG)
            try:
                try:
                    res = fn()
                except Budget:
                    raise
                except WallClock:
                    raise
                except Exception as e:
                    res = "EXC %s: %s" % (type(e).__name__, e)
            finally:
                root_logger.removeHandler(h)
                root_logger.setLevel(old)
            return res, h.n, h.h.hexdigest()
        return inner

    # quiet by default (logging.error of run_games would go to stderr)
    logging.getLogger().addHandler(logging.NullHandler())
    logging.getLogger().setLevel(logging.CRITICAL + 1)

    # ------------------------------ generators ----------------------------- #
    def rand_probs(rng, k, style):
        if k == 1:
            return [rng.choice([1, 1.0])]
        if style == 0:      # dyadic: exact arithmetic, many ties
            denom = 2 ** rng.randint(1, 4)
            cuts = sorted(rng.randint(1, denom - 1) for _ in range(k - 1))
            parts = [b - a for a, b in zip([0] + cuts, cuts + [denom])]
            parts = [p if p > 0 else 0 for p in parts]
            if 0 in parts:
                parts = [1] * k
                denom = k
            return [p / denom for p in parts]
        if style == 1:      # general floats
            w = [rng.random() + 0.01 for _ in range(k)]
            s = sum(w)
            return [x / s for x in w]
        if style == 2:      # tiny / near one
            eps = rng.choice([1e-9, 1e-6, 1e-3, 0.01])
            rest = [(1 - eps) / (k - 1)] * (k - 1)
            return [eps] + rest
        # uniform
        return [1 / k] * k

    def rand_game(rng, n, shape):
        """a well-formed game description (dict of constructor arguments)"""
        players = []
        mix = rng.choice(["all", "all", "all", "prob", "p1prob", "p2prob", "players"])
        for _ in range(n):
            if mix == "all":
                players.append(rng.choice([P1, P2, PR, PR]))
            elif mix == "prob":
                players.append(PR)
            elif mix == "p1prob":
                players.append(rng.choice([P1, PR]))
            elif mix == "p2prob":
                players.append(rng.choice([P2, PR]))
            else:
                players.append(rng.choice([P1, P2]))
        n_final = rng.choice([1, 1, 1, 2, 3]) if n > 3 else 1
        finals = rng.sample(range(n), min(n_final, n))
        if shape == "finals_last":
            finals = list(range(n - len(finals), n))
        n_dead = rng.choice([0, 0, 1, 2]) if n > 4 else rng.choice([0, 1])
        dead = [s for s in rng.sample(range(n), min(n_dead, n)) if s not in finals and s != 0]
        absorbing_finals = rng.random() < 0.6
        style = rng.randint(0, 3)
        transitions = []
        for s in range(n):
            if s in dead or (s in finals and absorbing_finals):
                targets = [s]
            else:
                k = rng.choice([1, 2, 2, 2, 3, 4])
                if shape == "acyclic":
                    pool = list(range(s + 1, n)) or [s]
                elif shape == "chain":
                    pool = [min(s + 1, n - 1), max(s - 1, 0), s]
                elif shape == "local":
                    pool = list(range(max(0, s - 3), min(n, s + 4)))
                else:
                    pool = list(range(n))
                if rng.random() < 0.3:
                    targets = [rng.choice(pool) for _ in range(k)]       # duplicates allowed
                else:
                    targets = rng.sample(pool, min(k, len(pool)))
            if players[s] == PR:
                probs = rand_probs(rng, len(targets), style)
                transitions.append([(p, t) for p, t in zip(probs, targets)])
            else:
                transitions.append([("a%d" % i, t) for i, t in enumerate(targets)])
        rewards = [rng.choice([0, 0, 1, 2, 5, 0.5]) for _ in range(n)]
        if rng.random() < 0.35:
            rewards = [0] * n
        elif rng.random() < 0.85:
            # absorbing states without reward: most total-reward iterations then converge
            rewards = [0 if all(t == s for _, t in transitions[s]) else r
                       for s, r in enumerate(rewards)]
        return dict(rewards=rewards, players=players, transition_list=transitions,
                    final_states=finals)

    def solve_case(desc, prune):
        def f():
            g = tad.StochasticGame(prune_states=prune, **copy.deepcopy(desc))
            res = g.solve()
            return type(res).__name__, tuple(res), g.transition_list == desc["transition_list"]
        return f

    def reach_case(desc, prune, threshold):
        """Solver.solve_reachability directly, with a chosen threshold"""
        def f():
            d = copy.deepcopy(desc)
            g = tad.StochasticGame(prune_states=prune, **d)
            g.check_game()
            states = g.init_states()
            solver = tad.Solver(threshold=threshold, state_list=states) \
                if threshold is not None else tad.Solver(states)
            try:
                res = solver.solve_reachability(d["transition_list"], d["final_states"], prune)
            except ValueError as e:
                res = "ValueError: %s" % e
            return (res,
                    [s.reach_probability for s in states],
                    [s.expected_reach_min_rewards for s in states],
                    [s.next_states for s in states])
        return f

    # ------------------------------ 1. random games ------------------------ #
    rng = random.Random(20260104)
    shapes = ["any", "any", "acyclic", "chain", "local", "finals_last"]
    games = []
    for i in range(330):
        n = rng.choice([3, 3, 4, 5, 6, 8, 10, 12, 16, 24, 40])
        games.append(("rg%03d" % i, rand_game(rng, n, rng.choice(shapes))))
    for i in range(6):
        games.append(("big%d" % i, rand_game(rng, rng.choice([300, 600, 1200]),
                                             rng.choice(["local", "chain", "acyclic"]))))
    # renumbered copies: same game, states permuted
    for i in range(25):
        name, desc = games[i * 7]
        n = len(desc["players"])
        perm = list(range(n))
        rng.shuffle(perm)
        inv = [0] * n
        for old, new in enumerate(perm):
            inv[new] = old
        games.append((name + "_perm", dict(
            rewards=[desc["rewards"][inv[s]] for s in range(n)],
            players=[desc["players"][inv[s]] for s in range(n)],
            transition_list=[[(x, perm[t]) for x, t in desc["transition_list"][inv[s]]]
                             for s in range(n)],
            final_states=[perm[f] for f in desc["final_states"]])))

    diverging = set()
    for name, desc in games:
        small = len(desc["players"]) <= 8
        for prune in (True, False):
            fn = solve_case(desc, prune)
            if small and name.endswith(("0", "5")):
                fn = with_logs(fn)
            run("solve/%s/%s" % (name, prune), fn, budget=3000 + 150 * len(desc["players"]))
            if records[-1][1].startswith("BUDGET"):
                diverging.add(name)
    thresholds = [None, 1e-6, 1e-3, 1e-9, 0.3, 1, 2.5, 1e-12, 1e-4]
    for idx, (name, desc) in enumerate(games):
        th = thresholds[idx % len(thresholds)]
        prune = bool(idx % 2)
        fn = reach_case(desc, prune, th)
        if idx % 10 == 3 and len(desc["players"]) <= 12:
            fn = with_logs(fn)
        run("reach/%s/%s/%s" % (name, prune, th), fn, budget=40000)

    # ------------------------------ 2. hand made games --------------------- #
    hand = {
        "three": dict(rewards=[1, 1, 0], players=[P1, PR, PR],
                      transition_list=[[("a", 1), ("b", 2)], [(0.5, 0), (0.5, 2)], [(1, 2)]],
                      final_states=[2]),
        "prob_cycle": dict(rewards=[1, 1, 0, 0], players=[PR, PR, PR, PR],
                           transition_list=[[(0.5, 1), (0.5, 3)], [(0.9, 0), (0.1, 2)],
                                            [(1, 2)], [(1, 3)]], final_states=[2]),
        "p1_end_component": dict(rewards=[0, 0, 0, 0], players=[P1, P1, PR, PR],
                                 transition_list=[[("a", 1), ("b", 2)], [("a", 0)],
                                                  [(0.5, 3), (0.5, 2)], [(1, 3)]],
                                 final_states=[3]),
        "p2_end_component": dict(rewards=[0, 0, 0, 0], players=[P2, P2, PR, PR],
                                 transition_list=[[("a", 1), ("b", 2)], [("a", 0)],
                                                  [(0.5, 3), (0.5, 2)], [(1, 3)]],
                                 final_states=[3]),
        "p2_can_avoid": dict(rewards=[1, 1, 1, 1], players=[P2, PR, PR, PR],
                             transition_list=[[("a", 1), ("b", 2)], [(1, 3)], [(1, 2)], [(1, 3)]],
                             final_states=[3]),
        "start_is_final": dict(rewards=[1, 1, 1], players=[P1, PR, PR],
                               transition_list=[[("a", 1)], [(1, 2)], [(1, 2)]],
                               final_states=[0]),
        "nonabsorbing_final": dict(rewards=[1, 1, 1], players=[PR, PR, PR],
                                   transition_list=[[(0.5, 1), (0.5, 2)], [(1, 0)], [(1, 2)]],
                                   final_states=[1]),
        "all_final": dict(rewards=[1, 1, 1], players=[P1, P2, PR],
                          transition_list=[[("a", 1)], [("a", 2)], [(1, 0)]],
                          final_states=[0, 1, 2]),
        "dup_finals": dict(rewards=[1, 1, 1], players=[P1, P2, PR],
                           transition_list=[[("a", 1)], [("a", 2)], [(1, 2)]],
                           final_states=[2, 2, 2]),
        "tuple_finals": dict(rewards=[1, 1, 1], players=[P1, P2, PR],
                             transition_list=[[("a", 1)], [("a", 2)], [(1, 2)]],
                             final_states=(2,)),
        "bool_float_finals": dict(rewards=[1, 1, 1], players=[P1, P2, PR],
                                  transition_list=[[("a", 1)], [("a", 2)], [(1, 2)]],
                                  final_states=[True, 2.0]),
        "ties_int_float": dict(rewards=[1, 1, 1, 1, 1], players=[P1, P2, PR, PR, PR],
                               transition_list=[[("a", 2), ("b", 3), ("c", 4)],
                                                [("a", 2), ("b", 3), ("c", 4)],
                                                [(1.0, 4)], [(1, 4)], [(1, 4)]],
                               final_states=[4]),
        "unreachable_start": dict(rewards=[1, 1, 1], players=[PR, PR, PR],
                                  transition_list=[[(1, 0)], [(1, 2)], [(1, 2)]],
                                  final_states=[2]),
        "slow_cycle": dict(rewards=[0, 0, 0, 0], players=[PR, PR, PR, PR],
                           transition_list=[[(0.999, 1), (0.001, 2)], [(0.999, 0), (0.001, 3)],
                                            [(1, 2)], [(1, 3)]], final_states=[2]),
        "prob_not_normalised": dict(rewards=[0, 0, 0], players=[PR, PR, PR],
                                    transition_list=[[(0.7, 1), (0.7, 2)], [(1.5, 0), (0.2, 2)],
                                                     [(1, 2)]], final_states=[2]),
        "bool_prob_and_target": dict(rewards=[0, 0, 0], players=[PR, PR, PR],
                                     transition_list=[[(True, True)], [(0.5, 2), (0.5, 0)],
                                                      [(1, 2)]], final_states=[2]),
    }
    for name, desc in list(hand.items()):
        # absorbing states without reward (total rewards converge); one rewarded copy is kept
        if name == "three":
            hand["three_rewarded_sink"] = copy.deepcopy(desc)
            hand["three_rewarded_sink"]["rewards"] = [1, 1, 2]
        desc["rewards"] = [0 if all(t == s for _, t in desc["transition_list"][s]) else r
                           for s, r in enumerate(desc["rewards"])]
    for name, desc in hand.items():
        for prune in (True, False):
            run("hand/solve/%s/%s" % (name, prune), with_logs(solve_case(desc, prune)), budget=4000)
            for th in (None, 1e-3, 1e-9, 1, 0, -1, float('nan'), float('inf')):
                run("hand/reach/%s/%s/%s" % (name, prune, th), reach_case(desc, prune, th),
                    budget=40000)

    # ------------------------------ 3. malformed games --------------------- #
    base = hand["three"]

    def mutated(**kw):
        d = copy.deepcopy(base)
        d.update(kw)
        return d
    malformed = {
        "no_finals": mutated(final_states=[]),
        "final_out_of_range": mutated(final_states=[3]),
        "final_negative": mutated(final_states=[-1]),
        "final_str": mutated(final_states=["2"]),
        "final_float": mutated(final_states=[1.5]),
        "final_none": mutated(final_states=None),
        "final_nested": mutated(final_states=[[2]]),
        "short_rewards": mutated(rewards=[1, 1]),
        "neg_reward": mutated(rewards=[1, -1, 0]),
        "short_transitions": mutated(transition_list=base["transition_list"][:2]),
        "empty_transitions": mutated(transition_list=[[("a", 1)], [], [(1, 2)]]),
        "tuple_transitions": mutated(transition_list=[(("a", 1),), [(1, 2)], [(1, 2)]]),
        "list_edge": mutated(transition_list=[[["a", 1]], [(1, 2)], [(1, 2)]]),
        "triple_edge": mutated(transition_list=[[("a", 1, 2)], [(1, 2)], [(1, 2)]]),
        "action_not_str": mutated(transition_list=[[(1, 1)], [(1, 2)], [(1, 2)]]),
        "prob_str": mutated(transition_list=[[("a", 1)], [("x", 2)], [(1, 2)]]),
        "target_float": mutated(transition_list=[[("a", 1.0)], [(1, 2)], [(1, 2)]]),
        "target_oob": mutated(transition_list=[[("a", 3)], [(1, 2)], [(1, 2)]]),
        "target_neg": mutated(transition_list=[[("a", -1)], [(1, 2)], [(1, 2)]]),
        "unknown_player": mutated(players=[P1, "Nobody", PR]),
        "short_players": mutated(players=[P1, PR]),
        "empty_game": dict(rewards=[], players=[], transition_list=[], final_states=[0]),
        "transitions_none": mutated(transition_list=[None, [(1, 2)], [(1, 2)]]),
    }
    for name, desc in malformed.items():
        for prune in (True, False):
            run("bad/solve/%s/%s" % (name, prune), solve_case(desc, prune))

    # ------------------------------ 4. node level Bellman steps ------------ #
    rng = random.Random(77)
    pool_values = [0, 0.0, 1, 1.0, 0.5, 0.25, 0.75, 1e-9, 1 - 1e-9, 0.3333333333333333,
                   True, False, -0.0, 1e-300, 0.1, 0.2, 0.30000000000000004]
    for i in range(250):
        n = rng.choice([3, 4, 6, 9])
        desc = rand_game(rng, n, "any")

        def f(desc=desc, seed=rng.randint(0, 10 ** 9)):
            r = random.Random(seed)
            g = tad.StochasticGame(**copy.deepcopy(desc))
            states = g.init_states()
            init = [(s.reach_probability, s.expected_reach_min_rewards, s.is_final_node)
                    for s in states]
            for s in states:
                s.reach_probability = r.choice(pool_values)
            steps = [s.value_iteration_reach(states) for s in states]
            strat = tad.Solver(states)._get_reachability_strategies()
            return init, steps, strat
        run("node/%03d" % i, f)

    def empty_successors():
        out = []
        for cls, player in ((tad.PlayerOne, P1), (tad.PlayerTwo, P2), (tad.ProbabilisticNode, PR)):
            node = cls(player=player, idx=0, reward=1, next_states=[], num_states=1,
                       is_final_node=False)
            out.append(node.value_iteration_reach([node]))
            for flag in (True, False, 1, 0, None, "x", []):
                out.append(cls(player=player, idx=0, reward=1, next_states=[], num_states=1,
                               is_final_node=flag).reach_probability)
        return out
    run("node/empty", empty_successors)

    # direct value_iteration_reachability calls (subset lists, odd arguments)
    for i, (name, desc) in enumerate(games[:60]):
        def f(desc=desc, i=i):
            g = tad.StochasticGame(**copy.deepcopy(desc))
            states = g.init_states()
            n = len(states)
            subset = [s for s in range(n) if (s * 7 + i) % 3]        # not the reverse_dfs set
            if i % 4 == 0:
                subset = list(reversed(subset))
            if i % 5 == 0:
                subset = tuple(subset)
            solver = tad.Solver(states, threshold=[1e-6, 1e-2, 1, 1e-9][i % 4])
            try:
                it = solver.value_iteration_reachability(subset, bool(i % 2))
            except ValueError as e:
                it = "ValueError: %s" % e
            return it, [s.reach_probability for s in states], \
                [s.expected_reach_min_rewards for s in states]
        run("vi_direct/%s" % name, with_logs(f) if i % 6 == 0 else f, budget=40000)

    def vi_bad_index():
        g = tad.StochasticGame(**copy.deepcopy(hand["three"]))
        states = g.init_states()
        out = []
        for th in (1e-6, 5):
            try:
                out.append(tad.Solver(states, threshold=th).value_iteration_reachability([7], False))
            except Exception as e:
                out.append("%s: %s" % (type(e).__name__, e))
        for th in (1e-6, 5):
            for prune in (True, False):
                try:
                    out.append(tad.Solver([], threshold=th).value_iteration_reachability([], prune))
                except Exception as e:
                    out.append("%s: %s" % (type(e).__name__, e))
        return out
    run("vi_direct/bad_index", vi_bad_index)

    # ------------------------------ 5. reverse_dfs module ------------------ #
    rng = random.Random(4242)
    for i, (name, desc) in enumerate(games):
        tl = desc["transition_list"]
        finals = desc["final_states"]

        def f(tl=tl, finals=finals):
            tl_copy = copy.deepcopy(tl)
            res = rdfs.reverse_dfs(tl_copy, finals)
            core = rdfs.reverse_transition_list_core(tl_copy)
            rev = rdfs.reverse_transition_list(tl_copy)
            as_dict = rdfs.list_of_tuples_to_dict_of_lists(core)
            return (type(res).__name__, res, tl_copy == tl,
                    hashlib.sha256(repr((type(core).__name__, core, type(rev).__name__, rev,
                                         as_dict)).encode()).hexdigest())
        run("rdfs/%s" % name, f)

    def rdfs_from_cases():
        out = []
        tl = hand["prob_cycle"]["transition_list"]
        rev = rdfs.reverse_transition_list(tl)
        for start in (0, 1, 2, 3, True, 2.0):
            for pre in (set(), {0}, {2}, {1, 3}):
                visited = set(pre)
                r = rdfs.reverse_dfs_from(start, rev, visited)
                out.append((start, sorted(pre), r, sorted(visited)))
        return out
    run("rdfs/from", rdfs_from_cases)

    def rdfs_from_errors():
        out = []
        tl = hand["prob_cycle"]["transition_list"]
        rev = rdfs.reverse_transition_list(tl)
        for start in (9, -1, "x", None, 1.5, [1], {}):
            visited = set()
            try:
                r = rdfs.reverse_dfs_from(start, rev, visited)
                out.append(("ok", r, sorted(visited, key=repr)))
            except Exception as e:
                out.append((type(e).__name__, str(e), sorted(visited, key=repr)))
        return out
    run("rdfs/from_errors", rdfs_from_errors)

    def rdfs_helpers():
        out = []
        d = {5: [1], 1: [0]}
        r = rdfs.add_missing_states(d, 4)
        out.append((r is d, r, list(r)))
        out.append(rdfs.add_missing_states({}, 0))
        out.append(rdfs.add_missing_states({}, 3))
        out.append(rdfs.add_missing_states({"a": [1]}, 2))
        out.append(rdfs.list_of_tuples_to_dict_of_lists([]))
        out.append(rdfs.list_of_tuples_to_dict_of_lists([(1, 99), (1, 98), (2, 97), (1, 90)]))
        out.append(rdfs.list_of_tuples_to_dict_of_lists([(3, 1, "extra"), [3, 2], "ab"]))
        out.append(rdfs.list_of_tuples_to_dict_of_lists(iter([(1, 2), (1, 2)])))
        out.append(rdfs.reverse_transition_list_core([]))
        out.append(rdfs.reverse_transition_list_core([[], [("a", 0)], []]))
        out.append(rdfs.reverse_transition_list_core([[("a", 7)], [("a", "z")]]))
        out.append(rdfs.reverse_transition_list([]))
        out.append(rdfs.reverse_transition_list([[("a", 7)], [("a", 0), ("b", 0)]]))
        out.append(rdfs.reverse_dfs([[("a", 1)], [("a", 1)]], []))
        out.append(rdfs.reverse_dfs([[("a", 1)], [("a", 1)]], (1,)))
        out.append(rdfs.reverse_dfs([[("a", 1)], [("a", 1)]], {1}))
        out.append(rdfs.reverse_dfs([[("a", 1)], [("a", 1)]], [1, 1, 0]))
        out.append(rdfs.reverse_dfs([[("a", 1)], [("a", 1)], [("a", 0)]], [True]))
        out.append(rdfs.reverse_dfs([[("a", 1)], [("a", 1)], [("a", 0)]], [1.0]))
        out.append(rdfs.reverse_dfs([[("a", 5)], [("a", 0)], [("a", 1)]], [5]))
        out.append(rdfs.reverse_dfs([[("a", "z")], [("a", 0)], [("a", 1)]], ["z"]))
        return out
    run("rdfs/helpers", rdfs_helpers)

    bad_rdfs = {
        "final_oob": ([[("a", 1)], [("a", 1)]], [4]),
        "two_finals_oob": ([[("a", 1)], [("a", 1)]], [4, 5]),
        "good_then_oob": ([[("a", 1)], [("a", 1)]], [1, 7, 8]),
        "final_unhashable": ([[("a", 1)], [("a", 1)]], [[1]]),
        "good_then_unhashable": ([[("a", 1)], [("a", 1)]], [1, [1], 9]),
        "oob_then_unhashable": ([[("a", 1)], [("a", 1)]], [9, [1]]),
        "finals_none": ([[("a", 1)], [("a", 1)]], None),
        "finals_int": ([[("a", 1)], [("a", 1)]], 1),
        "edge_triple": ([[("a", 1, 2)], [("a", 1)]], [1]),
        "edge_int": ([[3], [("a", 1)]], [1]),
        "edge_single": ([[("a",)], [("a", 1)]], [1]),
        "row_none": ([None, [("a", 1)]], [1]),
        "row_int": ([[("a", 1)], 5], [1]),
        "tl_none": (None, [1]),
        "tl_int": (7, [1]),
        "target_unhashable": ([[("a", [1])], [("a", 1)]], [1]),
        "target_unhashable_and_bad_final": ([[("a", [1])], [("a", 1)]], [[2]]),
        "edge_str2": ([["ab"], [("a", 1)]], [1]),
        "tuple_pairs_bad": ([[("a", 1)], [("a", 1)]], [1]),
    }
    for name, (tl, finals) in bad_rdfs.items():
        run("rdfs/bad/%s" % name, lambda tl=tl, finals=finals: rdfs.reverse_dfs(tl, finals))
    for name, arg in {"empty_tuple": [()], "unhashable_key": [([1], 2)], "one": [(1,)],
                      "int": [5], "none": None, "second_missing_after_first": [(1, 2), (3,)]}.items():
        run("rdfs/bad_tuples/%s" % name,
            lambda arg=arg: rdfs.list_of_tuples_to_dict_of_lists(arg))
    for name, (d, n) in {"none_dict": (None, 2), "n_none": ({}, None), "n_neg": ({}, -2),
                         "n_float": ({}, 2.0), "none_dict_zero": (None, 0),
                         "none_dict_neg": (None, -1), "list_as_dict": ([7, 8], 2),
                         "list_as_dict_short": ([1], 3), "list_as_dict_shift": ([1, 5], 2), "complete": ({0: [1], 1: []}, 2),
                         "bool_n": ({}, True)}.items():
        run("rdfs/bad_missing/%s" % name, lambda d=d, n=n: rdfs.add_missing_states(d, n))

    # ------------------------------ 6. driver ------------------------------ #
    def strip_time(results):
        out = {}
        for k, v in results.items():
            v = dict(v)
            t = v.pop("total_time")
            out[k] = (list(v.items()), type(t).__name__)
        return list(out.items())

    batches = []
    converging = [(name, desc) for name, desc in games[:330] if name not in diverging]
    for b in range(14):
        batch = {}
        for j in range(3):
            name, desc = converging[(b * 9 + j * 4) % len(converging)]
            batch["g_%s" % name] = copy.deepcopy(desc)
        batches.append(batch)
    batches.append({k: copy.deepcopy(v) for k, v in hand.items()})
    batches.append({k: copy.deepcopy(v) for k, v in list(malformed.items())[:14]
                    if k not in ("short_players",)})
    batches.append({})
    for b, batch in enumerate(batches):
        def f(batch=batch):
            arg = copy.deepcopy(batch)
            res = cr.run_games(arg)
            tmp = tempfile.mkdtemp(prefix="equiv_c01_")
            cwd = os.getcwd()
            os.chdir(tmp)
            try:
                os.mkdir("outputs")
                cr.save_results_to_file(res, "some/dir/batch%d.py" % b)
                with open(os.path.join("outputs", "batch%d.txt" % b)) as fh:
                    text = "".join(line for line in fh if not line.startswith("Total time"))
                listing = sorted(os.listdir("outputs"))
            finally:
                os.chdir(cwd)
                import shutil
                shutil.rmtree(tmp, ignore_errors=True)
            return strip_time(res), sorted(arg) == sorted(batch), listing, text
        run("driver/batch%d" % b, with_logs(f) if b % 3 == 0 else f, budget=30000)

    # shipped input files (small ones completely, the first game of bigger boards)
    shipped = ["example_17_08.py", "example_games.py", "paper_games.py", "manual_1_game_a.py",
               "manual_arrow_bottom.py", "robot_1_w1_l2_r6_rb10_lb5_tb10_lt0.py",
               "robot_1_w2_l1_r6_rb10_lb5_tb10_lt0.py", "robot_1_w2_l2_r6_rb10_lb5_tb10_lt0.py",
               "robot_999132423_w3_l3_r6_rb1_lb2_tb10_lt30.py",
               "robot_999132423_w3_l3_r6_rb1_lb2_tb10_lt30_force_down.py",
               "robot_manual_0_w4_l4_r6_rb10_lb5_tb10_lt30.py",
               "robot_47_w5_l5_r6_rb10_lb10_tb10_lt30.py",
               "robot_47_w10_l5_r6_rb10_lb10_tb10_lt30_force_down.py",
               "robot_47_w20_l10_r6_rb10_lb10_tb10_lt30.py",
               "robot_47_w40_l10_r6_rb10_lb10_tb10_lt30.py"]
    for fname in shipped:
        path = os.path.join(root, "inputs", fname)
        if not os.path.exists(path):
            records.append(["shipped/%s" % fname, "MISSING"])
            continue
        try:
            d = cr.read_dict_from_file(path)
        except Exception as e:
            records.append(["shipped/%s" % fname, "READ %s" % type(e).__name__])
            continue
        for gname, desc in d.items():
            desc = {k: v for k, v in desc.items() if k != "prune_states"}
            for prune in (True, False):
                # reachability is the property under study: always completes
                if "_w40_" in fname and prune:
                    continue
                run("shipped/reach/%s/%s/%s" % (fname, gname, prune),
                    reach_case(desc, prune, None), budget=2500000)
                if len(desc["players"]) <= 600:
                    run("shipped/solve/%s/%s/%s" % (fname, gname, prune),
                        solve_case(desc, prune), budget=40000)

    if os.environ.get("EQUIV_PROFILE"):
        for grp, (n, t, b) in counter.get("prof", {}).items():
            sys.stderr.write("%-16s cases=%4d budget=%4d  %.1fs\n" % (grp, n, b, t))
    with open(out_path, "w") as fh:
        json.dump(records, fh)


# --------------------------------------------------------------------------- #
#                                   parent                                    #
# --------------------------------------------------------------------------- #

def main():
    if len(sys.argv) == 4 and sys.argv[1] == "--worker":
        worker(os.path.abspath(sys.argv[2]), sys.argv[3])
        return 0
    if len(sys.argv) != 3:
        print(__doc__)
        return 2
    import tempfile
    roots = [os.path.abspath(p) for p in sys.argv[1:3]]
    outs = []
    procs = []
    for root in roots:
        fd, out = tempfile.mkstemp(prefix="equiv_c01_", suffix=".json")
        os.close(fd)
        outs.append(out)
        env = dict(os.environ, PYTHONDONTWRITEBYTECODE="1", PYTHONHASHSEED="0")
        procs.append(subprocess.Popen(
            [sys.executable, "-B", os.path.abspath(__file__), "--worker", root, out],
            env=env, cwd=root))
    codes = [p.wait() for p in procs]
    results = []
    for out in outs:
        try:
            with open(out) as fh:
                results.append(json.load(fh))
        except Exception:
            results.append(None)
        finally:
            try:
                os.unlink(out)
            except OSError:
                pass
    if any(codes) or any(r is None for r in results):
        print("FAIL: worker crashed (exit codes %s)" % codes)
        return 1
    patched, clean = results
    problems = []
    if [c for c, _ in patched] != [c for c, _ in clean]:
        problems.append("case lists differ")
    for (cid, a), (_, b) in zip(patched, clean):
        if a != b:
            problems.append("%s\n   patched: %s\n   clean  : %s" % (cid, a[:600], b[:600]))
    budget = sum(1 for _, r in clean if r.startswith("BUDGET"))
    wall = sum(1 for _, r in clean + patched if r.startswith("WALLCLOCK"))
    exc = sum(1 for _, r in clean if r.startswith("EXC"))
    print("%d cases compared (%d raised, %d hit the step budget, %d hit the wall clock)"
          % (len(clean), exc, budget, wall))
    if wall:
        problems.append("wall clock safety net fired %d times (results not deterministic)" % wall)
    if problems:
        print("FAIL: %d difference(s)" % len(problems))
        for p in problems[:25]:
            print(" -", p)
        return 1
    print("PASS")
    return 0


if __name__ == "__main__":
    sys.exit(main())
