#!/usr/bin/env python
"""Differential test for property C11 (generator -> three-game file -> reader -> solver).

usage: python equiv.py <clean_repo_dir> <patched_repo_dir>

Both trees are loaded in their own subprocess (the module names collide).  Each
worker runs the same deterministic list of cases in a private scratch directory
and records one repr per case; the parent compares the two lists.  Prints SAME
and exits 0 when nothing differs, prints the first difference and exits 1
otherwise.
"""
import hashlib
import io
import json
import os
import subprocess
import sys
import tempfile

SOLVE_TIMEOUT = 10          # seconds per solved file (typical: well below 1 s)
WORKER_TIMEOUT = 110        # seconds for a whole worker


# --------------------------------------------------------------------------- worker

def worker(repo, out_path):
    import gc
    import math
    import random
    import signal
    from decimal import Decimal
    from fractions import Fraction

    repo = os.path.abspath(repo)
    scratch = tempfile.mkdtemp(prefix="equiv_c11_")
    os.chdir(scratch)
    os.mkdir("inputs")
    os.mkdir("outputs")
    sys.path.insert(0, repo)

    import roberta_generator as gen
    import stochastic_game_from_roborta_board as manual
    import conditionalrewards as cr
    from tad import StochasticGame

    for mod in (gen, manual, cr):
        assert os.path.abspath(mod.__file__).startswith(repo), mod.__file__

    results = []

    import time
    started = time.time()

    def emit(case, value):
        results.append([case, value if isinstance(value, str) else repr(value)])
        if os.environ.get("EQUIV_TIMING"):
            sys.stderr.write("%7.2f %s\n" % (time.time() - started, case[:60]))

    def outcome(fn):
        """('ok', repr) or (exception type, message); never lets an exception object live on."""
        try:
            return ("ok", repr(fn()))
        except SystemExit as exc:
            return ("SystemExit", repr(exc.code))
        except BaseException as exc:            # noqa: BLE001 - the type and text are the observation
            if isinstance(exc, (KeyboardInterrupt, Cutoff)):
                raise
            return (type(exc).__name__, str(exc))

    def digest(data):
        return "%d:%s" % (len(data), hashlib.sha256(data).hexdigest())

    def harvest(directory="inputs"):
        """names and bytes of everything in the directory, then empty it"""
        gc.collect()
        found = []
        for name in sorted(os.listdir(directory)):
            path = os.path.join(directory, name)
            with open(path, "rb") as fh:
                data = fh.read()
            found.append((name, digest(data), data[:60], data[-60:]))
            os.remove(path)
        return found

    class Cutoff(Exception):
        pass

    def on_alarm(signum, frame):
        raise Cutoff()

    signal.signal(signal.SIGALRM, on_alarm)

    class Recorder:
        """file-like object that keeps every chunk it is given"""
        def __init__(self):
            self.chunks = []

        def write(self, text):
            self.chunks.append(text)
            return len(text)

        def summary(self):
            text = "".join(self.chunks)
            sizes = hashlib.sha256(repr([len(c) for c in self.chunks]).encode()).hexdigest()
            return (len(self.chunks), sizes, digest(text.encode()), text[:80], text[-80:])

    rng = random.Random(20240611)

    # ------------------------------------------------------------------ A: check_input
    ints = [-10**9, -2, -1, 0, 1, 2, 3, 7, 10**9, True, False, 0.0, -0.0, 0.5, 1.0, 2.5,
            float("nan"), float("inf"), float("-inf"), None, "3", [1], Fraction(1, 2), Decimal("2")]
    probs = [-1, 0, 1, 2, -0.0, 0.0, 1.0, 5e-324, 1e-9, 0.1, 0.3, 0.5, 0.999999, 1 - 2**-53,
             1 + 2**-52, -1e-300, float("nan"), float("inf"), float("-inf"), True, False, None,
             "0.5", [0.5], Fraction(1, 3), Fraction(3, 2), Decimal("0.25"), Decimal("1"), 1j]
    good = dict(seed=0, width=3, length=3, prob_robot_break=0.1, prob_light_break=0.1,
                prob_loose_tile=0.3, prob_tile_break=0.1, max_reward=6)
    names = list(good)
    # one parameter off at a time
    for name in names:
        for value in (probs if name.startswith("prob") else ints):
            args = dict(good)
            args[name] = value
            emit("A1 %s=%r" % (name, value), outcome(lambda: gen.check_input(**args)))
    # two parameters off: the first violated check decides
    for i, first in enumerate(names):
        for second in names[i + 1:]:
            for _ in range(6):
                args = dict(good)
                args[first] = rng.choice(probs if first.startswith("prob") else ints)
                args[second] = rng.choice(probs if second.startswith("prob") else ints)
                emit("A2 %r" % (sorted(args.items(), key=lambda kv: kv[0]),),
                     outcome(lambda: gen.check_input(**args)))
    # everything random
    for n in range(1500):
        args = {k: rng.choice(probs if k.startswith("prob") else ints) for k in names}
        if n % 3 == 0:      # mostly valid, a few off
            args = {k: (v if rng.random() < 0.25 else good[k]) for k, v in args.items()}
        emit("A3 %d %r" % (n, list(args.values())), outcome(lambda: gen.check_input(**args)))
    # positional call, as main() does it
    for n in range(200):
        pos = [rng.choice(ints), rng.choice(ints), rng.choice(ints), rng.choice(probs),
               rng.choice(probs), rng.choice(probs), rng.choice(probs), rng.choice(ints)]
        emit("A4 %d %r" % (n, pos), outcome(lambda: gen.check_input(*pos)))

    # ------------------------------------------------------------------ B: command line
    def run_cli(argv):
        saved_argv, saved_err, saved_out = sys.argv, sys.stderr, sys.stdout
        sys.argv = ["roberta_generator.py"] + [str(a) for a in argv]
        sys.stderr, sys.stdout = io.StringIO(), io.StringIO()
        try:
            res = outcome(gen.main)
            return res, sys.stderr.getvalue(), sys.stdout.getvalue()
        finally:
            sys.argv, sys.stderr, sys.stdout = saved_argv, saved_err, saved_out

    def cli_case(tag, argv):
        res = run_cli(argv)
        emit("B %s %s" % (tag, " ".join(str(a) for a in argv)), (res, harvest()))

    prob_pool = [1e-9, 0.001, 0.005, 0.015, 0.025, 0.045, 0.05, 0.1, 0.125, 0.25, 0.3, 1 / 3, 0.5,
                 0.55, 0.7, 0.9, 0.995, 0.999999, 1 - 2**-53]
    cli_case("defaults", [])
    cli_case("force", ["-f"])
    solvable = []          # argv lists of small boards, solved in section C
    for n in range(420):
        if n < 60:
            width, length = rng.randint(1, 3), rng.randint(1, 3)
        elif n < 400:
            width, length = rng.randint(1, 8), rng.randint(1, 8)
        else:
            width, length = rng.choice([(20, 10), (1, 40), (40, 1), (12, 12), (25, 4)])
        argv = ["-s", rng.choice([0, 1, 2, 47, 999132423, rng.randrange(10**6), 2**70]),
                "-w", width, "-l", length,
                "-m", rng.choice([1, 1, 2, 3, 6, 6, 12, 60, 1100, 5000]),
                "-p", rng.choice(prob_pool), "-q", rng.choice(prob_pool),
                "-r", rng.choice(prob_pool), "-t", rng.choice(prob_pool)]
        if rng.random() < 0.5:
            argv.append("-f")
        cli_case("rnd%d" % n, argv)
    # small boards with moderate probabilities (value iteration settles quickly): solved in section C
    mild_pool = [0.05, 0.1, 0.125, 0.25, 0.3, 1 / 3, 0.5, 0.55, 0.7]
    for n in range(36):
        argv = ["-s", rng.randrange(1000), "-w", rng.randint(1, 3), "-l", rng.randint(1, 3),
                "-m", rng.choice([1, 2, 6]), "-p", rng.choice(mild_pool), "-q", rng.choice(mild_pool),
                "-r", rng.choice(mild_pool), "-t", rng.choice(mild_pool)]
        if n % 2:
            argv.append("-f")
        solvable.append(argv)
    solvable.append(["-s", 1, "-w", 1, "-l", 1, "-m", 1, "-p", 0.995, "-q", 0.001, "-r", 0.9, "-t", 0.5])
    # long options, and a width-1 board where the forced move must land on the only tile
    cli_case("long", ["--seed", 5, "--width", 1, "--length", 6, "--max_reward", 2, "--prob_robot_break",
                      0.2, "--prob_light_break", 0.4, "--prob_tile_break", 0.6, "--prob_loose_tile", 0.8,
                      "--force_down"])
    # rejected and malformed command lines
    bad_lines = [["-s", -1], ["-w", 0], ["-l", 0], ["-w", -3, "-l", -3], ["-m", 0], ["-m", -5],
                 ["-p", 0], ["-p", 1], ["-q", 0.0], ["-q", 1.0], ["-r", -0.1], ["-r", 1.5],
                 ["-t", 0], ["-t", 1], ["-p", "nan"], ["-q", "nan"], ["-r", "nan"], ["-t", "nan"],
                 ["-p", "inf"], ["-t", "-inf"], ["-s", -1, "-w", 0], ["-l", 0, "-m", 0],
                 ["-p", 2, "-q", 2, "-r", 2, "-t", 2], ["-t", 1, "-m", 0], ["-r", 0, "-t", 0],
                 ["-w", "x"], ["-s", "1.5"], ["-p", "abc"], ["--bogus"], ["-w"], ["-h"],
                 ["-p", "1e-400"], ["-p", "0.9999999999999999999"], ["-s", 0, "-w", 1, "-l", 1, "-m", 1]]
    for argv in bad_lines:
        cli_case("bad", argv)
    # no inputs/ directory to write into
    os.rename("inputs", "inputs_away")
    emit("B noinputs", (run_cli(["-s", 3]), sorted(os.listdir("."))))
    os.rename("inputs_away", "inputs")

    # ------------------------------------------------------------------ C: read back and solve
    def strip_times(game_results):
        return {name: {k: v for k, v in res.items() if k != "total_time"}
                for name, res in game_results.items()}

    def structure(games):
        """the facts the property lists, recomputed from what the reader returned"""
        facts = [list(games)]
        for name, game in games.items():
            sgame = StochasticGame(**game)
            n = len(game["players"])
            tl = game["transition_list"]
            win, lose = n - 1, n - 2
            facts.append((
                name, n, outcome(sgame.check_game), sgame.count_transitions(),
                all(len(t) >= 1 for t in tl),
                all(all(p > 0 for p, _ in t) and math.isclose(sum(p for p, _ in t), 1.0, abs_tol=1e-12)
                    for t, who in zip(tl, game["players"]) if who == "Probabilistic"),
                game["final_states"] == [win], tl[win] == [(1, win)], tl[lose] == [(1, lose)],
                sorted(set(game["players"])), min(game["rewards"]), max(game["rewards"]),
            ))
        return facts

    def load_and_solve(path):
        games = cr.read_dict_from_file(path)
        facts = structure(games)
        signal.alarm(SOLVE_TIMEOUT)
        try:
            solved = strip_times(cr.run_games(games))
        except Cutoff:
            solved = "CUTOFF"
        finally:
            signal.alarm(0)
        return facts, solved

    for n, argv in enumerate(solvable):
        res = run_cli(argv)
        files = sorted(os.listdir("inputs"))
        emit("C%d %s" % (n, " ".join(str(a) for a in argv)),
             (res, files, [outcome(lambda: load_and_solve(os.path.join("inputs", f))) for f in files]))
        harvest()

    # reader on things that are not a three-game file
    odd_files = {"list.py": "[1, 2, 3]\n", "empty.py": "", "syntax.py": "{'a': [1, 2}\n",
                 "name.py": "{'a': undefined_name}\n", "comment.py": "# only a comment\n",
                 "dict.py": "# c\n{'game_a': {'rewards': [0]}}\n", "num.py": "42", "set.py": "{1, 2}"}
    for name, text in odd_files.items():
        with open(os.path.join("inputs", name), "w") as fh:
            fh.write(text)
        emit("C reader %s" % name, outcome(lambda: cr.read_dict_from_file(os.path.join("inputs", name))))
    emit("C reader missing", outcome(lambda: cr.read_dict_from_file("inputs/not_there.py")))
    harvest()

    # ------------------------------------------------------------------ D: boards passed in by hand
    def hand_board(length, width, move_values, reward_values, tile_values):
        moves = [[rng.choice(move_values) for _ in range(width)] for _ in range(length)]
        rewards = [[rng.choice(reward_values) for _ in range(width)] for _ in range(length)]
        tiles = [[rng.choice(tile_values) for _ in range(width)] for _ in range(length)]
        return moves, rewards, tiles

    def manual_case(tag, moves, rewards, tiles, p_robot, p_light, p_tile, solve=False):
        res = outcome(lambda: manual.create_sg_from_board(moves, rewards, tiles, p_robot, p_light, p_tile))
        files = sorted(os.listdir("inputs"))
        solved = None
        if solve and res[0] == "ok":
            solved = [outcome(lambda: load_and_solve(os.path.join("inputs", f))) for f in files]
        emit("D %s %r" % (tag, (moves, rewards, tiles, p_robot, p_light, p_tile)), (res, solved, harvest()))

    for n in range(260):
        length, width = rng.randint(1, 5), rng.randint(1, 5)
        moves, rewards, tiles = hand_board(
            length, width, rng.choice([[0, 1, 2], [0, 1, 2, 3], [1], [3], [1, 3]]),
            rng.choice([[0, 1, 2, 3], [0], [5], [1, 2.0, 2.7], [True, 3], list(range(9))]), [0, 1])
        solve = n < 24 and length * width <= 9
        pool = mild_pool if solve else prob_pool
        manual_case("ok%d" % n, moves, rewards, tiles, rng.choice(pool), rng.choice(pool),
                    rng.choice(pool), solve=solve)
    # malformed boards: ragged rows, values outside the tables, wrong containers, bad probabilities
    for n in range(260):
        length, width = rng.randint(1, 4), rng.randint(1, 4)
        moves, rewards, tiles = hand_board(length, width, [0, 1, 2, 3], [0, 1, 2, 3, 4], [0, 1])
        target = rng.choice([moves, rewards, tiles])
        kind = rng.randrange(9)
        i, j = rng.randrange(length), rng.randrange(width)
        if kind == 0:
            target[i] = target[i][:-1]                        # short row
        elif kind == 1:
            target[i] = target[i] + [1]                       # long row
        elif kind == 2:
            target.pop()                                      # missing row
        elif kind == 3:
            target[i][j] = rng.choice([4, 5, -1, -2, -5, 2, 7])   # outside MOVE_SINTAX / TILE_SYNTAX
        elif kind == 4:
            target[i][j] = rng.choice([None, "1", 1.5, [0], float("nan"), float("inf")])
        elif kind == 5:
            target[i] = tuple(target[i])
        elif kind == 6:
            target[i] = rng.choice([None, 3, "abc", []])
        elif kind == 7:
            target.append(list(target[0]))                    # extra row
        p = [rng.choice(prob_pool) for _ in range(3)]
        if kind == 8:
            p[rng.randrange(3)] = rng.choice([0, 1, -0.5, 2, float("nan"), float("inf"), None, "0.1"])
        manual_case("bad%d/%d" % (n, kind), moves, rewards, tiles, *p)
    for tag, board in [("empty", ([], [], [])), ("emptyrow", ([[]], [[]], [[]])),
                       ("none", (None, None, None)), ("norewards", ([[1]], [], [[0]])),
                       ("tuple", (((1, 2), (0, 3)), ((1, 2), (3, 4)), ((0, 1), (1, 0)))),
                       ("negreward", ([[1, 1]], [[-1, -2]], [[0, 0]])),
                       ("strings", (["11"], ["22"], ["00"]))]:
        manual_case(tag, *board, 0.1, 0.2, 0.3)

    # ------------------------------------------------------------------ E: the writers called directly
    def direct(tag, fn, *args):
        rec = Recorder()
        res = outcome(lambda: fn(rec, *args))
        emit("E %s %r" % (tag, args), (res, rec.summary()))

    for n in range(320):
        length, width = rng.randint(1, 4), rng.randint(1, 4)
        moves, rewards, tiles = hand_board(length, width, [0, 1, 2, 3], [0, 1, 2, 6, 2.5], [0, 1])
        say_l, say_w = length, width
        roll = rng.random()
        if roll < 0.15:
            say_l = rng.choice([0, -1, length + 1, length - 1, 2 * length, 1.0, None, "2"])
        elif roll < 0.30:
            say_w = rng.choice([0, -1, width + 1, width - 1, 2 * width, 1.0, None, "2"])
        elif roll < 0.40:
            moves[rng.randrange(length)][rng.randrange(width)] = rng.choice([4, -1, -4, -5, None, 1.0])
        elif roll < 0.50:
            tiles[rng.randrange(length)][rng.randrange(width)] = rng.choice([2, -1, -2, -3, None, 1.0, True])
        pt, pr, pl = (rng.choice(prob_pool + [0, 1, Fraction(1, 4), "x", None]) for _ in range(3))
        direct("pre%d" % n, gen.write_preamble, say_l, say_w, moves, rewards, tiles)
        direct("A%d" % n, gen.write_robot_A, say_l, say_w, moves, rewards, tiles, pt)
        direct("B%d" % n, gen.write_robot_B, say_l, say_w, moves, rewards, tiles, pt, pr)
        direct("C%d" % n, gen.write_robot_C, say_l, say_w, moves, rewards, tiles, pt, pr, pl)
        if n % 4 == 0:
            res = outcome(lambda: gen.write_robots("inputs/direct_%d.py" % n, say_l, say_w, moves, rewards,
                                                   tiles, pt, pr, pl))
            emit("E robots%d" % n, (res, harvest()))
    # a file object that refuses to be written to
    closed = io.StringIO()
    closed.close()
    emit("E closed", outcome(lambda: gen.write_preamble(closed, 1, 1, [[1]], [[1]], [[0]])))
    emit("E nofile", outcome(lambda: gen.write_robot_B(None, 1, 1, [[1]], [[1]], [[0]], 0.1, 0.1)))
    emit("E baddir", outcome(lambda: gen.write_robots("nowhere/x.py", 1, 1, [[1]], [[1]], [[0]], .1, .1, .1)))

    # ------------------------------------------------------------------ F: the pieces the games are made of
    for n in range(300):
        length, width = rng.choice([0, 1, 1, 2, 3, 4, 5]), rng.choice([0, 1, 1, 2, 3, 4, 5])
        moves, rewards, tiles = hand_board(length, width, [0, 1, 2, 3], [0, 1, 2], [0, 1])
        o1, o2, o3 = rng.randrange(0, 200), rng.randrange(0, 200), rng.randrange(0, 200)
        if rng.random() < 0.3:
            o2 = o1
        p = rng.choice(prob_pool)
        win = rng.choice([None, 0, 1, 7, 999])
        emit("F%d" % n, (
            outcome(lambda: gen.player_two_transitions(length, width, moves, o1, o2)),
            outcome(lambda: gen.player_one_down_transitions(length, width, o1, win)),
            outcome(lambda: gen.player_one_left_right_transitions(length, width, moves, o1, o2)),
            outcome(lambda: gen.player_one_down_left_right_transitions(length, width, moves, o1, o2, o3)),
            outcome(lambda: gen.prob_tile_break_transitions(length, width, p, tiles, o1, o2)),
            outcome(lambda: gen.prob_robot_down_break_transitions(length, width, p, o1, win)),
            outcome(lambda: gen.prob_robot_left_break_transitions(length, width, p, o1)),
            outcome(lambda: gen.prob_robot_right_break_transitions(length, width, p, o1)),
            outcome(lambda: gen.prob_light_break_transitions(length, width, p, o1, o2)),
            outcome(lambda: gen.gen_rnd_board(n, length, width, p, rng.choice([1, 6, 30]), n % 2 == 0)),
        ))
    for value in probs + [0.005, 0.015, 0.025, 0.995, 0.125, 1e-9, 12.345, -0.005]:
        emit("F prob_to_str %r" % (value,), outcome(lambda: gen.prob_to_str(value)))
    for matrix in [[[1, 2], [3, 0]], [[1]], [[]], [], [[1], []], [[2, 2.0]], [[True, 1]], None, [[1, "a"]],
                   [[3, 1], [3.0, 2]]]:
        emit("F max %r" % (matrix,), outcome(lambda: manual.get_max_from_matrix(matrix)))
    emit("F names", sorted(n for n in dir(gen) if n.startswith(("write_", "check_", "prob_", "player_",
                                                                  "gen_", "get_", "init_", "main"))))

    with open(out_path, "w") as fh:
        json.dump(results, fh)
    os.chdir(os.path.dirname(os.path.abspath(out_path)))
    import shutil
    shutil.rmtree(scratch, ignore_errors=True)


# --------------------------------------------------------------------------- parent

def main():
    if len(sys.argv) == 4 and sys.argv[1] == "--worker":
        worker(sys.argv[2], sys.argv[3])
        return 0
    if len(sys.argv) != 3:
        print(__doc__)
        return 2
    here = os.path.abspath(__file__)
    env = dict(os.environ, PYTHONHASHSEED="0", PYTHONDONTWRITEBYTECODE="1")
    env.pop("PYTHONPATH", None)
    tmp = tempfile.mkdtemp(prefix="equiv_c11_out_")
    procs = []
    for idx, repo in enumerate(sys.argv[1:3]):
        out = os.path.join(tmp, "out%d.json" % idx)
        procs.append((repo, out, subprocess.Popen(
            [sys.executable, here, "--worker", os.path.abspath(repo), out],
            env=env, stdout=subprocess.PIPE, stderr=subprocess.STDOUT, text=True)))
    loaded = []
    for repo, out, proc in procs:
        try:
            log, _ = proc.communicate(timeout=WORKER_TIMEOUT)
        except subprocess.TimeoutExpired:
            for _, _, other in procs:
                other.kill()
            print("DIFFERENT? worker for %s did not finish in %d s" % (repo, WORKER_TIMEOUT))
            return 1
        if proc.returncode != 0 or not os.path.exists(out):
            print("worker for %s failed (exit %s):\n%s" % (repo, proc.returncode, log[-3000:]))
            return 1
        with open(out) as fh:
            loaded.append(json.load(fh))
    import shutil
    shutil.rmtree(tmp, ignore_errors=True)
    clean, patched = loaded
    one_sided = 0
    for (case_a, val_a), (case_b, val_b) in zip(clean, patched):
        if case_a == case_b and val_a != val_b and ("'CUTOFF'" in val_a) != ("'CUTOFF'" in val_b):
            # wall-clock guard hit on one side only (busy machine): inconclusive, the files
            # themselves are still compared byte for byte in section B
            one_sided += 1
            sys.stderr.write("inconclusive (solve cut off on one side only): %s\n" % case_a[:200])
            continue
        if case_a != case_b or val_a != val_b:
            print("DIFFERENT at case %s" % case_a[:300])
            if case_a != case_b:
                print("  other side ran case %s" % case_b[:300])
            print("  clean  : %s" % val_a[:1500])
            print("  patched: %s" % val_b[:1500])
            return 1
    if len(clean) != len(patched):
        print("DIFFERENT number of cases: %d vs %d" % (len(clean), len(patched)))
        return 1
    cut = sum(1 for _, v in clean if "CUTOFF" in v)
    sys.stderr.write("%d cases compared%s%s\n"
                     % (len(clean), ", %d with a solve cut off on both sides" % cut if cut else "",
                        ", %d inconclusive" % one_sided if one_sided else ""))
    print("SAME")
    return 0


if __name__ == "__main__":
    sys.exit(main())
