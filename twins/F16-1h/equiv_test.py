#!/usr/bin/env python
"""
Equivalence test for property C16 (the saved report states exactly what was computed).

usage: python equiv_test.py <path-to-patched-root> <path-to-clean-root>

The two trees are loaded in two separate subprocesses (same module names). Each
subprocess replays the same deterministic scenario in its own scratch folder and
dumps everything observable that the property talks about:

  A. input files (real small ones of inputs/ and several hundred random games, solvable
     or not, malformed or not, under many file names): what read_dict_from_file returns,
     what `conditionalrewards.py -f FILE -s` leaves in outputs/ (names and bytes),
     and whether that report reads back to the values run_games produced;
  B. save_results_to_file called directly on synthetic result tables (None, empty lists,
     long float vectors, nan/inf, braces, extra / missing keys, odd file names);
  C. the reader on boundary texts (not a dict, syntax errors, expressions, comments,
     texts that use the names visible to eval);
  D. the command-line parser.

The clock of the driver is replaced by the same fake clock in both subprocesses so that
even the "Total time" line is comparable. PASS = the two dumps are identical and the
intrinsic checks (report reads back to the results, name of the report) hold in both.
"""
import json
import os
import subprocess
import sys
import tempfile

RUNNER = r'''
import copy, io, json, math, os, random, shutil, signal, sys, contextlib
from decimal import Decimal
from fractions import Fraction

root, work, out_path = sys.argv[1], sys.argv[2], sys.argv[3]
os.makedirs(os.path.join(work, "outputs"))
os.chdir(work)
sys.path.insert(0, root)
import conditionalrewards as cr
assert os.path.realpath(cr.__file__).startswith(os.path.realpath(root)), cr.__file__
import tad
assert os.path.realpath(tad.__file__).startswith(os.path.realpath(root)), tad.__file__

OUT = {}
nan, inf = float("nan"), float("inf")


class FakeClock:
    """time.time() of the driver: a fixed sequence of awkward floats."""
    def __init__(self):
        self.reset()
    def reset(self):
        self.rng = random.Random(4242)
        self.now = 1700000000.0
    def time(self):
        self.now += self.rng.choice([0.0, 1e-7, 5e-7, 0.001, 0.1, 1 / 3, 2.5, 1234.000001])
        return self.now

CLOCK = FakeClock()
cr.time = CLOCK


class Timeout(Exception):
    pass

def _alarm(signum, frame):
    raise Timeout()
signal.signal(signal.SIGALRM, _alarm)


def snapshot_outputs():
    snap = {}
    for base, _, files in os.walk("outputs"):
        for f in sorted(files):
            p = os.path.join(base, f)
            with open(p, "rb") as fh:
                snap[p] = fh.read().decode("utf-8", "surrogateescape")
    shutil.rmtree("outputs")
    os.makedirs("outputs")
    return snap


def reference_report(results):
    """The report as the property describes it, written independently of the product."""
    text = io.StringIO()
    for name, g in results.items():
        text.write("=" * 160 + "\n")
        for label, value in [
                ("Running example", name), ("Message", g["msg"]),
                ("number of states", g["n_states"]), ("number of transitions", g["n_transitions"]),
                ("n iterations reach", g["n_iterations_reach"]), ("n iterations rew", g["n_iterations_rew"]),
                ("Reachability strategies", g["reachability_strategies"]),
                ("Final strategies", g["final_strategies"]),
                ("Are equal", g["reachability_strategies"] == g["final_strategies"]),
                ("Probabilities", g["probabilities"]), ("Probabilities min rew", g["prob_min_rew"]),
                ("Rewards", g["rewards"]), ("Rewards min reach", g["rew_min_reach"]),
                ("Total time", g["total_time"])]:
            text.write(label.ljust(24) + ": " + str(value) + "\n")
    return text.getvalue()


def reference_stem(path):
    return path.split("/")[-1].split(".")[0]


def guarded(fn, *args, seconds=60):
    """Outcome of a call: ("ok", value) or ("raised", description)."""
    signal.alarm(seconds)
    try:
        with contextlib.redirect_stderr(io.StringIO()), contextlib.redirect_stdout(io.StringIO()):
            return "ok", fn(*args)
    except Timeout:
        return "raised", "TIMEOUT"
    except SystemExit as e:
        return "raised", "SystemExit(%r)" % (e.code,)
    except BaseException as e:
        return "raised", "%s: %s" % (type(e).__name__, e)
    finally:
        signal.alarm(0)


def run_cli(argv):
    """python conditionalrewards.py <argv>, in process; also captures what run_games returned."""
    captured = []
    real = cr.run_games
    def spy(games):
        res = real(games)
        captured.append(res)
        return res
    cr.run_games = spy
    old_argv = sys.argv
    sys.argv = ["conditionalrewards.py"] + list(argv)
    CLOCK.reset()
    try:
        status, value = guarded(cr.main)
    finally:
        sys.argv = old_argv
        cr.run_games = real
    return (status if status == "ok" else value), captured


# --------------------------------------------------------------------------- #
# random games

P1, P2, PR = "Player 1", "Player 2", "Probabilistic"
ACTIONS = ["a", "b", "c", "Green", "Yellow", "go_1", "stay"]

def split_probability(rng, k):
    kind = rng.randrange(4)
    if k == 1:
        return [rng.choice([1, 1.0])]
    if kind == 0:
        return [1 / k] * k
    if kind == 1:
        cuts = sorted(rng.random() for _ in range(k - 1))
        pts = [0.0] + cuts + [1.0]
        return [pts[i + 1] - pts[i] for i in range(k)]
    if kind == 2:
        small = rng.choice([1e-9, 1e-4, 0.01])
        return [small] * (k - 1) + [1 - small * (k - 1)]
    ws = [rng.randint(1, 9) for _ in range(k)]
    return [w / sum(ws) for w in ws]


def random_game(rng):
    n = rng.choice([1, 2, 2, 3, 4, 5, 6, 7, 8, 10])
    n_sinks = rng.randint(1, max(1, n // 3))
    players, transitions, rewards = [], [], []
    for i in range(n):
        sink = i >= n - n_sinks
        if sink:
            players.append(rng.choice([PR, PR, P1, P2]))
            transitions.append([(1, i)] if players[-1] == PR else [("loop", i)])
            rewards.append(0)
            continue
        player = rng.choice([P1, P2, PR])
        k = rng.randint(1, 3)
        forward = [rng.randint(i + 1, n - 1) for _ in range(k)]
        if player == PR:
            probs = split_probability(rng, k)
            succ = list(forward)
            if k > 1 and rng.random() < 0.35:          # a back edge: a contracting cycle
                succ[0] = rng.randint(0, i)
            trans = list(zip(probs, succ))
        else:
            acts = rng.sample(ACTIONS, k)
            trans = list(zip(acts, forward))
        players.append(player)
        transitions.append(trans)
        rewards.append(rng.choice([0, 0, 1, 2, 5, 0.5, 2.25, 10 ** 6, 1e-3]))
    sinks = list(range(n - n_sinks, n))
    finals = rng.sample(sinks, rng.randint(1, len(sinks)))
    if rng.random() < 0.15:
        finals.append(rng.randrange(n))                # a final state in the middle / duplicate
    game = {"rewards": rewards, "players": players,
            "transition_list": transitions, "final_states": finals}
    # faults: the batch run must report them, the report must state them
    fault = rng.random()
    if fault < 0.04:
        game["final_states"] = []
    elif fault < 0.07:
        game["transition_list"][0] = []
    elif fault < 0.10:
        game["rewards"][rng.randrange(n)] = -1
    elif fault < 0.12:
        game["players"][rng.randrange(n)] = "Player {3}"
    elif fault < 0.14:
        game["rewards"] = game["rewards"] + [0]
    elif fault < 0.16:
        game["final_states"] = [n + 3]
    elif fault < 0.17:
        del game["rewards"]                             # TypeError: the run crashes
    elif fault < 0.18:
        game["transition_list"][0] = [("a", "x")]
    return game


NAME_PARTS = ["game", "robot_1_w2_l2", "g", "a_b_c", "x9", "_", "_no_prune", "7", "game_2_no_prune_", "G{0}", "ñ"]

def random_games(rng):
    games = {}
    for _ in range(rng.choice([0, 1, 1, 2, 3, 3, 4])):
        name = rng.choice(NAME_PARTS) + rng.choice(["", "_1", "_b2", "_0_0", "_no_prune"])
        games[name] = random_game(rng)
    if rng.random() < 0.1 and games:                    # the name clash X / X_no_prune
        first = next(iter(games))
        games[first + "_no_prune"] = random_game(rng)
    return games


def games_text(rng, games):
    style = rng.randrange(4)
    if style == 0:
        return repr(games)
    if style == 1:
        import pprint
        return "# Board:\n#\n#   [0|<-( )]\n\n\n" + pprint.pformat(games, width=120, sort_dicts=False) + "\n"
    if style == 2:
        body = ",\n".join("    %r: %r" % kv for kv in games.items())
        return "{\n" + body + ("," if games else "") + "\n}\n\n"
    return "dict(" + repr(list(games.items())) + ")   # built by a call\n"


FILE_NAMES = [
    "inputs/robot_47_w5_l5_r6_rb10_lb10_tb10_lt30_force_down.py", "inputs/a.py", "x.py", "./y_1.py",
    "inputs/two.dots.py", "inputs/noext", "inputs/.hidden.py", "in.puts/z_3.txt", "inputs//double_9.py",
    "inputs/sub/deep/n_0_1.py", "inputs/UPPER_lower_42.PY", "inputs/trailing_.py", "inputs/sp ace.py",
    "inputs/ñandu.py", "inputs/x..py", "inputs/outputs.py", "ABS/abs_1.py", "inputs/{name}.py",
    "inputs/%s.py", "inputs/a.b/c_d.e.f", "inputs/123.py",
]

def place(path):
    if path.startswith("ABS/"):
        path = os.path.join(work, "absdir", path[4:])
    d = os.path.dirname(path)
    if d:
        os.makedirs(d, exist_ok=True)
    return path


def part_a():
    rng = random.Random(20240916)
    cases = []
    for f in ["example_17_08.py", "example_games.py", "manual_1_game_a.py", "paper_games.py",
              "robot_1_w2_l1_r6_rb10_lb5_tb10_lt0.py", "robot_1_w1_l2_r6_rb10_lb5_tb10_lt0.py"]:
        with open(os.path.join(root, "inputs", f)) as fh:
            cases.append(("inputs/" + f, fh.read(), None))
    for i in range(260):
        games = random_games(rng)
        cases.append((FILE_NAMES[i % len(FILE_NAMES)] if i < 2 * len(FILE_NAMES)
                      else "inputs/rnd_%d_w%d.py" % (i, rng.randint(1, 40)),
                      games_text(rng, games), games))
    n_games = 0
    for idx, (path, text, games) in enumerate(cases):
        tag = "A%03d %s" % (idx, path.replace(work, "<work>"))
        path = place(path)
        with open(path, "w") as fh:
            fh.write(text)
        status, value = guarded(cr.read_dict_from_file, path)
        OUT[tag + " read"] = status + " " + repr(value)
        if games is not None:
            n_games += len(games)
            OUT[tag + " read==denoted"] = repr(status == "ok" and value == games and list(value) == list(games))
        outcome, captured = run_cli(["-f", path, "-s"])
        snap = snapshot_outputs()
        OUT[tag + " cli"] = repr(outcome)
        OUT[tag + " files"] = json.dumps(snap, sort_keys=True)
        # intrinsic check of the property
        if outcome == "ok":
            expected = {"outputs/" + reference_stem(path) + ".txt": reference_report(captured[0])}
            OUT[tag + " reads back"] = repr(snap == expected)
            order = [k for k in captured[0]]
            OUT[tag + " order"] = repr(order)
        else:
            OUT[tag + " reads back"] = repr(snap == {})
        # without -s nothing is written
        if idx % 10 == 0:
            outcome2, _ = run_cli(["--file", path])
            OUT[tag + " cli-nosave"] = repr(outcome2) + " " + json.dumps(snapshot_outputs())
    OUT["A games"] = str(n_games)


# --------------------------------------------------------------------------- #
# synthetic result tables

def entry(rng):
    def vec():
        k = rng.choice([0, 1, 3, 40, 400])
        pool = [0, 1, 0.0, -0.0, 1.0, 1 / 3, 1e-300, 5e-324, 1e22, 1e16, 123456789.123456789, 0.1 + 0.2,
                nan, inf, -inf, 2 ** 70, True, None, rng.random(), rng.random() * 1e-7, rng.uniform(-1e9, 1e9)]
        return [rng.choice(pool) for _ in range(k)]
    def strat():
        k = rng.choice([0, 1, 4, 30])
        return [rng.choice([None, [], ["a"], ["Green", "Yellow"], ["it's", 'say "x"'], ["{0}", "{msg}"], ("t",)])
                for _ in range(k)]
    odd = [None, [], 0, 0.0, "", "text {with} braces {", "%s %(x)s", "line\nbreak", (), {}, {"k": [1]},
           Decimal("1.10"), Fraction(1, 3), 10 ** 30, -0.0, nan, b"bytes", True, False, "ñ ✓"]
    def pick(normal):
        return rng.choice(odd) if rng.random() < 0.25 else normal()
    reach = pick(strat)
    final = copy.deepcopy(reach) if rng.random() < 0.4 else pick(strat)
    return {
        "n_states": pick(lambda: rng.randint(0, 10 ** 6)),
        "n_transitions": pick(lambda: rng.randint(0, 10 ** 7)),
        "n_iterations_reach": pick(lambda: rng.randint(0, 5000)),
        "n_iterations_rew": pick(lambda: rng.randint(0, 5000)),
        "reachability_strategies": reach,
        "final_strategies": final,
        "total_time": pick(lambda: rng.choice([0.0, 4.76837158203125e-07, 1e-05, 12.5, 86400.123456])),
        "msg": pick(lambda: rng.choice(["Game solved", "Game not solved",
                                        "Error while solving the game: max() arg is an empty sequence",
                                        "Error while solving the game: Player must be {x} or {}."])),
        "rewards": pick(vec),
        "rew_min_reach": pick(vec),
        "probabilities": pick(vec),
        "prob_min_rew": pick(vec),
    }


def part_b():
    rng = random.Random(77)
    names = ["g", "g_no_prune", "robot_1_w2", "", "{name}", "{", "}", "{0}", "{msg}", "a b", "ñ", "x\ny", 3, None, ("t", 1)]
    for i in range(220):
        table = {}
        for _ in range(rng.choice([0, 1, 2, 2, 3, 6])):
            table[rng.choice(names)] = entry(rng)
        kind = rng.random()
        if table and kind < 0.15:                       # extra keys, also the names a writer could use itself
            e = table[next(iter(table))]
            for k in rng.sample(["name", "rule", "are_equal", "extra", "file", "self", 0, "n states", "pruned"], 3):
                e[k] = rng.choice(["EXTRA", 1, None])
            if rng.random() < 0.5:                      # order of the keys must not matter
                items = list(e.items()); rng.shuffle(items)
                e.clear(); e.update(items)
        elif table and kind < 0.25:                     # a missing key: KeyError
            e = table[rng.choice(list(table))]
            del e[rng.choice(list(e))]
        file_name = FILE_NAMES[i % len(FILE_NAMES)] if i % 3 else rng.choice(
            ["", ".", "..", "a/.", "dir/", "/", "plain", "a.b.c", ".py", "x/.y.py", "outputs/x.txt", "a\\b.py"])
        tag = "B%03d %r" % (i, file_name)
        before = repr(table)
        status, value = guarded(cr.save_results_to_file, table, file_name)
        snap = snapshot_outputs()
        OUT[tag + " outcome"] = status + " " + repr(value)
        OUT[tag + " files"] = json.dumps(snap, sort_keys=True)
        OUT[tag + " untouched"] = repr(before == repr(table))
        if status == "ok":
            try:
                expected = {"outputs/" + reference_stem(file_name) + ".txt": reference_report(table)}
            except KeyError as e:
                expected = "the writer accepted an entry without %s" % e
            OUT[tag + " reads back"] = repr(snap == expected)
    # a mapping that is not a plain dict, and a report that replaces an older, longer one
    import collections
    rng = random.Random(5)
    table = collections.OrderedDict((k, collections.OrderedDict(entry(rng))) for k in ["z", "a", "m"])
    big = {str(k): entry(rng) for k in range(12)}
    for tag, t in [("B-big", big), ("B-ordered", table)]:
        status, value = guarded(cr.save_results_to_file, t, "inputs/same.py")
        OUT[tag] = status + " " + repr(value)
    snap = snapshot_outputs()
    OUT["B-overwrite files"] = json.dumps(snap, sort_keys=True)
    OUT["B-overwrite reads back"] = repr(snap == {"outputs/same.txt": reference_report(table)})
    # no outputs folder
    shutil.rmtree("outputs")
    status, value = guarded(cr.save_results_to_file, big, "inputs/same.py")
    OUT["B-nofolder"] = status + " " + repr(value) + " " + repr(os.path.exists("outputs"))
    shutil.rmtree("outputs", ignore_errors=True)
    os.makedirs("outputs")


# --------------------------------------------------------------------------- #
# the reader

def part_c():
    texts = [
        "", "   \n", "{}", "{}\n\n", "[]", "None", "42", "'text'", "{1, 2}", "{'a': 1}", "{'a': {}}", "dict()",
        "dict(a=dict(rewards=[0] * 3))", "{'g': {'rewards': [i for i in range(3)]}}",
        "# only a comment\n", "# c\n{'a': 1}\n# d\n", "\n\n  {'a': 1}", "{'a': 1", "{'a': 1}}", "x = {'a': 1}",
        "{'a': 1}\n{'b': 2}", "{'a': 10**25, 'b': 1/3, 'c': 1e-7, 'd': -0.0, 'e': float('inf')}",
        "{'a': 1, 'a': 2}", "{'b': 1, 'a': 2, 'c': 3}", "{3: {}, None: {}, ('t',): {}}",
        "{'n': file_name, 'c': len(contents), 'closed': file.name == file_name}",
        "{'k': StochasticGame.__name__, 'm': sorted(n for n in ['copy', 'time', 'logging', 'argparse'] if n in globals())}",
        "{'k': undefined_name}", "{'k': 1/0}", "__import__('collections').OrderedDict(a=1)",
        "{'ñ': '✓'}", "{'a': 1}\x0c", "﻿{'a': 1}", "{'a':\t[1,\n2]}\r\n", "lambda: {}", "(lambda: {'a': 1})()",
        "{**{'a': 1}, 'b': 2}", "{'a': 1} if True else []", "{'a': 1} if False else []",
    ]
    os.makedirs("reader", exist_ok=True)
    for i, text in enumerate(texts):
        path = "reader/t_%d.py" % i
        with open(path, "w", encoding="utf-8") as fh:
            fh.write(text)
        status, value = guarded(cr.read_dict_from_file, path)
        shown = repr(value) if not callable(value) else "callable"
        OUT["C%02d %r" % (i, text[:40])] = status + " " + type(value).__name__ + " " + shown
        if status == "ok":
            OUT["C%02d order" % i] = repr(list(value))
    for path in ["reader/missing.py", "reader", ""]:
        status, value = guarded(cr.read_dict_from_file, path)
        OUT["C missing %r" % path] = status + " " + repr(value)
    # the whole chain on a file that is not a dictionary / cannot be parsed: no report
    for i in [4, 17]:
        outcome, _ = run_cli(["-f", "reader/t_%d.py" % i, "-s"])
        OUT["C cli %d" % i] = repr(outcome) + " " + json.dumps(snapshot_outputs())


# --------------------------------------------------------------------------- #
# the parser

def part_d():
    argvs = [
        ["-f", "a.py"], ["--file", "a.py"], ["-f", "a.py", "-s"], ["-s", "-f", "a.py"], ["--save_results", "--file=a.py"],
        ["-f", "a.py", "-l", "i"], ["-f", "a.py", "--log_level", "FULL_DEBUG", "-s"], ["-fa.py"], ["-sf", "a.py"],
        ["-f", "a.py", "-f", "b.py"], ["-f", ""], ["-f", "-s"], [], ["-s"], ["-f"], ["-f", "a.py", "-x"],
        ["-f", "a.py", "--save"], ["-f", "a.py", "-l"], ["--fil", "a.py"], ["-h"],
    ]
    for argv in argvs:
        def parse():
            ns = vars(cr.init_parser().parse_args(argv))
            return {k: ns.get(k, "<absent>") for k in ["file", "log_level", "save_results"]}
        status, value = guarded(parse)
        OUT["D %r" % (argv,)] = status + " " + repr(value)
    OUT["D prog"] = cr.init_parser().prog
    for level in ["x", "INFO "]:
        path = place("inputs/lvl.py")
        with open(path, "w") as fh:
            fh.write("{}")
        outcome, _ = run_cli(["-f", path, "-s", "-l", level])
        OUT["D level %r" % level] = repr(outcome) + " " + json.dumps(snapshot_outputs())

    # main(argv) when the tree has it: the same report as with sys.argv
    import inspect
    if "argv" in inspect.signature(cr.main).parameters:
        path = place("inputs/paper_games_9.b.py")
        shutil.copy(os.path.join(root, "inputs", "paper_games.py"), path)
        outcome, captured = run_cli(["-f", path, "-s"])
        via_sys_argv = snapshot_outputs()
        CLOCK.reset()
        old_argv, sys.argv = sys.argv, ["prog", "--nonsense"]
        status, value = guarded(cr.main, ["-f", path, "-s"])
        sys.argv = old_argv
        via_argument = snapshot_outputs()
        OUT["X main(argv) same report"] = repr(outcome == "ok" and status == "ok" and via_sys_argv == via_argument
                                               and list(via_argument) == ["outputs/paper_games_9.txt"]
                                               and value == captured[0])


part_a()
part_b()
part_c()
part_d()
EXTRA_PARTS
with open(out_path, "w") as fh:
    json.dump(OUT, fh, sort_keys=True, indent=0)
'''

EXTRA_PARTS = ""


def run_tree(root, tag, tmp):
    work = os.path.join(tmp, "work_" + tag)
    os.makedirs(work)
    runner = os.path.join(tmp, "runner_%s.py" % tag)
    with open(runner, "w") as fh:
        fh.write(RUNNER.replace("EXTRA_PARTS", EXTRA_PARTS))
    out = os.path.join(tmp, "out_%s.json" % tag)
    env = dict(os.environ, PYTHONDONTWRITEBYTECODE="1", PYTHONHASHSEED="0")
    proc = subprocess.run([sys.executable, runner, os.path.abspath(root), work, out],
                          env=env, capture_output=True, text=True)
    if proc.returncode != 0:
        print("runner failed for", tag)
        print(proc.stdout[-3000:])
        print(proc.stderr[-6000:])
        sys.exit(2)
    with open(out) as fh:
        data = json.load(fh)
    # the scratch folder appears in a few messages and paths
    return {k.replace(work, "<work>"): v.replace(work, "<work>") for k, v in data.items()}


def whole_blocks_only(key, p, c, patched, clean):
    """
        The one tolerated difference, outside the property: a result entry that LACKS a key (run_games
        never produces one). Both trees must raise the same KeyError; the clean tree leaves the block of
        that entry half written, the patched tree stops after the last whole block. Everything before
        must be identical.
    """
    outcome = key[:-len(" files")] + " outcome"
    if patched.get(outcome) != clean.get(outcome) or not patched.get(outcome, "").startswith(("raised 'KeyError: ", 'raised "KeyError: ')):
        return False
    p, c = json.loads(p), json.loads(c)
    if sorted(p) != sorted(c):
        return False
    rule = "=" * 160 + "\n"
    for name in c:
        rest = c[name][len(p[name]):]
        if not c[name].startswith(p[name]) or not rest.startswith(rule) or rest.count(rule) != 1:
            return False
        if rest.count("\n") >= 15:
            return False
    return True


def main():
    if len(sys.argv) != 3:
        print(__doc__)
        sys.exit(2)
    patched_root, clean_root = sys.argv[1], sys.argv[2]
    with tempfile.TemporaryDirectory(prefix="c16_equiv_") as tmp:
        patched = run_tree(patched_root, "patched", tmp)
        clean = run_tree(clean_root, "clean", tmp)
    problems = []
    n_half_blocks = 0
    for key in sorted(set(patched) | set(clean)):
        if key.startswith("X"):
            continue                                    # checks of the patched tree alone
        p, c = patched.get(key, "<absent>"), clean.get(key, "<absent>")
        if p != c and key.startswith("B") and key.endswith(" files") and whole_blocks_only(key, p, c, patched, clean):
            n_half_blocks += 1
            continue
        if p != c:
            problems.append("DIFF %s\n   patched: %s\n   clean  : %s" % (key, p[:600], c[:600]))
    for tag, data in [("patched", patched), ("clean", clean)]:
        for key, value in sorted(data.items()):
            intrinsic = key.endswith((" reads back", " read==denoted", " untouched")) or key.startswith("X")
            if intrinsic and value != "True":
                problems.append("INTRINSIC check failed in the %s tree: %s = %s" % (tag, key, value[:300]))
    n_ok = sum(1 for k, v in patched.items() if k.endswith(" cli") and v == "'ok'")
    n_solved = sum(v.count("Message                 : Game solved") for k, v in patched.items()
                   if k.startswith("A") and k.endswith(" files"))
    n_failed = sum(v.count("Message                 : Error while solving") for k, v in patched.items()
                   if k.startswith("A") and k.endswith(" files"))
    print("observations: %d (patched) / %d (clean); command-line runs that ended well: %d; random games: %s; "
          "blocks 'Game solved': %d, blocks with an error message: %d"
          % (len(patched), len(clean), n_ok, patched.get("A games"), n_solved, n_failed))
    if n_half_blocks:
        print("entries lacking a key (same KeyError in both trees): %d; the clean tree leaves a half-written "
              "block, the patched tree only whole blocks" % n_half_blocks)
    if problems:
        for p in problems[:25]:
            print(p)
        print("%d problem(s)" % len(problems))
        print("FAIL")
        sys.exit(1)
    print("PASS")
    sys.exit(0)


if __name__ == "__main__":
    main()
