#!/usr/bin/env python
"""Differential test for property C02 (reported expected rewards).

usage: python equiv.py <clean_repo_dir> <patched_repo_dir>

Each tree is loaded in its own subprocess (the module names collide).  Both
workers run the same deterministic set of inputs and write one line per case
(`label<TAB>repr-or-exception`).  The driver compares the two transcripts,
prints `SAME` (exit 0) or the first difference (exit 1).

Solves that may not terminate are cut off deterministically: every call of a
node's `value_iteration_reach` / `value_iteration_rewards` is counted and the
case is aborted after a fixed number of calls; the complete solver state at the
moment of the cut-off is part of the transcript, so "both cut off" still
compares everything computed so far.
"""
import os
import subprocess
import sys
import tempfile

CALL_CAP = 2000          # node-step calls per solve before the case is cut off
SEED = 20261005


# --------------------------------------------------------------------------
# worker
# --------------------------------------------------------------------------
def worker(tree, out_path):
    import copy
    import hashlib
    import itertools
    import logging
    import random

    sys.path.insert(0, tree)
    import tad
    import conditionalrewards as cr
    import roberta_generator as gen

    logging.disable(logging.CRITICAL)
    P1, P2, PR = tad.PLAYER_1, tad.PLAYER_2, tad.PROBABILISTIC
    out = open(out_path, "w")

    import time as _time
    clock = {"t": _time.process_time(), "section": ""}

    def emit(label, text):
        section = label[:4]
        if os.environ.get("EQUIV_TIMING") and section != clock["section"]:
            now = _time.process_time()
            print(f"{clock['section']:10s} {now - clock['t']:.1f}s", file=sys.stderr)
            clock["t"], clock["section"] = now, section
        out.write(f"{label}\t{text}\n")

    # ---- deterministic cut-off -------------------------------------------
    class CutOff(ValueError):
        """A ValueError, so that run_games records it (with the solver state at
        the moment of the cut-off as message) and carries on with the next game."""

    budget = {"left": CALL_CAP, "cap": CALL_CAP, "states": None}

    def counted(method):
        def wrapper(self, state_list):
            budget["states"] = state_list
            budget["left"] -= 1
            if budget["left"] < 0:
                raise CutOff("cut off at " + snapshot(state_list))
            return method(self, state_list)
        return wrapper

    for cls in (tad.PlayerOne, tad.PlayerTwo, tad.ProbabilisticNode):
        for name in ("value_iteration_reach", "value_iteration_rewards"):
            setattr(cls, name, counted(getattr(cls, name)))

    def snapshot(state_list):
        if state_list is None:
            return "no-states"
        return repr([(s.idx, s.reach_probability, s.expected_rewards,
                      s.expected_rewards_min_reach, s.expected_reach_min_rewards,
                      s.next_states) for s in state_list])

    original_solve = tad.StochasticGame.solve

    def solve_with_fresh_budget(self):
        budget["left"] = budget["cap"]
        return original_solve(self)

    tad.StochasticGame.solve = solve_with_fresh_budget

    def guarded(fn, cap=CALL_CAP):
        budget["left"] = budget["cap"] = cap
        try:
            return "OK " + repr(fn())
        except CutOff as exc:
            return f"CUTOFF {exc}"
        except Exception as exc:            # type + message are observable
            return f"EXC {type(exc).__name__}: {exc}"

    # ---- deterministic clock for run_games --------------------------------
    class FakeTime:
        def __init__(self):
            self.now = 0.0

        def time(self):
            self.now += 0.125
            return self.now

    cr.time = FakeTime()

    rng = random.Random(SEED)
    PROBS = [0.5, 0.25, 0.125, 0.75, 0.2, 0.3, 0.1, 1 / 3, 0.05]

    def split(k, allow_int=True):
        """k probabilities that (nearly) sum to one, frequently with exact ties."""
        mode = rng.randrange(4)
        if k == 1:
            return [1 if allow_int and rng.random() < 0.5 else 1.0]
        if mode == 0:
            return [1 / k] * k
        if mode == 1 and k == 2:
            return [0.5, 0.5]
        cuts = sorted(rng.choice([0.1, 0.2, 0.25, 0.3, 0.5, 0.6, 0.75, 0.9]) for _ in range(k - 1))
        parts = [b - a for a, b in zip([0.0] + cuts, cuts + [1.0])]
        if min(parts) <= 0:
            return [1 / k] * k
        return parts

    def reward_value():
        r = rng.random()
        if r < 0.35:
            return 0
        if r < 0.8:
            return rng.randrange(1, 5)
        if r < 0.9:
            return rng.choice([0.5, 1.5, 2.0, 0.1, 2.25])
        return rng.choice([1.0, 3, 0.0])

    # ---- generators of games ----------------------------------------------
    def stopping_game():
        """Stopping game: absorbing zero-reward finals and sinks, every
        probabilistic state leaks into an absorbing state, player states only
        move to probabilistic / absorbing / later player states."""
        n_fin = rng.randrange(1, 4)
        n_sink = rng.randrange(0, 3)
        n_mid = rng.randrange(1, 8)
        n = n_mid + n_fin + n_sink
        order = list(range(1, n))
        rng.shuffle(order)
        ids = [0] + order                       # state 0 is always a middle state
        mids, fins, sinks = ids[:n_mid], ids[n_mid:n_mid + n_fin], ids[n_mid + n_fin:]
        absorbing = fins + sinks
        players, rewards, trans = [None] * n, [0] * n, [None] * n
        for s in absorbing:
            players[s] = rng.choice([P1, P2, PR])
            trans[s] = [((1 if rng.random() < 0.5 else 1.0) if players[s] == PR else "stay", s)]
        for s in mids:
            players[s] = rng.choice([P1, P2, PR, PR])
        prob_mids = [s for s in mids if players[s] == PR]
        rank = {s: i for i, s in enumerate(mids)}
        for s in mids:
            rewards[s] = reward_value()
            if players[s] == PR:
                k = rng.randrange(1, 5)
                targets = [rng.choice(absorbing)] + [rng.choice(ids) for _ in range(k - 1)]
                rng.shuffle(targets)
                trans[s] = list(zip(split(k), targets))
            else:
                later = [t for t in mids if players[t] != PR and rank[t] > rank[s]]
                pool = prob_mids + absorbing + later
                k = rng.randrange(1, 5)
                targets = [rng.choice(pool) for _ in range(k)]
                if rng.random() < 0.3:               # parallel edges
                    targets.append(targets[0])
                names = [f"a{j}" for j in range(len(targets))]
                if rng.random() < 0.15:              # duplicated action names
                    names[-1] = names[0]
                trans[s] = list(zip(names, targets))
        return dict(rewards=rewards, players=players, transition_list=trans, final_states=fins)

    def free_game():
        n = rng.randrange(2, 9)
        players = [rng.choice([P1, P2, PR]) for _ in range(n)]
        rewards = [reward_value() for _ in range(n)]
        trans = []
        for s in range(n):
            k = rng.randrange(1, 4)
            targets = [rng.randrange(n) for _ in range(k)]
            if players[s] == PR:
                trans.append(list(zip(split(k), targets)))
            else:
                trans.append([(f"a{j}", t) for j, t in enumerate(targets)])
        fins = rng.sample(range(n), rng.randrange(1, min(3, n) + 1))
        if rng.random() < 0.7:
            for f in fins:
                rewards[f] = 0
                trans[f] = [(1.0 if players[f] == PR else "stay", f)]
        return dict(rewards=rewards, players=players, transition_list=trans, final_states=fins)

    def solve(game, prune):
        return tad.StochasticGame(**copy.deepcopy(game), prune_states=prune).solve()

    # ---- 1. random stopping and free games, both pruning modes -------------
    games = []
    for case in range(520):
        game = stopping_game() if case % 5 < 3 else free_game()
        games.append(game)
        for prune in (True, False):
            emit(f"game{case}/{prune}", guarded(lambda: solve(game, prune), cap=1200))

    # ---- 2. hand-made boundary games --------------------------------------
    def line(label, **game):
        for prune in (True, False):
            emit(f"{label}/{prune}", guarded(lambda: solve(game, prune)))

    fin = [("stay", 3)]
    for r1, r2 in itertools.product([0, 1, 1.0, 2], repeat=2):
        # exact ties between successors whose side quantities differ
        line(f"tieP1-{r1}-{r2}", rewards=[0, r1, r2, 0, 0],
             players=[P1, PR, PR, P1, P1],
             transition_list=[[("l", 1), ("r", 2)], [(0.5, 3), (0.5, 4)], [(1.0, 3)],
                              fin, [("stay", 4)]], final_states=[3])
        line(f"tieP2-{r1}-{r2}", rewards=[1, r1, r2, 0, 0],
             players=[P2, PR, PR, P1, P1],
             transition_list=[[("l", 1), ("r", 2), ("m", 1)], [(0.5, 3), (0.5, 4)], [(0.25, 3), (0.75, 4)],
                              fin, [("stay", 4)]], final_states=[3])
        line(f"tieMix-{r1}-{r2}", rewards=[0, r1, r2, 0, 0, 1],
             players=[PR, P2, P1, P1, P1, PR],
             transition_list=[[(0.5, 1), (0.25, 2), (0.25, 4)], [("x", 5), ("y", 3), ("z", 5)],
                              [("x", 5), ("y", 3), ("z", 4)], fin, [("stay", 4)],
                              [(0.5, 3), (0.5, 0)]], final_states=[3])
    weird = float("nan"), float("inf"), -1.0, 10 ** 400, True, -0.0
    for w in weird:
        line(f"weird-reward-{w!r:.12}", rewards=[1, w, 1, 0], players=[P1, PR, P2, P1],
             transition_list=[[("a", 1), ("b", 2)], [(0.5, 3), (0.5, 0)], [("a", 1), ("b", 3)], fin],
             final_states=[3])
        line(f"weird-first-{w!r:.12}", rewards=[w, 1, 1, 0], players=[P2, PR, P1, P1],
             transition_list=[[("a", 1), ("b", 2)], [(0.5, 3), (0.5, 0)], [("a", 1), ("b", 3)], fin],
             final_states=[3])
        line(f"weird-prob-{w!r:.12}", rewards=[1, 2, 1, 0], players=[P1, PR, P2, P1],
             transition_list=[[("a", 1), ("b", 2)], [(w, 3), (0.5, 0)], [("a", 1), ("b", 3)], fin],
             final_states=[3])
        line(f"weird-neg-succ-{w!r:.12}", rewards=[1, 2, 1, 0], players=[P1, PR, P2, P1],
             transition_list=[[("a", 1)], [(-1.0, 2), (w, 3)], [("a", 3), ("b", 1)], fin],
             final_states=[3])

    # ---- 3. malformed descriptions -----------------------------------------
    base = dict(rewards=[1, 2, 0, 0], players=[P1, PR, P2, P1],
                transition_list=[[("a", 1), ("b", 2)], [(0.5, 3), (0.5, 0)], [("a", 1), ("b", 3)],
                                 [("stay", 3)]], final_states=[3])

    def mutated(**changes):
        game = copy.deepcopy(base)
        game.update(changes)
        return game

    def with_transitions(idx, value):
        game = copy.deepcopy(base)
        game["transition_list"][idx] = value
        return game

    malformed = [
        mutated(rewards=[1, 2, 0]), mutated(rewards=[1, 2, 0, 0, 0]), mutated(rewards=[1, -2, 0, 0]),
        mutated(rewards=[]), mutated(rewards=["a", 1, 2, 3]), mutated(rewards=[None, 1, 2, 3]),
        mutated(final_states=[]), mutated(final_states=[4]), mutated(final_states=[-1]),
        mutated(final_states=[3, 3]), mutated(final_states=[0]), mutated(final_states=[1, 2]),
        mutated(final_states=(3,)), mutated(final_states=["3"]),
        mutated(players=[P1, PR, P2]), mutated(players=[P1, PR, P2, "Player 3"]),
        mutated(players=[P1, PR, P2, P1, P1]), mutated(players=[]),
        mutated(transition_list=base["transition_list"][:3]),
        with_transitions(0, []), with_transitions(3, []), with_transitions(1, None),
        with_transitions(1, ((0.5, 3), (0.5, 0))), with_transitions(1, [[0.5, 3], [0.5, 0]]),
        with_transitions(1, [(0.5, 3, 1)]), with_transitions(1, [("x", 3)]),
        with_transitions(0, [(1, 1)]), with_transitions(0, [("a", "1")]),
        with_transitions(0, [("a", 4)]), with_transitions(0, [("a", -1)]),
        with_transitions(0, [("a", 1.0)]), with_transitions(1, [(0.5, 3), (0.5, 4)]),
        with_transitions(1, [(0.0, 3), (1.0, 0)]), with_transitions(1, [(0, 3), (1, 0)]),
        with_transitions(1, [(0.5, 3), (0.6, 0)]), with_transitions(1, [(0.2, 3), (0.2, 0)]),
        with_transitions(1, [(-0.5, 3), (1.5, 0)]), with_transitions(1, [(True, 3)]),
        with_transitions(2, [("a", 1), ("a", 3)]), with_transitions(0, [("a", 2), ("a", 1)]),
        with_transitions(0, [("a", 0)]), with_transitions(2, [("a", 2)]),
        with_transitions(1, [(1.0, 1)]), with_transitions(3, [("go", 0)]),
    ]
    for k, game in enumerate(malformed):
        for prune in (True, False):
            emit(f"malformed{k}/{prune}", guarded(lambda: solve(game, prune)))
        emit(f"malformed{k}/count", guarded(
            lambda: tad.StochasticGame(**copy.deepcopy(game)).count_transitions()))

    # ---- 4. single Bellman steps on arbitrary solver states ----------------
    VALUES = [0, 0.0, -0.0, 1, 1.0, 2, 2.5, 0.5, 1e-7, 3, float("inf"), float("nan"), -1.0, -2]

    def value(plain):
        return rng.choice(VALUES[:10]) if plain or rng.random() < 0.8 else rng.choice(VALUES)

    def random_states(plain):
        n = rng.randrange(1, 7)
        states = []
        for s in range(n):
            kind = rng.choice([P1, P2, PR])
            k = rng.randrange(1, 5)
            targets = [rng.randrange(n) for _ in range(k)]
            if kind == PR:
                nxt = list(zip(split(k), targets))
            else:
                nxt = [(rng.choice("abc"), t) for t in targets]
            cls = {P1: tad.PlayerOne, P2: tad.PlayerTwo, PR: tad.ProbabilisticNode}[kind]
            node = cls(player=kind, idx=s, reward=value(plain), next_states=nxt, num_states=n,
                       is_final_node=rng.random() < 0.2)
            node.reach_probability = rng.choice([0, 1, 0.5, 0.5000001, 0.25, 1.0, 0.0, 0.4999999])
            node.expected_rewards = value(plain)
            node.expected_rewards_min_reach = value(plain)
            node.expected_reach_min_rewards = rng.choice([0, 1, 0.5, 0.25, 1.0, 0.0, 0.75])
            if rng.random() < 0.1:
                node.next_states = []
            states.append(node)
        return states

    for case in range(2000):
        states = random_states(plain=case % 2 == 0)
        emit(f"step{case}", " | ".join(
            guarded(lambda: node.value_iteration_rewards(states)) for node in states))

    # ---- 5. the total-reward iteration started from arbitrary states -------
    for case in range(300):
        states = random_states(plain=case % 3 != 0)
        solver = tad.Solver(state_list=states, threshold=rng.choice([1e-6, 1e-3, 0.5]))

        def run():
            iterations = solver.value_iteration_total_rewards()
            return iterations, snapshot(states), solver._get_total_rewards_strategies()
        emit(f"sweep{case}", guarded(run, cap=300))
    for case in range(100):
        states = random_states(plain=True)
        solver = tad.Solver(state_list=states)
        emit(f"total{case}", guarded(lambda: (solver.solve_total_rewards(), snapshot(states)), cap=300))

    # ---- 5b. complete DEBUG log of a solve (order of updates and log lines) --
    import io
    for case in range(60):
        game = games[case * 3]
        stream = io.StringIO()
        handler = logging.StreamHandler(stream)
        root = logging.getLogger()
        old_level, old_handlers = root.level, root.handlers[:]
        root.handlers[:] = [handler]          # nothing goes to the console
        root.setLevel(logging.DEBUG)
        logging.disable(logging.NOTSET)
        try:
            result = guarded(lambda: solve(game, case % 2 == 0), cap=400)
        finally:
            logging.disable(logging.CRITICAL)
            root.handlers[:] = old_handlers
            root.setLevel(old_level)
        text = stream.getvalue()
        emit(f"debuglog{case}", f"{hashlib.sha256(text.encode()).hexdigest()} {len(text)} {result[:200]}")

    # ---- 6. run_games + report files, byte for byte ------------------------
    os.makedirs("outputs", exist_ok=True)
    os.makedirs("inputs", exist_ok=True)

    def report(label, games_dict, file_name, cap=1200):
        def run():
            results = cr.run_games(games_dict)
            cr.save_results_to_file(results, file_name)
            with open(os.path.join("outputs", file_name.split("/")[-1].split(".")[0] + ".txt"), "rb") as fh:
                data = fh.read()
            return ({k: (v["rewards"], v["rew_min_reach"], v["prob_min_rew"], v["msg"],
                         v["n_iterations_rew"]) for k, v in results.items()},
                    hashlib.sha256(data).hexdigest(), len(data))
        emit(label, guarded(run, cap=cap))

    for chunk in range(24):
        batch = {f"g{chunk}_{j}": copy.deepcopy(games[(chunk * 7 + j * 13) % len(games)]) for j in range(4)}
        if chunk % 4 == 0:
            batch[f"bad{chunk}"] = copy.deepcopy(malformed[chunk % len(malformed)])
        report(f"run_games{chunk}", batch, f"inputs/batch.{chunk}.py")

    for name in ("example_games.py", "paper_games.py", "example_17_08.py", "manual_1_game_a.py",
                 "manual_arrow_bottom.py", "robot_1_w1_l2_r6_rb10_lb5_tb10_lt0.py",
                 "robot_1_w2_l1_r6_rb10_lb5_tb10_lt0.py", "robot_1_w2_l2_r6_rb10_lb5_tb10_lt0.py",
                 "robot_999132423_w3_l3_r6_rb1_lb2_tb10_lt30.py",
                 "robot_999132423_w3_l3_r6_rb1_lb2_tb10_lt30_force_down.py"):
        path = os.path.join(tree, "inputs", name)
        report(f"example:{name}", cr.read_dict_from_file(path), path, cap=40000)

    # ---- 7. generator boards ------------------------------------------------
    for seed in range(18):
        length, width = 1 + seed % 3, 1 + (seed // 3) % 3
        force_down = seed % 2 == 1
        moves, rewards, loose = gen.gen_rnd_board(seed, length, width, [0.3, 0.6, 0.01][seed % 3],
                                                  max_reward=1 + seed % 6, force_down=force_down)
        file_name = f"inputs/board_{seed}.py"
        gen.write_robots(file_name, length, width, moves, rewards, loose,
                         [0.1, 0.5, 0.25][seed % 3], [0.1, 0.2][seed % 2], [0.05, 0.1, 0.3][(seed // 2) % 3])
        with open(file_name, "rb") as fh:
            emit(f"boardfile{seed}", hashlib.sha256(fh.read()).hexdigest())
        report(f"board{seed}", cr.read_dict_from_file(file_name), file_name, cap=2500)

    out.close()


# --------------------------------------------------------------------------
# driver
# --------------------------------------------------------------------------
def main():
    if len(sys.argv) == 4 and sys.argv[1] == "--worker":
        worker(sys.argv[2], sys.argv[3])
        return 0
    if len(sys.argv) != 3:
        print(__doc__)
        return 2
    trees = [os.path.abspath(p) for p in sys.argv[1:3]]
    me = os.path.abspath(__file__)
    with tempfile.TemporaryDirectory(prefix="equiv_F02_") as tmp:
        procs, outs = [], []
        for k, tree in enumerate(trees):
            cwd = os.path.join(tmp, f"cwd{k}")
            os.makedirs(cwd)
            out_path = os.path.join(tmp, f"out{k}.txt")
            outs.append(out_path)
            env = dict(os.environ, PYTHONHASHSEED="0", PYTHONDONTWRITEBYTECODE="1")
            procs.append(subprocess.Popen([sys.executable, me, "--worker", tree, out_path],
                                          cwd=cwd, env=env, stdout=subprocess.PIPE,
                                          stderr=subprocess.PIPE))
        for proc, tree in zip(procs, trees):
            try:
                _, err = proc.communicate(timeout=115)
            except subprocess.TimeoutExpired:
                for p in procs:
                    p.kill()
                print(f"DIFFERENT: worker for {tree} timed out")
                return 1
            if proc.returncode != 0:
                print(f"DIFFERENT: worker for {tree} crashed\n{err.decode(errors='replace')[-3000:]}")
                return 1
        with open(outs[0]) as fh:
            first = fh.read().split("\n")
        with open(outs[1]) as fh:
            second = fh.read().split("\n")
    for a, b in zip(first, second):
        if a != b:
            print("DIFFERENT at case", a.split("\t")[0])
            print("  clean  :", a[:1500])
            print("  patched:", b[:1500])
            return 1
    if len(first) != len(second):
        print(f"DIFFERENT: transcript lengths {len(first)} vs {len(second)}")
        return 1
    print(f"{len(first) - 1} cases compared", file=sys.stderr)
    print("SAME")
    return 0


if __name__ == "__main__":
    sys.exit(main())
