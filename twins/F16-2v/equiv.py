#!/usr/bin/env python
"""Differential test for property C16 (the saved report states exactly what was computed).

usage: python equiv.py <clean_repo_dir> <patched_repo_dir>

The same deterministic set of inputs is run against both trees, each tree in its own
subprocess (module names collide).  Compared, case by case:

  S1  save_results_to_file called directly: random result dictionaries (None, empty lists,
      long float vectors, inf/nan, odd messages, objects with their own __format__/__eq__),
      malformed ones (missing keys, non-dicts), many file names (underscores, digits, several
      dots, no dot, hidden, directories, trailing slash, unicode), with and without an
      existing outputs/ directory or an existing report -> exception type+message and every
      file below the working directory byte for byte.
  S2  read_dict_from_file: generated input files (valid games in several layouts, comments,
      non-dicts, syntax errors, empty, missing, directory, expressions that look at the names
      visible to eval) -> repr of the value or exception type+message.
  S3  main() in process with sys.argv set and time.time replaced by a deterministic clock:
      random input files of 0-3 random games (all three state kinds, cycles, parallel edges,
      several finals, malformed games) with / without -s, option spellings, usage errors,
      --help -> SystemExit code, exception, stdout, stderr, log records, report bytes.
  S4  the real command line (python conditionalrewards.py ...) on the small shipped inputs,
      with the log levels; "Total time" lines and asctime stamps masked.

Prints SAME and exits 0 when nothing differs; prints the first difference and exits 1 otherwise.
"""
import json
import os
import re
import shutil
import subprocess
import sys
import tempfile

DRIVER = r'''
import contextlib, hashlib, io, json, logging, os, random, signal, sys, traceback

tree, out_path, work = sys.argv[1], sys.argv[2], sys.argv[3]
sys.path.insert(0, tree)
os.chdir(work)
import time as _time
import conditionalrewards as cr

RESULTS = []
def record(case, outcome):
    RESULTS.append([case, outcome])

class ListHandler(logging.Handler):
    def __init__(self):
        super().__init__()
        self.lines = []
    def emit(self, rec):
        self.lines.append(rec.levelname + "|" + rec.getMessage())
LH = ListHandler()
logging.basicConfig(level=logging.INFO, handlers=[LH])

def exc_str(e):
    return type(e).__name__ + ": " + str(e)

def snapshot(root):
    snap = {}
    for dirpath, dirnames, filenames in os.walk(root):
        dirnames.sort()
        for fn in sorted(filenames):
            p = os.path.join(dirpath, fn)
            with open(p, "rb") as fh:
                data = fh.read()
            rel = os.path.relpath(p, root)
            snap[rel] = [len(data), hashlib.sha256(data).hexdigest(), data[:4000].decode("utf-8", "backslashreplace")]
        if not filenames and not dirnames:
            snap[os.path.relpath(dirpath, root) + "/"] = "emptydir"
    return snap

class Timeout(Exception):
    pass
def _alarm(signum, frame):
    raise Timeout()
signal.signal(signal.SIGALRM, _alarm)

# ------------------------------------------------------------------ value generators
class Fmt:
    def __format__(self, spec): return "FMT<" + spec + ">"
    def __str__(self): return "STR"
    def __repr__(self): return "REPR"
class BadEq:
    def __eq__(self, other): raise ValueError("no eq")
    def __repr__(self): return "BadEq()"
class NeverEq:
    def __eq__(self, other): return "maybe"
    def __repr__(self): return "NeverEq()"
class ItemsObj:
    def __init__(self, pairs, gen): self.pairs, self.gen = pairs, gen
    def items(self):
        return (p for p in self.pairs) if self.gen else list(self.pairs)

ACTIONS = ["a", "b", "alfa", "beta", "gamma_1", " ", "", "up", "down", "l'eft", 'q"uote', "\\n"]
def rnd_float(r):
    k = r.random()
    if k < 0.1: return r.choice([0, 1, 0.0, 1.0, -0.0, float("inf"), float("-inf"), float("nan"), 1e-300, 1e300, 5e-324])
    if k < 0.3: return r.randint(0, 1000)
    if k < 0.5: return r.random()
    if k < 0.7: return r.random() * 10 ** r.randint(-12, 12)
    return r.randint(0, 10**6) / r.choice([3, 7, 8, 10, 1000, 4096])
def rnd_vector(r):
    k = r.random()
    if k < 0.08: return None
    if k < 0.16: return []
    if k < 0.22: return 0
    n = r.choice([1, 2, 3, 5, 8, 20, 300, 1500]) if r.random() < 0.3 else r.randint(1, 9)
    return [rnd_float(r) for _ in range(n)]
def rnd_strategies(r, n=None):
    k = r.random()
    if k < 0.12: return None
    if k < 0.2: return []
    n = n if n is not None else r.randint(1, 9)
    out = []
    for _ in range(n):
        k = r.random()
        if k < 0.4: out.append(None)
        elif k < 0.5: out.append([])
        else: out.append([r.choice(ACTIONS) for _ in range(r.randint(1, 3))])
    return out
MSGS = ["Game solved", "Game not solved",
        "Error while solving the game: The game has no solution. The initial state has a reach probability of 0.",
        "Error while solving the game: max() arg is an empty sequence",
        "Error while solving the game: Missing transitions", "", " ", "two\nlines", "tab\there", "{braces} %s %d",
        "unicode \u00e9\u00f1 \u2713", None, 0, "=" * 160, "trailing space ", "\r\n"]
KEYS = ["n_states", "n_transitions", "n_iterations_reach", "n_iterations_rew", "reachability_strategies",
        "final_strategies", "total_time", "msg", "rewards", "rew_min_reach", "probabilities", "prob_min_rew"]
def rnd_entry(r):
    reach = rnd_strategies(r)
    k = r.random()
    if k < 0.35: final = reach
    elif k < 0.5: final = None if reach is None else [None if s is None else list(s) for s in reach]
    else: final = rnd_strategies(r, None if not reach else len(reach))
    e = {
        "n_states": r.choice([0, 1, 2, 7, 10, 400, 10**9]),
        "n_transitions": r.randint(0, 5000),
        "n_iterations_reach": r.choice([0, 1, 2, 17, 123456]),
        "n_iterations_rew": r.choice([0, 1, 2, 33, 999999]),
        "reachability_strategies": reach,
        "final_strategies": final,
        "total_time": r.choice([0.0, 2.1457672119140625e-05, 0.0002548694610595703, 1.5, 123.456789012345, 1e-07, 3]),
        "msg": r.choice(MSGS),
        "rewards": rnd_vector(r),
        "rew_min_reach": rnd_vector(r),
        "probabilities": rnd_vector(r),
        "prob_min_rew": rnd_vector(r),
    }
    if r.random() < 0.5:       # other key orders, as a dict need not be built in one order
        items = list(e.items()); r.shuffle(items); e = dict(items)
    return e
def rnd_name(r):
    base = r.choice(["game", "game_5_4", "g", "robot_47_w10_l5_r6_rb10_lb10_tb10_lt30", "a_b_c_1_2_3", "007", "_",
                     "x.y", "with space", "\u00e9t\u00e9", "", "UPPER_lower_9"])
    if r.random() < 0.3: base += "_" + str(r.randint(0, 99))
    if r.random() < 0.4: base += "_no_prune"
    return base
def rnd_results(r):
    n = r.choice([0, 0, 1, 1, 2, 3, 4, 6])
    res = {}
    for i in range(n):
        name = rnd_name(r)
        if name in res: name += "#" + str(i)
        res[name] = rnd_entry(r)
    return res
DIRS = ["", "", "inputs/", "/abs/path/", "./", "../x/", "a.b/", "in.puts/deep.er/", "//", "inputs\\"]
STEMS = ["example_games", "robot_47_w10_l5_r6_rb10_lb10_tb10_lt30_force_down", "manual_robot_Roborta_1_w4_l4_r5_rb10_lb10_tb10_",
         "x", "X_1", "123", "_", "__init__", "a b", "\u00e9t\u00e9_7", "name-with-dash", "", "robot_1_w1_l2_r6_rb10_lb5_tb10_lt0"]
EXTS = ["", ".py", ".py", ".py", ".txt", ".tar.gz", ".", "..py", ".py.bak", ".PY", "._"]
def rnd_file_name(r):
    k = r.random()
    if k < 0.04: return r.choice(["", "/", ".", "..", ".hidden", ".hidden.py", "dir/", "a/.b/c", "no_dot_at_all", "./.py"])
    return r.choice(DIRS) + (r.choice([".", ""]) if r.random() < 0.05 else "") + r.choice(STEMS) + r.choice(EXTS)

# ------------------------------------------------------------------ S1
def run_save(case, results, file_name, outputs_mode):
    d = os.path.join(work, "s1", case)
    os.makedirs(d)
    if outputs_mode != "missing":
        os.makedirs(os.path.join(d, "outputs"))
    if outputs_mode == "stale":
        stem = file_name.split("/")[-1].split(".")[0] if isinstance(file_name, str) else "x"
        with open(os.path.join(d, "outputs", stem + ".txt"), "w") as fh:
            fh.write("STALE CONTENT THAT IS LONGER THAN NOTHING\n" * 50)
        with open(os.path.join(d, "outputs", "other.txt"), "w") as fh:
            fh.write("untouched\n")
    os.chdir(d)
    try:
        try:
            ret = cr.save_results_to_file(results, file_name)
            out = "ret=" + repr(ret)
        except BaseException as e:
            out = "EXC " + exc_str(e)
    finally:
        os.chdir(work)
    record("S1/" + case, [repr(file_name), out, snapshot(d)])
    shutil_rmtree(d)

def shutil_rmtree(d):
    import shutil
    shutil.rmtree(d, ignore_errors=True)

def section_s1():
    r = random.Random(160016)
    for i in range(1100):
        results = rnd_results(r)
        fname = rnd_file_name(r)
        mode = r.choice(["fresh", "fresh", "fresh", "stale", "missing"])
        run_save("rand%04d" % i, results, fname, mode)
    # every file name shape with a fixed small result and with no result at all
    fixed = {"g_1": rnd_entry(random.Random(1)), "g_1_no_prune": rnd_entry(random.Random(2))}
    k = 0
    for dname in DIRS:
        for stem in STEMS:
            for ext in EXTS:
                k += 1
                if k % 3 == 0:
                    run_save("name%04d" % k, fixed if k % 2 else {}, dname + stem + ext, "fresh" if k % 5 else "stale")
    # malformed result dictionaries and odd values: same exception, same partial file
    r = random.Random(77)
    for i, key in enumerate(KEYS):
        for j in range(3):
            res = rnd_results(r) or {"only": rnd_entry(r)}
            res["last_" + str(j)] = rnd_entry(r)
            victim = r.choice(list(res))
            del res[victim][key]
            run_save("missing_%s_%d" % (key, j), res, "inputs/mal_%d.py" % i, r.choice(["fresh", "stale"]))
    odd_values = [Fmt(), BadEq(), NeverEq(), (1, 2), {"a": 1}, {1, }, b"bytes", 1 + 2j, True, False, range(3), "text", 3.0, float("nan")]
    for i, v in enumerate(odd_values):
        for key in KEYS:
            e = rnd_entry(random.Random(i))
            e[key] = v
            run_save("odd_%02d_%s" % (i, key), {"first": rnd_entry(random.Random(5)), "odd": e, "after": rnd_entry(random.Random(6))},
                     "inputs/odd.py", "fresh")
    e1, e2 = rnd_entry(random.Random(11)), rnd_entry(random.Random(12))
    non_dicts = [None, [], [("a", e1)], "text", 5, {"a": None}, {"a": []}, {"a": "str"}, {"a": e1, "b": 7}, {1: e1, None: e2, (1, 2): e1},
                 ItemsObj([], False), ItemsObj([], True), ItemsObj([("a", e1), ("b", e2)], False), ItemsObj([("a", e1), ("b", e2)], True),
                 ItemsObj([("a", e1), "xy", ("c", e2)], True), ItemsObj([("a", e1), ("b",)], False), {Fmt(): e1}]
    for i, nd in enumerate(non_dicts):
        for mode in ["fresh", "stale", "missing"]:
            run_save("nondict_%02d_%s" % (i, mode), nd, "inputs/nd.py", mode)
    for i, fn in enumerate([None, 5, b"inputs/x.py", ["inputs/x.py"], ("a",), 1.5]):
        run_save("badname_%d" % i, {"g": e1}, fn, "fresh")

# ------------------------------------------------------------------ random games
P1, P2, PR = "Player 1", "Player 2", "Probabilistic"
def rnd_game(r, malformed=True):
    n = r.randint(1, 7)
    good, bad = n, n + 1          # two absorbing sinks appended
    total = n + 2
    players = [r.choice([P1, P2, PR, PR]) for _ in range(n)] + [PR, PR]
    rewards, trans = [], []
    for i in range(n):
        if players[i] == PR:
            rewards.append(r.choice([0, 0, 1, 2, 5, 10, 0.5, 5 / 3]))
            k = r.randint(1, 3)
            leak = r.choice([(0.1, good), (0.2, good), (0.125, good), (0.25, good)])
            rest = 1 - leak[0]
            parts = [rest] if k == 1 else ([rest / 2, rest / 2] if k == 2 else [rest / 2, rest / 4, rest / 4])
            t = [(p, r.randrange(total)) for p in parts] + [leak]
            if r.random() < 0.3:
                t = [(p / 2, s) for p, s in t] + [(p / 2, bad if r.random() < 0.5 else s) for p, s in t]
            r.shuffle(t)
            trans.append(t)
        else:
            rew = r.choice([0, 0, 0, 1, 3, 7])
            rewards.append(rew)
            cands = [j for j in range(total) if players[j] == PR] if rew else list(range(total))
            k = r.randint(1, 3)
            trans.append([(r.choice(ACTIONS[:9]) if r.random() < 0.3 else "act_%d" % a, r.choice(cands)) for a in range(k)])
    rewards += [0, 0]
    trans += [[(1, good)], [(1, bad)]]
    finals = [good] + ([r.randrange(n)] if r.random() < 0.3 else [])
    g = {"rewards": rewards, "players": players, "transition_list": trans, "final_states": finals}
    if malformed and r.random() < 0.3:
        k = r.randrange(16)
        if k == 0: g["final_states"] = []
        elif k == 1: g["final_states"] = [total]
        elif k == 2: g["final_states"] = [-1]
        elif k == 3: g["rewards"] = rewards[:-1]
        elif k == 4: g["rewards"] = [-1] + rewards[1:]
        elif k == 5: g["players"] = ["Player 3"] + players[1:]
        elif k == 6: g["transition_list"] = trans[:-1]
        elif k == 7: g["transition_list"] = [None] + trans[1:]
        elif k == 8: g["transition_list"] = [[]] + trans[1:]
        elif k == 9: g["transition_list"] = [tuple(trans[0])] + trans[1:]
        elif k == 10: g["transition_list"] = [[list(trans[0][0])]] + trans[1:]
        elif k == 11: g["transition_list"] = [[trans[0][0] + (1,)]] + trans[1:]
        elif k == 12: g["transition_list"] = [[(trans[0][0][0], total + 3)]] + trans[1:]
        elif k == 13: g["transition_list"] = [[(trans[0][0][0], "1")]] + trans[1:]
        elif k == 14: g["transition_list"] = [[(None, 0)]] + trans[1:]
        elif k == 15:                       # initial state cannot reach a final state
            g["players"][0] = PR; g["transition_list"][0] = [(1, bad)]
    return g

def game_text(r, games):
    style = r.randrange(5)
    if style == 0:
        return repr(games)
    if style == 1:
        return "\n" + repr(games) + "\n\n"
    if style == 2:
        import pprint
        return "# generated\n" + pprint.pformat(games, width=r.choice([40, 80, 200])) + "\n# end\n"
    lines = ["{"]
    for name, g in games.items():
        lines.append("    %r: {" % name)
        for key, val in g.items():
            if key == "transition_list" and isinstance(val, list):
                lines.append("        %r: [" % key)
                for idx, t in enumerate(val):
                    lines.append("            %r,  # state %d" % (t, idx))
                lines.append("            ],")
            else:
                lines.append("        %r: %r," % (key, val))
        lines.append("    },")
    lines.append("}")
    text = "\n".join(lines)
    if style == 4:
        text = "\n\n# games\n" + text.replace("\n", "\n\n") + "\n# eof"
    return text + "\n"

# ------------------------------------------------------------------ S2
SCOPE_PROBES = [
    '{"a": len(contents)}', '{"a": file_name}', '{"a": file.name, "b": file.closed, "m": file.mode}', '{"a": dictionary}',
    '{"a": os.getcwd()}', '{"a": sys.argv}', '{"a": copy.copy([1])}', '{"a": StochasticGame.__name__}', '{"a": time.__name__}',
    '{"a": logging.INFO, "b": argparse.__name__}', '{"a": __name__}', '{"l": sorted(locals())}', '{"g": sorted(globals())}',
    '{"a": read_dict_from_file.__name__, "b": sorted(k for k in dir() )}', '{"a": [contents for _ in range(1)]}',
    '{"a": (lambda: file_name)()}', '{"a": save_results_to_file.__code__.co_argcount, "b": main.__code__.co_argcount}',
    '{"a": parser}', '{"a": parsed_args}', '{"a": my_dict}', '{"a": json}', '{"a": re}', '{"a": Path}', '{"a": pathlib}', '{"a": ast}',
    '{"a": collections}', '{"a": namedtuple}', '{"a": math}', '{"a": io}', '{"a": functools}', '{"a": itertools}', '{"a": operator}',
    '{"a": result}', '{"a": data}', '{"a": text}', '{"a": source}', '{"a": path}', '{"a": handle}', '{"a": fh}', '{"a": f}', '{"a": value}',
    '{"a": games}', '{"a": games_dict}', '{"a": name}', '{"a": stem}', '{"a": self}',
    '(x := {"a": 1})', '{"a": init_parser().prog}', '{"a": set_logger(None)}', '{"a": run_games({})}',
]
NON_DICTS = ['[]', '[1, 2]', '()', '("a", 1)', '5', '"text"', 'None', 'True', '{1, 2}', 'set()', 'dict', 'lambda: {}', '3.5', 'b"x"',
             '[{"a": 1}]', '({"a": 1},)', 'frozenset()', 'range(3)', '{}.items()', '{"a": 1}.keys()', 'type("D", (dict,), {})()',
             '__import__("collections").OrderedDict(a=1)', '__import__("collections").defaultdict(list)',
             '__import__("collections").UserDict(a=1)', '__import__("types").MappingProxyType({"a": 1})', '{} or None', '{} and 5']
BROKEN = ['', ' ', '\n', '\n\n# only a comment\n', '{', '}', '{"a": }', '{"a": 1,, }', 'x = {"a": 1}', 'import os', '{"a": 1}\n{"b": 2}',
          '{"a": 1} {"b": 2}', 'return {}', '{"a": 1/0}', '{"a": undefined_name}', '{"a": [}', '  {"a": 1}', '\t{"a": 1}', '{"a": 1};',
          '{"a": "unterminated}', '{"a": 1}\x00', 'raise ValueError("boom")', '{"a": int("x")}', '{"a": [][0]}', '{"a": {}["k"]}',
          '{[]: 1}', '{"a": (yield)}', '{"a": 1} if', '\ufeff{"a": 1}', '{"a": 0777}', '(' * 300 + ')' * 300, 'pass', '...', '{**{"a": 1}}',
          '{"a": 1, **{"b": 2}, "a": 3}', '{"dup": 1, "dup": 2}', '{1: "int key", None: 2, (1, 2): 3}', '{}']
def run_read(case, path):
    try:
        val = cr.read_dict_from_file(path)
        out = "VAL " + type(val).__name__ + " " + repr(val) + " order=" + repr(list(val))
    except BaseException as e:
        out = "EXC " + exc_str(e)
        if isinstance(e, SyntaxError):
            out += " | %r %r %r %r" % (e.filename, e.lineno, e.offset, e.text)
    record("S2/" + case, out)

def section_s2():
    d = os.path.join(work, "s2")
    os.makedirs(d)
    r = random.Random(2016)
    n = 0
    def put(text, name=None, binary=None):
        nonlocal n
        n += 1
        p = os.path.join(d, name or ("in_%04d.py" % n))
        if binary is not None:
            with open(p, "wb") as fh: fh.write(binary)
        else:
            with open(p, "w", encoding="utf-8") as fh: fh.write(text)
        return p
    for i in range(350):
        games = {}
        for j in range(r.choice([0, 1, 1, 2, 3, 5])):
            games[rnd_name(r) + "_%d" % j] = rnd_game(r)
        run_read("games%03d" % i, put(game_text(r, games), r.choice([None, "robot_%d_w2_l2.py" % i, "x%d" % i, "a.b.c%d.py" % i])))
    for i, t in enumerate(SCOPE_PROBES): run_read("scope%02d" % i, put(t, "probe_%02d.py" % i))
    for i, t in enumerate(NON_DICTS): run_read("nondict%02d" % i, put(t))
    for i, t in enumerate(BROKEN): run_read("broken%02d" % i, put(t))
    run_read("crlf", put("", binary=b'{\r\n"a": 1,\r\n"b": [\r\n(0.5, 1)]}\r\n'))
    run_read("latin1", put("", binary=b'{"a": "\xe9"}'))
    run_read("utf8", put("", binary='{"a": "\u00e9\u2713"}'.encode("utf-8")))
    run_read("missing", os.path.join(d, "does_not_exist.py"))
    run_read("directory", d)
    run_read("empty_name", "")
    for i, bad in enumerate([None, 5, 3.5, [], b"x", ("a",)]):
        run_read("badarg%d" % i, bad)
    # relative paths
    os.chdir(d)
    try:
        run_read("relative", "probe_01.py"); run_read("relative_dot", "./probe_01.py")
    finally:
        os.chdir(work)

# ------------------------------------------------------------------ S3
class Clock:
    def __init__(self, seed):
        self.r = random.Random(seed); self.t = 1.7e9 + self.r.random()
    def __call__(self):
        k = self.r.random()
        self.t += 1e-5 * self.r.random() if k < 0.4 else (self.r.random() if k < 0.8 else 100 * self.r.random())
        return self.t

class FakeTime:
    """Stands in for the time module inside conditionalrewards only (logging keeps the real clock)."""
    def __init__(self, clock): self.time = clock
    def __getattr__(self, name): return getattr(_time, name)

def run_main(case, argv, d, seed, timeout=3):
    os.chdir(d)
    LH.lines = []
    old_argv, old_time = sys.argv, cr.time
    sys.argv = ["conditionalrewards.py"] + list(argv)
    cr.time = FakeTime(Clock(seed))
    so, se = io.StringIO(), io.StringIO()
    try:
        with contextlib.redirect_stdout(so), contextlib.redirect_stderr(se):
            signal.alarm(timeout)
            try:
                ret = cr.main()
                out = "ret=" + repr(ret)
            except Timeout:
                out = "TIMEOUT"
            except SystemExit as e:
                out = "EXIT " + repr(e.code)
            except BaseException as e:
                out = "EXC " + exc_str(e)
            finally:
                signal.alarm(0)
    finally:
        sys.argv, cr.time = old_argv, old_time
        os.chdir(work)
    if out == "TIMEOUT":
        record("S3/" + case, "TIMEOUT")          # both time out = same; partial state is timing dependent
        return True
    record("S3/" + case, [out, so.getvalue(), se.getvalue(), list(LH.lines), snapshot(d)])
    return False

def section_s3():
    r = random.Random(31416)
    timeouts = 0
    for i in range(330):
        d = os.path.join(work, "s3", "c%03d" % i)
        os.makedirs(os.path.join(d, "inputs"))
        if r.random() < 0.9:
            os.makedirs(os.path.join(d, "outputs"))
        games = {}
        for j in range(r.choice([0, 1, 1, 1, 2, 2, 3])):
            games[rnd_name(r) + "_%d" % j] = rnd_game(r)
        if games and r.random() < 0.08:
            victim = r.choice(list(games)); del games[victim][r.choice(list(games[victim]))]
        if games and r.random() < 0.05:
            games[r.choice(list(games))]["extra_key"] = 1
        fname = r.choice(["inputs/", "", "./inputs/"]) + r.choice(STEMS[:11] + ["robot_%d_w%d_l%d_r6_rb10" % (i, i % 7, i % 5)]) + r.choice(EXTS)
        text = game_text(r, games)
        if r.random() < 0.06: text = r.choice(NON_DICTS + BROKEN)
        target = os.path.join(d, fname)
        if fname.endswith("/") or os.path.basename(fname) == "":
            fname = fname + "fallback.py"; target = os.path.join(d, fname)
        with open(target, "w", encoding="utf-8") as fh:
            fh.write(text)
        if r.random() < 0.15:
            fname = os.path.abspath(target)
        k = r.random()
        if k < 0.7: argv = ["-f", fname, "-s"]
        elif k < 0.75: argv = ["-s", "--file", fname]
        elif k < 0.8: argv = ["--file=" + fname, "--save_results"]
        elif k < 0.85: argv = ["-f" + fname, "-s"]
        elif k < 0.9: argv = ["-f", fname]
        elif k < 0.93: argv = ["--fi", fname, "--save"]
        elif k < 0.96: argv = ["-sf", fname]
        else: argv = ["-f", "ignored_first.py", "-f", fname, "-s", "-s"]
        timeouts += run_main("rand%03d" % i, argv, d, i)
    # argument handling
    d = os.path.join(work, "s3", "args")
    os.makedirs(os.path.join(d, "outputs"))
    with open(os.path.join(d, "ok.py"), "w") as fh:
        fh.write(repr({"g": rnd_game(random.Random(3), malformed=False)}))
    arg_sets = [[], ["-h"], ["--help"], ["-s"], ["-f"], ["-f", "ok.py", "-x"], ["ok.py"], ["-f", "ok.py", "extra"], ["-l", "i"],
                ["-f", "ok.py", "-l"], ["-f", "ok.py", "-l", "nope"], ["-f", "ok.py", "-l", "nope", "-s"], ["-f", "ok.py", "-l", ""],
                ["-f", "ok.py", "--log_level", "INFOX"], ["-f", "ok.py", "--log", "x"], ["-f", "ok.py", "--save_results=1"],
                ["-f", "ok.py", "-s", "-h"], ["-f", "missing.py", "-s"], ["-f", "", "-s"], ["-f", ".", "-s"], ["--file"], ["--f", "ok.py"],
                ["-f", "ok.py", "--s"], ["-f", "ok.py", "--l", "zz"], ["-f", "ok.py", "-s", "--", "x"], ["-f", "ok.py", "-ls"],
                ["-f", "ok.py", "-l", "i", "-s"], ["-f", "ok.py", "-l", "dd"], ["-f", "ok.py", "-l", "DEBUG", "-s"], ["-f", "ok.py", "-s"]]
    for i, a in enumerate(arg_sets):
        timeouts += run_main("args%02d" % i, a, d, 1000 + i)
    # parser object itself
    p = cr.init_parser()
    record("S3/parser", [p.prog, p.description, p.format_help(), p.format_usage(),
                         [(a.option_strings, a.dest, a.required, a.default, a.help, type(a).__name__, repr(a.type), a.nargs, a.const) for a in p._actions],
                         repr(vars(p.parse_args(["-f", "z"]))), repr(vars(p.parse_args(["-f", "z", "-s", "-l", "d"])))])
    record("S3/timeouts", "n/a")
    sys.__stderr__.write("timeouts: %d\n" % timeouts)

section_s1()
section_s2()
section_s3()
with open(out_path, "w") as fh:
    json.dump(RESULTS, fh)
'''

MASKS = [
    (re.compile(r"^(Total time\s*: ).*$", re.M), r"\1<T>"),
    (re.compile(r"^\d{4}-\d\d-\d\d \d\d:\d\d:\d\d,\d{3}", re.M), "<STAMP>"),
    (re.compile(r"(- Total time\s*: ).*$", re.M), r"\1<T>"),
]


def mask(text):
    for rx, rep in MASKS:
        text = rx.sub(rep, text)
    return text


def strip_traceback_frames(text):
    """The frames of a traceback quote source lines (legitimately different between the trees):
    keep the header and the final 'Type: message' line, drop the indented frame lines."""
    out, in_tb = [], False
    for line in text.splitlines(True):
        if line.startswith("Traceback (most recent call last):"):
            in_tb = True
            out.append(line)
        elif in_tb and line.startswith(" "):
            continue
        else:
            in_tb = False
            out.append(line)
    return "".join(out)


def cli_cases(tree):
    """S4: the real command line on shipped inputs (run inside a copy of the tree's inputs)."""
    small = ["example_17_08.py", "example_games.py", "paper_games.py", "manual_1_game_a.py", "manual_arrow_bottom.py",
             "robot_1_w1_l2_r6_rb10_lb5_tb10_lt0.py", "robot_1_w2_l1_r6_rb10_lb5_tb10_lt0.py",
             "robot_1_w2_l2_r6_rb10_lb5_tb10_lt0.py", "robot_999132423_w3_l3_r6_rb1_lb2_tb10_lt30.py",
             "robot_999132423_w3_l3_r6_rb1_lb2_tb10_lt30_force_down.py",
             "manual_robot_Roborta_1_w4_l4_r5_rb10_lb10_tb10_.py"]
    cases = [["-f", "inputs/" + s, "-s"] for s in small]
    cases += [["-f", "inputs/example_games.py", "-s", "-l", "i"], ["-f", "inputs/paper_games.py", "-s", "-l", "INFO"],
              ["-f", "inputs/example_17_08.py", "-s", "-l", "d"], ["-f", "inputs/example_17_08.py", "-l", "dd", "-s"],
              ["-f", "inputs/example_games.py", "-l", "i"], ["-f", "inputs/example_games.py"],
              ["-f", "inputs/example_games.py", "-s", "-l", "bogus"], ["-h"], [], ["-f", "inputs/none.py", "-s"],
              ["--save_results", "--file", "./inputs/paper_games.py", "--log_level", "DEBUG"]]
    return cases


def run_cli(tree, workdir):
    out = []
    env = dict(os.environ, COLUMNS="80", PYTHONHASHSEED="0", PYTHONDONTWRITEBYTECODE="1")
    src_inputs = os.path.join(tree, "inputs")
    for i, argv in enumerate(cli_cases(tree)):
        d = os.path.join(workdir, "cli%02d" % i)
        os.makedirs(os.path.join(d, "outputs"))
        shutil.copytree(src_inputs, os.path.join(d, "inputs"),
                        ignore=lambda p, names: [n for n in names if os.path.getsize(os.path.join(p, n)) > 25000])
        p = subprocess.run([sys.executable, os.path.join(tree, "conditionalrewards.py")] + argv, cwd=d, env=env,
                           capture_output=True, timeout=60)
        files = {}
        for fn in sorted(os.listdir(os.path.join(d, "outputs"))):
            with open(os.path.join(d, "outputs", fn), "rb") as fh:
                files[fn] = mask(fh.read().decode("utf-8", "backslashreplace"))
        so = mask(p.stdout.decode("utf-8", "backslashreplace")).replace(tree, "<TREE>")
        se = mask(p.stderr.decode("utf-8", "backslashreplace")).replace(tree, "<TREE>")
        se = strip_traceback_frames(se)
        out.append(["S4/" + " ".join(argv), [p.returncode, so, se, files]])
        shutil.rmtree(d, ignore_errors=True)
    return out


def run_tree(tree, tag, tmp):
    tree = os.path.abspath(tree)
    work = os.path.join(tmp, tag)
    os.makedirs(work)
    driver = os.path.join(tmp, "driver_%s.py" % tag)
    with open(driver, "w") as fh:
        fh.write(DRIVER)
    out_path = os.path.join(tmp, "out_%s.json" % tag)
    env = dict(os.environ, COLUMNS="80", PYTHONHASHSEED="0", PYTHONDONTWRITEBYTECODE="1")
    p = subprocess.run([sys.executable, driver, tree, out_path, work], env=env, capture_output=True, timeout=110)
    if p.returncode != 0 or not os.path.exists(out_path):
        raise RuntimeError("driver failed for %s\n%s\n%s" % (tree, p.stdout.decode()[-3000:], p.stderr.decode()[-3000:]))
    with open(out_path) as fh:
        results = json.load(fh)
    info = p.stderr.decode("utf-8", "backslashreplace").strip().splitlines()[-1:]
    results = [[c, json.loads(json.dumps(o).replace(work, "<WORK>").replace(tree, "<TREE>"))] for c, o in results]
    results += run_cli(tree, work)
    return results, info


def first_difference(a, b, path=""):
    if type(a) != type(b):
        return path, a, b
    if isinstance(a, dict):
        for k in sorted(set(a) | set(b)):
            if k not in a or k not in b:
                return path + "/" + k, a.get(k, "<absent>"), b.get(k, "<absent>")
            d = first_difference(a[k], b[k], path + "/" + k)
            if d:
                return d
        return None
    if isinstance(a, list):
        if len(a) != len(b):
            return path + "/len", len(a), len(b)
        for i, (x, y) in enumerate(zip(a, b)):
            d = first_difference(x, y, path + "[%d]" % i)
            if d:
                return d
        return None
    if a != b:
        if isinstance(a, str):
            i = next((i for i, (x, y) in enumerate(zip(a, b)) if x != y), min(len(a), len(b)))
            return path + "@%d" % i, a[max(0, i - 80):i + 80], b[max(0, i - 80):i + 80]
        return path, a, b
    return None


def main():
    if len(sys.argv) != 3:
        print(__doc__)
        sys.exit(2)
    tmp = tempfile.mkdtemp(prefix="equiv_F16_")
    try:
        from concurrent.futures import ThreadPoolExecutor
        with ThreadPoolExecutor(2) as pool:      # the two trees run side by side, each in its own processes
            fa = pool.submit(run_tree, sys.argv[1], "clean", tmp)
            fb = pool.submit(run_tree, sys.argv[2], "patched", tmp)
            res_a, info_a = fa.result()
            res_b, info_b = fb.result()
    finally:
        shutil.rmtree(tmp, ignore_errors=True)
    if len(res_a) != len(res_b):
        print("DIFFERENT number of cases", len(res_a), len(res_b))
        sys.exit(1)
    for (ca, oa), (cb, ob) in zip(res_a, res_b):
        if ca != cb:
            print("DIFFERENT case ids", ca, cb)
            sys.exit(1)
        d = first_difference(oa, ob)
        if d:
            print("DIFFERENCE in case", ca, "at", d[0])
            print("  clean  :", repr(d[1])[:1500])
            print("  patched:", repr(d[2])[:1500])
            sys.exit(1)
    print("cases compared: %d (%s / %s)" % (len(res_a), " ".join(info_a), " ".join(info_b)))
    print("SAME")
    sys.exit(0)


if __name__ == "__main__":
    main()
