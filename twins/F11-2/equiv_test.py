#!/usr/bin/env python
"""
Equivalence test for property C11 (generator writes a loadable, proper three-game file).

usage: python equiv_test.py <path-to-patched-root> <path-to-clean-root>

Both trees are exercised in separate subprocesses (same module names), each in its own
scratch directory.  For every parameter set the worker
  * runs the generator's command line (roberta_generator.main) or the manual entry point
    (stochastic_game_from_roborta_board.create_sg_from_board),
  * records whether the parameters were accepted (exception type + message otherwise),
  * records the names of the files that appeared in inputs/ and the sha256 of their bytes,
  * loads the file with conditionalrewards.read_dict_from_file, checks every clause of the
    property on the loaded games and (for small boards) runs conditionalrewards.run_games,
    recording the messages and the numeric results.
The parent compares the two records.  This variant adds a "# Parameters: ..." comment line
at the top of the files written by the command line, so the comparison is: the file minus
that one leading comment line must be byte-for-byte identical, and the loaded games must be
identical.  The header itself is checked against the parameters of the case.

The new code paths of the patched tree (--output_dir, --verify, the atomic write, the
parameters= argument, the NaN rejection) are exercised in the patched worker only and are
required to produce the very same games / to leave no file behind.
"""
import hashlib
import json
import os
import random
import signal
import subprocess
import sys
import tempfile

HEADER = b"# Parameters: "
# run_games is only run on small boards whose break probabilities are moderate: with a
# break probability very close to 0 or 1 the solver's value iteration can need millions of
# sweeps (in the clean tree as well), which is outside what this comparison is about.  The
# written games themselves are checked and compared for every case.
SOLVE_MAX_TILES = 9
SOLVE_PROB_RANGE = (0.01, 0.9)
SOLVE_SECONDS = 1.5


# ----------------------------------------------------------------------------- cases
def cli_cases():
    cases = []

    def add(seed=0, w=3, l=3, m=6, p=0.1, q=0.1, r=0.1, t=0.3, f=False):
        cases.append(dict(seed=seed, w=w, l=l, m=m, p=p, q=q, r=r, t=t, f=f))

    tiny = [5e-324, 1e-300, 1e-17, 1e-9, 0.004, 0.005]
    near1 = [0.995, 0.996, 1 - 1e-9, 0.9999999999999999]
    # boundaries of the shape
    for w, l in [(1, 1), (1, 2), (2, 1), (1, 7), (7, 1), (2, 2), (3, 3), (2, 5), (5, 2), (4, 4)]:
        for f in (False, True):
            for seed in (0, 1, 2):
                add(seed=seed, w=w, l=l, f=f)
    # boundaries of the probabilities (each of the four, tiny and near 1)
    for f in (False, True):
        for v in tiny + near1:
            add(seed=3, w=2, l=2, p=v, f=f)
            add(seed=3, w=2, l=2, q=v, f=f)
            add(seed=3, w=2, l=2, r=v, t=0.9, f=f)
            add(seed=3, w=2, l=2, t=v, f=f)
        add(seed=4, w=1, l=1, p=5e-324, q=5e-324, r=5e-324, t=0.9999999999999999, f=f)
        add(seed=4, w=1, l=1, p=0.9999999999999999, q=0.9999999999999999,
            r=0.9999999999999999, t=0.9999999999999999, f=f)
        add(seed=4, w=3, l=1, p=0.5, q=0.5, r=0.5, t=0.5, f=f)
    # max reward boundaries
    for m in (1, 2, 6, 30, 64, 1000, 1100):
        add(seed=5, w=3, l=2, m=m)
        add(seed=5, w=1, l=1, m=m, f=True)
    # seed boundaries
    for seed in (0, 1, 2**31, 2**64 + 3, 999132423):
        add(seed=seed, w=3, l=3)
        add(seed=seed, w=3, l=3, f=True)
    # larger boards (structure only, not solved)
    add(seed=47, w=10, l=5)
    add(seed=47, w=10, l=5, f=True)
    add(seed=40, w=20, l=10, f=True)
    add(seed=7, w=1, l=40, t=0.9)
    add(seed=7, w=40, l=1, t=0.9, f=True)
    # random accepted sets
    rnd = random.Random(20261004)
    for _ in range(260):
        w = rnd.choice([1, 1, 2, 2, 3, 3, 4, 5, 6])
        l = rnd.choice([1, 1, 2, 2, 3, 3, 4, 5, 6])

        def prob():
            k = rnd.random()
            if k < 0.15:
                return 10 ** -rnd.uniform(2, 18)
            if k < 0.3:
                return 1 - 10 ** -rnd.uniform(2, 15.9)
            return rnd.uniform(0.01, 0.99)
        add(seed=rnd.randrange(0, 10**6), w=w, l=l, m=rnd.choice([1, 2, 3, 6, 6, 10, 40]),
            p=prob(), q=prob(), r=prob(), t=prob(), f=rnd.random() < 0.5)
    # rejected sets: acceptance must be the same in both trees
    add(seed=-1)
    add(w=0)
    add(w=-3)
    add(l=0)
    add(l=-1)
    add(m=0)
    add(m=-2)
    for name in "pqrt":
        for v in (0.0, 1.0, -0.1, 1.5, -0.0, 2.0):
            add(w=2, l=2, **{name: v})
    return cases


def manual_cases():
    """Boards passed in by hand through the manual entry point."""
    cases = []

    def add(moves, rewards, loose, p=0.1, q=0.1, r=0.1):
        cases.append(dict(moves=moves, rewards=rewards, loose=loose, p=p, q=q, r=r))

    add([[1]], [[0]], [[0]])
    add([[3]], [[5]], [[1]])
    add([[0]], [[2]], [[1]], p=5e-324, q=0.9999999999999999, r=1e-17)
    add([[2]], [[2]], [[0]])
    add([[0, 1, 2, 3]], [[1, 2, 3, 4]], [[0, 1, 0, 1]])
    add([[0], [1], [2], [3]], [[1], [2], [3], [4]], [[1], [1], [1], [1]])
    add([[3, 3], [3, 3]], [[0, 0], [0, 0]], [[1, 1], [1, 1]])
    add([[1, 1, 1], [1, 1, 1], [1, 1, 1]], [[6, 0, 1], [2, 2, 2], [0, 0, 0]],
        [[0, 0, 0], [0, 0, 0], [0, 0, 0]])
    add([[0, 0], [2, 2]], [[1, 1], [1, 1]], [[1, 0], [0, 1]], p=0.5, q=0.5, r=0.5)
    add([[1, 0, 2, 1], [0, 1, 1, 2], [1, 1, 0, 0], [2, 1, 1, 1]],
        [[0, 1, 0, 5], [1, 0, 2, 0], [0, 0, 1, 1], [3, 0, 0, 0]],
        [[0, 1, 0, 0], [0, 0, 1, 0], [1, 0, 0, 0], [0, 0, 0, 1]])
    rnd = random.Random(11)
    for _ in range(60):
        l = rnd.randint(1, 4)
        w = rnd.randint(1, 4)
        down = rnd.random() < 0.5
        moves = [[rnd.randint(0, 3 if down else 2) for _ in range(w)] for _ in range(l)]
        rewards = [[rnd.randint(0, 9) for _ in range(w)] for _ in range(l)]
        loose = [[rnd.randint(0, 1) for _ in range(w)] for _ in range(l)]
        add(moves, rewards, loose, p=rnd.uniform(0.001, 0.999), q=rnd.uniform(0.001, 0.999),
            r=rnd.uniform(0.001, 0.999))
    return cases


# ----------------------------------------------------------------------------- worker
def check_property(games, tad):
    """Returns a list of violated clauses (empty when the file is proper)."""
    bad = []
    if list(games.keys()) != ["game_a", "game_b", "game_c"]:
        bad.append("names %r" % list(games.keys()))
    for name, game in games.items():
        try:
            if sorted(game.keys()) != ["final_states", "players", "rewards", "transition_list"]:
                bad.append(name + ": keys")
                continue
            sg = tad.StochasticGame(**game)
            sg.check_game()
            sg.init_states()
            n = len(game["players"])
            win, lose = n - 1, n - 2
            if game["final_states"] != [win]:
                bad.append(name + ": final states")
            if game["transition_list"][win] != [(1, win)]:
                bad.append(name + ": winning state not absorbing")
            if game["transition_list"][lose] != [(1, lose)]:
                bad.append(name + ": losing state not absorbing")
            if game["players"][win] != "Probabilistic" or game["players"][lose] != "Probabilistic":
                bad.append(name + ": terminal players")
            for idx, (player, trans) in enumerate(zip(game["players"], game["transition_list"])):
                if len(trans) < 1:
                    bad.append("%s: state %d has no transition" % (name, idx))
                if player == "Probabilistic":
                    if any(not (pr > 0) for pr, _ in trans):
                        bad.append("%s: state %d non-positive probability" % (name, idx))
                    if abs(sum(pr for pr, _ in trans) - 1) > 1e-12:
                        bad.append("%s: state %d probabilities do not sum to 1" % (name, idx))
        except Exception as exc:  # validation failed
            bad.append("%s: %s: %s" % (name, type(exc).__name__, exc))
    return bad


def rounded(x):
    if isinstance(x, float):
        return repr(round(x, 9))
    if isinstance(x, (list, tuple)):
        return [rounded(y) for y in x]
    if isinstance(x, dict):
        return {str(k): rounded(v) for k, v in x.items()}
    return x


class SolveTimeout(BaseException):
    pass


def _on_alarm(signum, frame):
    raise SolveTimeout()


def examine(path, solve, cr, tad):
    rec = {}
    with open(path, "rb") as fh:
        data = fh.read()
    rec["header"] = None
    if data.startswith(HEADER):
        first, data = data.split(b"\n", 1)
        rec["header"] = first.decode()
    rec["sha"] = hashlib.sha256(data).hexdigest()
    rec["size"] = len(data)
    try:
        games = cr.read_dict_from_file(path)
    except Exception as exc:
        rec["load"] = "%s: %s" % (type(exc).__name__, exc)
        return rec
    rec["load"] = "ok"
    rec["games_sha"] = hashlib.sha256(repr(games).encode()).hexdigest()
    rec["violations"] = check_property(games, tad)
    if solve:
        # the driver is run on one game at a time so that a solve that does not finish
        # within SOLVE_SECONDS (this happens in the clean tree too, e.g. for some boards
        # when states are not pruned) only loses that game's numbers
        rec["results"] = {}
        rec["msgs"] = []
        for name, game in games.items():
            signal.setitimer(signal.ITIMER_REAL, SOLVE_SECONDS)
            try:
                results = cr.run_games({name: game})
                signal.setitimer(signal.ITIMER_REAL, 0)
                for res in results.values():
                    res.pop("total_time")
                    rec["msgs"].append(res["msg"])
                rec["results"][name] = rounded(results)
            except SolveTimeout:
                rec["results"][name] = "TIMEOUT"
            except Exception as exc:
                rec["results"][name] = "CRASH %s: %s" % (type(exc).__name__, exc)
            finally:
                signal.setitimer(signal.ITIMER_REAL, 0)
    return rec


class MultiLineRepr:
    def __repr__(self):
        return "array([[1],\n       [2]])\n{'game_z': 1}\r\n"


def new_paths(gen, manual, cr, tad, records):
    """Patched tree only: returns a list of problems found on the new code paths."""
    problems = []
    baseline = {rec["case"]: rec for rec in records}

    def listing():
        found = []
        for base, _, names in os.walk("."):
            found += [os.path.join(base, n) for n in names]
        return sorted(found)

    def wipe():
        for path in listing():
            os.remove(path)

    # 1. --verify and --output_dir on every command line case: same acceptance, same games
    for n, case in enumerate(cli_cases()):
        argv = ["roberta_generator.py", "-s", str(case["seed"]), "-w", str(case["w"]),
                "-l", str(case["l"]), "-m", str(case["m"]), "-p", repr(case["p"]),
                "-q", repr(case["q"]), "-r", repr(case["r"]), "-t", repr(case["t"])]
        if case["f"]:
            argv.append("-f")
        label = " ".join(argv[1:])
        base = baseline[label]
        out_dir = ["alt", "deep/er/dir", "inputs", "trailing/"][n % 4]
        for extra in (["-v"], ["-o", out_dir], ["--verify", "--output_dir", out_dir]):
            wipe()
            sys.argv = argv + extra
            try:
                gen.main()
                accepted = True
            except Exception as exc:
                accepted = "%s: %s" % (type(exc).__name__, exc)
            if accepted != base["accepted"]:
                problems.append("%s %s: accepted %r, baseline %r" % (label, extra, accepted, base["accepted"]))
                continue
            files = listing()
            if accepted is not True:
                if files:
                    problems.append("%s %s: rejected but wrote %r" % (label, extra, files))
                continue
            where = out_dir if "-o" in extra or "--output_dir" in extra else "inputs"
            expected = os.path.normpath(os.path.join(".", where, base["files"][0]))
            if [os.path.normpath(f) for f in files] != [expected]:
                problems.append("%s %s: files %r, expected %r" % (label, extra, files, expected))
                continue
            got = examine(files[0], False, cr, tad)
            want = base["content"][0]
            for key in ("header", "sha", "size", "load", "games_sha", "violations"):
                if got.get(key) != want.get(key):
                    problems.append("%s %s: %s differs from the default run" % (label, extra, key))

    # 2. NaN probabilities are now rejected, nothing is written
    for flag in "pqrt":
        wipe()
        sys.argv = ["roberta_generator.py", "-w", "2", "-l", "2", "-" + flag, "nan"]
        try:
            gen.main()
            problems.append("nan accepted for -" + flag)
        except ValueError:
            pass
        if listing():
            problems.append("nan for -%s left %r" % (flag, listing()))

    # 3. a failing write leaves neither the file nor the temporary file behind and an
    #    older file of the same name survives untouched
    moves, rewards, loose = gen.gen_rnd_board(3, 2, 2, 0.5)
    wipe()
    gen.write_robots("inputs/keep.py", 2, 2, moves, rewards, loose, 0.1, 0.2, 0.3)
    before = open("inputs/keep.py", "rb").read()
    for bad_moves in ([[1, 7], [0, 0]], [[1, 1]], [[1, 1], [1, "x"]]):
        try:
            gen.write_robots("inputs/keep.py", 2, 2, bad_moves, rewards, loose, 0.1, 0.2, 0.3)
            problems.append("bad board %r was written" % (bad_moves,))
        except Exception:
            pass
        if listing() != ["./inputs/keep.py"] or open("inputs/keep.py", "rb").read() != before:
            problems.append("failed write with %r left %r" % (bad_moves, listing()))

    try:  # fails in game_b, after the preamble and game_a have been written
        gen.write_robots("inputs/keep.py", 2, 2, moves, rewards, loose, 0.1, "abc", 0.3)
        problems.append("non numeric probability was written")
    except TypeError:
        pass
    if listing() != ["./inputs/keep.py"] or open("inputs/keep.py", "rb").read() != before:
        problems.append("failed write in game_b left %r" % (listing(),))

    # 4. hostile / odd parameters= values stay inside the comment line
    reference = examine("inputs/keep.py", False, cr, tad)
    for params in ([("note", "x\n{'game_z': 1}\n")], [("a", "\r\nimport os"), ("b", 1.5)],
                   [("u", "\u2028\x0c\x0b{"), ("v", None)], [("w", [1, "\n"])], [], None,
                   [("seed", 0)], (("t", (1, 2)),), [("m", MultiLineRepr()), ("n", 2)]):
        wipe()
        gen.write_robots("inputs/p.py", 2, 2, moves, rewards, loose, 0.1, 0.2, 0.3, params)
        got = examine("inputs/p.py", False, cr, tad)
        if bool(got["header"]) != bool(params):
            problems.append("parameters=%r: header %r" % (params, got["header"]))
        for key in ("sha", "load", "games_sha", "violations"):
            if got.get(key) != reference.get(key):
                problems.append("parameters=%r: %s differs" % (params, key))
        if listing() != ["./inputs/p.py"]:
            problems.append("parameters=%r left %r" % (params, listing()))

    # 5. verify_file returns the games and accepts every manual board; output_dir for the
    #    manual entry point
    for case in manual_cases():
        wipe()
        manual.create_sg_from_board(case["moves"], case["rewards"], case["loose"],
                                    case["p"], case["q"], case["r"], output_dir="hand/made")
        files = listing()
        base = baseline["manual " + repr(case)]
        if [os.path.basename(f) for f in files] != base["files"] or \
                os.path.dirname(files[0]) != "./hand/made":
            problems.append("manual output_dir: %r" % (files,))
            continue
        got = examine(files[0], False, cr, tad)
        if got["sha"] != base["content"][0]["sha"] or got["header"] is not None:
            problems.append("manual output_dir: content differs")
        try:
            games = gen.verify_file(files[0])
            if list(games) != ["game_a", "game_b", "game_c"]:
                problems.append("verify_file returned %r" % list(games))
        except Exception as exc:
            problems.append("verify_file raised %s on a manual board" % exc)
    # verify_file does raise on files that are not proper
    wipe()
    os.makedirs("inputs", exist_ok=True)
    with open("inputs/broken.py", "w") as fh:
        fh.write("{'game_a': {'rewards': [0], 'players': ['Player 1'], 'transition_list': [[]],"
                 " 'final_states': [0]}}")
    try:
        gen.verify_file("inputs/broken.py")
        problems.append("verify_file accepted a broken file")
    except ValueError:
        pass
    wipe()
    return problems


def worker(root, out_path):
    sys.path.insert(0, root)
    scratch = tempfile.mkdtemp(prefix="c11_")
    os.chdir(scratch)
    os.mkdir("inputs")
    os.mkdir("outputs")
    import roberta_generator as gen
    import stochastic_game_from_roborta_board as manual
    import conditionalrewards as cr
    import logging
    import tad
    logging.disable(logging.CRITICAL)
    signal.signal(signal.SIGALRM, _on_alarm)
    assert os.path.dirname(os.path.abspath(gen.__file__)) == os.path.abspath(root)
    assert os.path.dirname(os.path.abspath(cr.__file__)) == os.path.abspath(root)
    records = []

    def run(label, n_tiles, call, probs=(0.1,)):
        solve = n_tiles <= SOLVE_MAX_TILES and \
            all(SOLVE_PROB_RANGE[0] <= pr <= SOLVE_PROB_RANGE[1] for pr in probs)
        for name in os.listdir("inputs"):
            os.remove(os.path.join("inputs", name))
        rec = {"case": label}
        if os.environ.get("C11_TRACE"):
            sys.stderr.write("%s solve=%s\n" % (label[:150], solve))
            sys.stderr.flush()
        try:
            call()
            rec["accepted"] = True
        except SystemExit as exc:
            rec["accepted"] = "SystemExit %r" % (exc.code,)
        except Exception as exc:
            rec["accepted"] = "%s: %s" % (type(exc).__name__, exc)
        files = sorted(os.listdir("inputs"))
        rec["files"] = files
        others = sorted(n for n in os.listdir(".") if n not in ("inputs", "outputs"))
        rec["stray"] = others
        rec["content"] = [examine(os.path.join("inputs", n), solve, cr, tad) for n in files]
        records.append(rec)

    for case in cli_cases():
        argv = ["roberta_generator.py", "-s", str(case["seed"]), "-w", str(case["w"]),
                "-l", str(case["l"]), "-m", str(case["m"]), "-p", repr(case["p"]),
                "-q", repr(case["q"]), "-r", repr(case["r"]), "-t", repr(case["t"])]
        if case["f"]:
            argv.append("-f")

        def call(argv=argv):
            sys.argv = argv
            gen.main()
        run(" ".join(argv[1:]), max(case["w"], 0) * max(case["l"], 0), call,
            (case["p"], case["q"], case["r"]))

    # the default command line
    def call_default():
        sys.argv = ["roberta_generator.py"]
        gen.main()
    run("<defaults>", 9, call_default)

    for case in manual_cases():
        def call(case=case):
            manual.create_sg_from_board(case["moves"], case["rewards"], case["loose"],
                                        case["p"], case["q"], case["r"])
        run("manual " + repr(case), len(case["moves"]) * len(case["moves"][0]), call,
            (case["p"], case["q"], case["r"]))

    # direct calls of the public helpers with positional arguments (signature compatibility)
    def call_direct():
        moves, rewards, loose = gen.gen_rnd_board(9, 2, 3, 0.5, 4, True)
        gen.check_input(9, 3, 2, 0.2, 0.3, 0.5, 0.4, 4)
        gen.write_robots("inputs/direct.py", 2, 3, moves, rewards, loose, 0.4, 0.2, 0.3)
    run("direct", 6, call_direct)

    extras = []
    if hasattr(gen, "verify_file"):
        extras = new_paths(gen, manual, cr, tad, records)
    with open(out_path, "w") as fh:
        json.dump({"records": records, "extras": extras}, fh)


# ----------------------------------------------------------------------------- parent
def check_header(label, header):
    if label.startswith("manual ") or label == "direct":
        return None if header is None else "unexpected header %r" % header
    if header is None:
        return "no parameters header"
    names = ["seed", "width", "length", "max_reward", "prob_robot_break", "prob_light_break",
             "prob_tile_break", "prob_loose_tile", "force_down"]
    try:
        fields = header[len("# Parameters: "):].split(", ")
        got = dict(field.split("=") for field in fields)
        if list(got) != names:
            return "header fields %r" % list(got)
        got = {k: eval(v, {}) for k, v in got.items()}
    except Exception as exc:
        return "unparsable header %r (%s)" % (header, exc)
    if label == "<defaults>":
        want = dict(zip(names, [0, 3, 3, 6, 0.1, 0.1, 0.1, 0.3, False]))
    else:
        words = label.split()
        opts = dict(zip(words[0:16:2], words[1:16:2]))
        want = {"seed": int(opts["-s"]), "width": int(opts["-w"]), "length": int(opts["-l"]),
                "max_reward": int(opts["-m"]), "prob_robot_break": float(opts["-p"]),
                "prob_light_break": float(opts["-q"]), "prob_tile_break": float(opts["-r"]),
                "prob_loose_tile": float(opts["-t"]), "force_down": "-f" in words}
    if got != want or [type(got[k]) for k in names] != [type(want[k]) for k in names]:
        return "header %r does not match the parameters" % header
    return None


def main():
    if len(sys.argv) == 4 and sys.argv[1] == "--worker":
        worker(os.path.abspath(sys.argv[2]), sys.argv[3])
        return 0
    if len(sys.argv) != 3:
        print(__doc__)
        return 2
    patched, clean = os.path.abspath(sys.argv[1]), os.path.abspath(sys.argv[2])
    out = tempfile.mkdtemp(prefix="c11_out_")
    recs = []
    procs = []
    env = dict(os.environ, PYTHONDONTWRITEBYTECODE="1", PYTHONHASHSEED="0")
    for tag, root in (("patched", patched), ("clean", clean)):
        path = os.path.join(out, tag + ".json")
        procs.append((tag, path, subprocess.Popen(
            [sys.executable, os.path.abspath(__file__), "--worker", root, path],
            env=env, stdout=subprocess.PIPE, stderr=subprocess.PIPE, text=True)))
    for tag, path, proc in procs:
        _, err = proc.communicate()
        if proc.returncode != 0:
            print(err[-3000:])
            print("FAIL: worker for %s tree crashed" % tag)
            return 1
        with open(path) as fh:
            loaded = json.load(fh)
        recs.append(loaded["records"])
        if tag == "patched":
            extras = loaded["extras"]
    rp, rc = recs
    failures = ["new code path: " + problem for problem in extras]
    if len(rp) != len(rc):
        failures.append("different number of records")
    n_accepted = n_solved = n_nosol = n_timeouts = 0
    for a, b in zip(rp, rc):
        label = a["case"]
        if a["accepted"] is True:
            n_accepted += 1
            if len(a["files"]) != 1:
                failures.append("%s: patched wrote %r" % (label, a["files"]))
            for content in a["content"]:
                if content.get("load") != "ok":
                    failures.append("%s: patched file does not load: %s" % (label, content.get("load")))
                if content.get("violations"):
                    failures.append("%s: patched violates property: %s" % (label, content["violations"][:3]))
                for gname, res in content.get("results", {}).items():
                    if isinstance(res, str) and res.startswith("CRASH"):
                        failures.append("%s: patched run_games crashed on %s: %s" % (label, gname, res))
                for msg in content.get("msgs", []):
                    if msg == "Game solved":
                        n_solved += 1
                    elif msg.startswith("Error while solving the game: The game has no solution") \
                            or msg == "Game not solved":
                        n_nosol += 1
                    else:
                        failures.append("%s: unexpected message %r" % (label, msg))
        if a["stray"]:
            failures.append("%s: patched left stray files %r" % (label, a["stray"]))
        # a solve that timed out in either tree cannot be compared (the games are)
        for ca, cb in zip(a["content"], b["content"]):
            ra, rb = ca.get("results", {}), cb.get("results", {})
            for gname in set(ra) | set(rb):
                if ra.get(gname) == "TIMEOUT" or rb.get(gname) == "TIMEOUT":
                    n_timeouts += 1
                    ra[gname] = rb[gname] = "TIMEOUT"
                    ca["msgs"] = cb["msgs"] = None
        # the header: none in the clean tree; in the patched tree exactly the parameters of
        # the command line, none for boards passed in by hand
        for content in a["content"]:
            header = content.pop("header", None)
            problem = check_header(label, header)
            if problem:
                failures.append("%s: %s" % (label, problem))
        for content in b["content"]:
            if content.pop("header", None) is not None:
                failures.append("%s: clean tree wrote a header?" % label)
        if a != b:
            keys = [k for k in a if a.get(k) != b.get(k)]
            failures.append("%s: differs from clean in %r" % (label, keys))
    print("cases: %d, accepted: %d, solved runs: %d, no-solution runs: %d, solves cut off: %d"
          % (len(rp), n_accepted, n_solved, n_nosol, n_timeouts))
    if failures:
        for f in failures[:25]:
            print("  " + f[:400])
        print("FAIL (%d differences)" % len(failures))
        return 1
    print("PASS")
    return 0


if __name__ == "__main__":
    sys.exit(main())
