#!/usr/bin/env python
"""
Equivalence harness for property C03 ("conditioning removes every dead branch,
and only dead branches") - variant 2 (linear-time Solver.prune_states).

usage:  python equiv_test.py <path-to-patched-root> <path-to-clean-root>

The same deterministic list of cases is run against both trees, each tree in its
own subprocess (both use the module names tad / conditionalrewards).  A case
produces a record made of repr() strings, so an int/float change of a
probability or a last-bit rounding difference is a difference.

  node      ProbabilisticNode.prune_paths / PlayerOne.prune_paths on one node with
            k = 1..6 successors and EVERY dead/alive pattern (none, first, last,
            adjacent, separated, all), several probability styles, duplicated
            transitions, int probabilities, reach values 0 / 0.0 / -0.0 / 1e-12
  assigned  random games, reach probabilities and Player 1 strategy lists assigned
            by hand (any subset, also empty): snapshots of every next_states after
            prune_reachability, prune_paths, prune_states (run twice: idempotent)
  states    Solver.prune_states ALONE on raw state lists: random graphs with self
            loops, repeated transitions, random states emptied beforehand (also
            Player 1 and state 0), only-Player-2 / only-probabilistic / only-Player-1
            games, state 0 pointed to or not, long chains and trees of states that
            become unreferenced one after the other, rings nobody points to, states
            pointed to only by themselves, diamonds (two transitions released in
            the same step), the same chain in reversed index order
  pipeline  init_states -> solve_reachability -> prune_reachability ->
            prune_stochastich_game on random games (cycles, several finals, dead
            traps, ties, unreachable parts), both pruning modes
  solve     full StochasticGame.solve() tuple or the error text, both modes, and the
            caller's transition list afterwards
  driver    conditionalrewards.run_games + save_results_to_file on dictionaries of
            games (results without the time, report without the time line)

Every pruning snapshot is also checked, inside the worker, against an independent
reference implementation of the property written in this file (REF), for both
trees - so "both wrong in the same way" fails too.

Prints PASS and exits 0 when nothing differs, FAIL (exit 1) otherwise.
"""
import copy
import itertools
import json
import os
import random
import subprocess
import sys
import tempfile

P1, P2, PR = "Player 1", "Player 2", "Probabilistic"
SEED = 80301


# --------------------------------------------------------------------------- #
# case generation (identical in both workers: same seed, same interpreter)

def probabilities(rng, k, style):
    if style == "uniform":
        return [1 / k] * k
    if style == "dyadic":
        out = [1 / 2 ** (i + 1) for i in range(k)]
        out[-1] *= 2
        return out
    if style == "int" and k == 1:
        return [1]
    if style == "tiny":
        weights = [1e-9] + [rng.uniform(0.1, 1) for _ in range(k - 1)]
        rng.shuffle(weights)
    else:
        weights = [rng.uniform(0.05, 1) for _ in range(k)]
    total = sum(weights)
    return [w / total for w in weights]


def random_game(rng, sizes=(1, 2, 3, 4, 5, 6, 8, 10, 14), min_prob_style=None, absorbing=True):
    n = rng.choice(sizes)
    players = [rng.choice([P1, P2, PR, PR]) for _ in range(n)]
    n_final = rng.randint(1, min(3, n))
    finals = rng.sample(range(n), n_final)
    if rng.random() < 0.7 and 0 in finals and n > 1:
        finals = [f for f in finals if f != 0] or [rng.randrange(1, n)]
    candidates = [i for i in range(n) if i not in finals and i != 0]
    traps = set(rng.sample(candidates, rng.randint(0, len(candidates) // 2))) if candidates else set()
    transitions = []
    for i in range(n):
        if absorbing and i in finals:
            # a final state is where the play ends: it only loops on itself
            transitions.append([(1, i)] if players[i] == PR else [("a", i)])
            continue
        degree = rng.randint(1, 5)
        pool = sorted(traps) if i in traps else list(range(n))
        if rng.random() < 0.5:
            targets = [rng.choice(pool) for _ in range(degree)]
        else:
            # bias towards several dead successors in one list
            dead_pool = sorted(traps) or pool
            targets = [rng.choice(dead_pool if rng.random() < 0.5 else pool) for _ in range(degree)]
        if players[i] == PR:
            style = min_prob_style or rng.choice(["uniform", "dyadic", "int", "tiny", "random", "random"])
            probs = probabilities(rng, degree, style)
            transitions.append([(p, t) for p, t in zip(probs, targets)])
        else:
            names = "abcdefgh"
            if rng.random() < 0.1:
                acts = [rng.choice(names[:3]) for _ in range(degree)]   # repeated action names
            else:
                acts = list(names[:degree])
            transitions.append([(a, t) for a, t in zip(acts, targets)])
    rewards = [rng.choice([0, 0, 1, 2, 3, 5, 0.5, 5 / 3]) for _ in range(n)]
    return convergent({"rewards": rewards, "players": players,
                       "transition_list": transitions, "final_states": finals})


def convergent(game):
    """
    Total rewards are finite only if no reward can be collected for ever: put reward 0 on
    every state that lies on a cycle (then a play collects each positive reward at most once,
    pruned or not, whatever the players do).  Otherwise value iteration would never stop.
    """
    n = len(game["players"])
    successors = [{t for _, t in trans} for trans in game["transition_list"]]
    for start in range(n):
        seen, stack = set(), list(successors[start])
        while stack:
            state = stack.pop()
            if state not in seen:
                seen.add(state)
                stack.extend(successors[state])
        if start in seen:
            game["rewards"][start] = 0
    return game


def chain_game(length, kind):
    """0 -> final; a chain n-1 -> n-2 -> ... -> 2 nobody points to (cleared one per round)."""
    n = length + 2
    players = [P1, PR] + [kind] * length
    transitions = [[("go", 1)], [(1, 1)]]
    for i in range(2, n):
        target = i - 1 if i > 2 else 1
        transitions.append([(1, target)] if kind == PR else [("x", target)])
    return {"rewards": [1] * n, "players": players,
            "transition_list": transitions, "final_states": [1]}


def handmade_games():
    games = []
    # one state, final, self loop
    games.append({"rewards": [0], "players": [PR], "transition_list": [[(1, 0)]], "final_states": [0]})
    games.append({"rewards": [2], "players": [P1], "transition_list": [[("a", 0)]], "final_states": [0]})
    # initial state dead
    games.append({"rewards": [0, 0, 0], "players": [P1, PR, PR],
                  "transition_list": [[("a", 1)], [(1, 1)], [(1, 2)]], "final_states": [2]})
    # two adjacent / two separated / first+last / all dead successors, probabilistic and player 1
    dead_patterns = [[3, 3, 1], [3, 1, 4], [1, 3, 4], [3, 1, 4, 1, 3], [3, 4, 3], [1, 3, 3, 4, 1]]
    for pat in dead_patterns:
        for kind in (PR, P1):
            k = len(pat)
            if kind == PR:
                first = [(1 / k, t) for t in pat]
            else:
                first = [("abcdefgh"[j], t) for j, t in enumerate(pat)]
            games.append({"rewards": [1, 0, 2, 3, 4], "players": [kind, PR, P2, PR, P1],
                          "transition_list": [first, [(1, 1)], [("x", 1), ("y", 3)], [(0.5, 3), (0.5, 4)],
                                              [("s", 4), ("t", 3)]],
                          "final_states": [1]})
    # player 2 in front of and behind pruned hubs, unreferenced player 1 with / without transitions
    games.append({"rewards": [0, 1, 1, 1, 1, 1, 1], "players": [P2, PR, P1, P2, PR, P1, P1],
                  "transition_list": [[("a", 1), ("b", 2)], [(0.3, 6), (0.3, 4), (0.4, 6)],
                                      [("a", 4), ("b", 6), ("c", 4)], [("a", 1), ("b", 4)], [(1, 4)],
                                      [("a", 4)], [("a", 6)]],
                  "final_states": [6]})
    for kind in (PR, P2, P1):
        games.append(chain_game(6, kind))
    # no final state -> error
    games.append({"rewards": [0, 0], "players": [P1, PR],
                  "transition_list": [[("a", 1)], [(1, 0)]], "final_states": []})
    return [convergent(game) for game in games]


# --------------------------------------------------------------------------- #
# REF: independent statement of the property

def ref_prune_paths(before, players, reach):
    after = []
    for trans, player in zip(before, players):
        if player == P2:
            after.append(list(trans))
            continue
        alive = [t for t in trans if reach[t[1]] != 0]
        if player == PR and len(alive) != len(trans):
            total = sum(t[0] for t in alive)
            alive = [(t[0] / total, t[1]) for t in alive]
        after.append(alive)
    return after


def ref_prune_states(before, players, initial):
    """Least fixpoint, computed the slow obvious way."""
    current = [list(t) for t in before]
    while True:
        pointed = {initial}
        for trans in current:
            pointed.update(t[1] for t in trans)
        todo = [i for i, p in enumerate(players) if p != P1 and i not in pointed and current[i]]
        if not todo:
            return current
        for i in todo:
            current[i] = []


def ref_prune_reachability(before, players, strategies):
    return [[t for t in trans if t[0] in strategies[i]] if p == P1 else list(trans)
            for i, (trans, p) in enumerate(zip(before, players))]


def lists(state_list):
    return [[tuple(t) for t in s.next_states] for s in state_list]


def same(a, b):
    return repr(a) == repr(b)


# --------------------------------------------------------------------------- #
# worker

def assigned_reach(rng, n):
    out = []
    for _ in range(n):
        r = rng.random()
        if r < 0.4:
            out.append(rng.choice([0, 0, 0.0, -0.0]))
        elif r < 0.5:
            out.append(rng.choice([1e-12, 1e-9, 1]))
        else:
            out.append(rng.random())
    return out


def assigned_strategies(rng, game):
    out = []
    for player, trans in zip(game["players"], game["transition_list"]):
        if player != P1:
            out.append(None)
            continue
        acts = [a for a, _ in trans]
        r = rng.random()
        if r < 0.5:
            out.append(list(acts))
        elif r < 0.6:
            out.append([])
        else:
            out.append([a for a in acts if rng.random() < 0.6])
    return out


def run_assigned(tad, game, reach, strategies):
    """prune_reachability / prune_paths / prune_states on assigned reach values. Returns snapshots + REF verdict."""
    sgame = tad.StochasticGame(**copy.deepcopy(game))
    state_list = sgame.init_states()
    for state, value in zip(state_list, reach):
        state.reach_probability = value
    solver = tad.Solver(state_list)
    players = game["players"]
    start = lists(state_list)
    solver.prune_reachability(strategies)
    s1 = lists(state_list)
    solver.prune_paths()
    s2 = lists(state_list)
    solver.prune_states()
    s3 = lists(state_list)
    solver.prune_states()
    s4 = lists(state_list)
    r1 = ref_prune_reachability(start, players, strategies)
    r2 = ref_prune_paths(r1, players, reach)
    r3 = ref_prune_states(r2, players, 0)
    ok = same(s1, r1) and same(s2, r2) and same(s3, r3) and same(s4, r3)
    return {"s1": repr(s1), "s2": repr(s2), "s3": repr(s3), "s4": repr(s4), "ref_ok": ok}


def run_pipeline(tad, game, prune):
    try:
        sgame = tad.StochasticGame(**copy.deepcopy(game), prune_states=prune)
        sgame.check_game()
        state_list = sgame.init_states()
        solver = tad.Solver(state_list)
        strategies, iterations = solver.solve_reachability(game["transition_list"], game["final_states"], prune)
        reach = [s.reach_probability for s in state_list]
        start = lists(state_list)
        solver.prune_reachability(strategies)
        s1 = lists(state_list)
        solver.prune_stochastich_game()
        s3 = lists(state_list)
    except ValueError as error:
        return {"error": repr(str(error)), "ref_ok": True}
    players = game["players"]
    r1 = ref_prune_reachability(start, players, strategies)
    r3 = ref_prune_states(ref_prune_paths(r1, players, reach), players, 0)
    return {"reach": repr(reach), "strategies": repr(strategies), "iterations": iterations,
            "s1": repr(s1), "s3": repr(s3), "ref_ok": same(s1, r1) and same(s3, r3)}


class NoConvergence(BaseException):
    """The solver's value iteration oscillates on some games (also on the clean tree)."""


def _alarm(*_):
    raise NoConvergence()


def guarded(function, *args, **kwargs):
    """Run function; a solve that needs more than LIMIT seconds (normal: milliseconds) is recorded as such."""
    import signal
    signal.signal(signal.SIGALRM, _alarm)
    signal.setitimer(signal.ITIMER_REAL, LIMIT)
    try:
        return function(*args, **kwargs)
    except NoConvergence:
        return {"no_convergence": True}
    finally:
        signal.setitimer(signal.ITIMER_REAL, 0)


LIMIT = 10


def run_solve(tad, game, prune, **extra):
    return guarded(_run_solve, tad, game, prune, **extra)


def run_driver(cr, games, tag, **kwargs):
    return guarded(_run_driver, cr, games, tag, **kwargs)


def _run_solve(tad, game, prune, **extra):
    description = copy.deepcopy(game)
    before = repr(description)
    try:
        result = tad.StochasticGame(**description, prune_states=prune, **extra).solve()
        out = {"result": repr(result), "raw": [list(map(repr_or_list, result))]}
    except ValueError as error:
        out = {"error": repr(str(error))}
    out["caller_untouched"] = before == repr(description)
    return out


def repr_or_list(x):
    return x if isinstance(x, (int, float)) or x is None else list(x)


def _run_driver(cr, games, tag, **kwargs):
    results = cr.run_games(copy.deepcopy(games), **kwargs)
    for entry in results.values():
        entry.pop("total_time")
    os.makedirs("outputs", exist_ok=True)
    full = cr.run_games(copy.deepcopy(games), **kwargs)
    cr.save_results_to_file(full, f"inputs/{tag}.py")
    with open(f"outputs/{tag}.txt") as handle:
        report = [line for line in handle.read().split("\n") if not line.startswith("Total time")]
    return {"results": repr(results), "report": "\n".join(report)}


def node_cases(tad, records):
    rng = random.Random(SEED + 1)
    zero_values = [0, 0.0, -0.0]
    for k in range(1, 7):
        for pattern in itertools.product([False, True], repeat=k):
            for style in ["uniform", "dyadic", "int", "tiny", "random"]:
                for kind in (PR, P1):
                    n = k + 2
                    targets = [rng.randrange(1, n) for _ in range(k)] if rng.random() < 0.3 else list(range(1, k + 1))
                    dead_targets = {t for t, dead in zip(targets, pattern) if dead}
                    if kind == PR:
                        trans = [(p, t) for p, t in zip(probabilities(rng, k, style), targets)]
                    else:
                        trans = [("abcdefgh"[j], t) for j, t in enumerate(targets)]
                    if rng.random() < 0.2 and k > 1:
                        trans[-1] = trans[0]          # duplicated identical tuple
                    game = {"rewards": [1] * n, "players": [kind] + [PR] * (n - 1),
                            "transition_list": [list(trans)] + [[(1, i)] for i in range(1, n)],
                            "final_states": [n - 1]}
                    state_list = tad.StochasticGame(**game).init_states()
                    reach = [0.5] + [rng.choice(zero_values) if i in dead_targets else rng.choice([1e-12, 0.3, 1])
                                     for i in range(1, n)]
                    for state, value in zip(state_list, reach):
                        state.reach_probability = value
                    node = state_list[0]
                    returned = node.prune_paths(state_list)
                    after = lists(state_list)
                    expected = ref_prune_paths(game["transition_list"], game["players"], reach)
                    records[f"node/{k}/{pattern}/{style}/{kind}"] = {
                        "after": repr(after), "returned": repr(returned), "ref_ok": same(after[0], expected[0]) and same(after[1:], game["transition_list"][1:])}


def structured_games():
    """Shapes aimed at the cascade of prune_states."""
    games = []

    def game(players, transitions, finals=(1,)):
        return {"rewards": [0] * len(players), "players": list(players),
                "transition_list": transitions, "final_states": list(finals)}

    def edge(kind, target):
        return (1, target) if kind == PR else ("x", target)

    for kind in (PR, P2, P1):
        for length in (1, 2, 3, 7, 40):
            games.append(chain_game(length, kind))
            # the same chain numbered the other way round: 2 -> 3 -> ... -> n-1 -> 1
            n = length + 2
            trans = [[("go", 1)], [(1, 1)]] + [[edge(kind, i + 1 if i + 1 < n else 1)] for i in range(2, n)]
            games.append(game([P1, PR] + [kind] * length, trans))
        # a ring nobody points to (kept: every member is pointed to by the previous one)
        games.append(game([P1, PR, kind, kind, kind], [[("go", 1)], [(1, 1)], [edge(kind, 3)], [edge(kind, 4)], [edge(kind, 2)]]))
        # a ring with an unreferenced tail in front of it (the tail goes, the ring stays)
        games.append(game([P1, PR, kind, kind, kind, kind],
                          [[("go", 1)], [(1, 1)], [edge(kind, 3)], [edge(kind, 2)], [edge(kind, 2)], [edge(kind, 4)]]))
        # pointed to only by itself
        games.append(game([P1, PR, kind], [[("go", 1)], [(1, 1)], [edge(kind, 2)]]))
        # state 0 of this kind, nobody points to it / somebody does
        games.append(game([kind, PR, kind], [[edge(kind, 1)], [(1, 1)], [edge(kind, 0)]]))
        games.append(game([kind, PR], [[edge(kind, 1)], [(1, 1)]]))
        games.append(game([kind], [[edge(kind, 0)]], finals=(0,)))
    # diamond: 2 is unreferenced, points twice to 3 and once to 4; 4 points to 3; 3 goes only when both are gone
    games.append(game([P1, PR, PR, P2, P2],
                      [[("go", 1)], [(1, 1)], [(0.25, 3), (0.25, 3), (0.5, 4)], [("a", 1)], [("a", 3), ("b", 1)]]))
    # the same, but a player 1 state (kept, even unreferenced) also points to 3: 3 stays
    games.append(game([P1, PR, PR, P2, P2, P1],
                      [[("go", 1)], [(1, 1)], [(0.25, 3), (0.25, 3), (0.5, 4)], [("a", 1)], [("a", 3), ("b", 1)],
                       [("a", 3)]]))
    # binary tree of unreferenced probabilistic states hanging over state 1
    size = 31
    players = [P1, PR] + [PR] * size
    trans = [[("go", 1)], [(1, 1)]]
    for i in range(size):
        left, right = 2 * i + 1, 2 * i + 2
        trans.append([(0.5, left + 2 if left < size else 1), (0.5, right + 2 if right < size else 1)])
    games.append(game(players, trans))
    return [convergent(g) for g in games]


def run_states(tad, game, emptied, twice=True):
    state_list = tad.StochasticGame(**copy.deepcopy(game)).init_states()
    for idx in emptied:
        state_list[idx].next_states = []
    before = lists(state_list)
    solver = tad.Solver(state_list)
    returned = solver.prune_states()
    after = lists(state_list)
    if twice:
        solver.prune_states()
    again = lists(state_list)
    expected = ref_prune_states(before, game["players"], 0)
    return {"after": repr(after), "again": repr(again), "returned": repr(returned),
            "kinds": repr([type(s.next_states).__name__ for s in state_list]),
            "ref_ok": same(after, expected) and same(again, expected)}


def worker(root, out_path, patched):
    sys.path.insert(0, root)
    workdir = tempfile.mkdtemp(prefix="c03w_")
    os.chdir(workdir)
    import logging
    import time
    logging.disable(logging.CRITICAL)
    import tad
    import conditionalrewards as cr
    assert os.path.dirname(os.path.abspath(tad.__file__)) == os.path.abspath(root)
    records = {}
    info = {}

    node_cases(tad, records)

    rng = random.Random(SEED + 2)
    games = handmade_games() + structured_games() + [random_game(rng) for _ in range(600)]
    n_solvable = len(games)
    # final states with ways out: fine for the pruning itself, but the solver's reward sweep may oscillate
    games += [random_game(rng, absorbing=False) for _ in range(200)]

    # prune_states alone on raw state lists
    xrng = random.Random(SEED + 6)
    single_kind = []
    for kind in (P1, P2, PR):
        for _ in range(40):
            game = random_game(xrng, absorbing=False)
            n = len(game["players"])
            game["players"] = [kind] * n
            game["transition_list"] = [
                [((1 / len(trans)) if kind == PR else "abcdefgh"[j], t) for j, (_, t) in enumerate(trans)]
                for trans in game["transition_list"]]
            single_kind.append(game)
    sparse = []
    for _ in range(300):
        # few transitions: many states nobody points to, long cascades
        n = xrng.choice([3, 5, 8, 12, 20])
        players = [xrng.choice([P1, P2, PR, PR]) for _ in range(n)]
        trans = []
        for i in range(n):
            degree = xrng.choice([1, 1, 1, 2])
            targets = [xrng.randrange(n) for _ in range(degree)]
            trans.append([(1 / degree, t) for t in targets] if players[i] == PR
                         else [("abcd"[j], t) for j, t in enumerate(targets)])
        sparse.append({"rewards": [0] * n, "players": players, "transition_list": trans,
                       "final_states": [xrng.randrange(n)]})
    for number, game in enumerate(games + single_kind + sparse):
        if not game["final_states"]:
            continue
        n = len(game["players"])
        records[f"states/{number}/raw"] = run_states(tad, game, [])
        for rep in range(2):
            emptied = [i for i in range(n) if xrng.random() < 0.3]
            records[f"states/{number}/emptied{rep}"] = run_states(tad, game, emptied)

    # assigned reach values and strategies
    arng = random.Random(SEED + 3)
    for number, game in enumerate(games + sparse):
        if not game["final_states"]:
            continue
        n = len(game["players"])
        for rep in range(2):
            reach = assigned_reach(arng, n)
            strategies = assigned_strategies(arng, game)
            records[f"assigned/{number}/{rep}"] = run_assigned(tad, game, reach, strategies)

    # pipeline and full solve, both modes
    for number, game in enumerate(games):
        for prune in (True, False):
            records[f"pipeline/{number}/{prune}"] = run_pipeline(tad, game, prune)
            if number < n_solvable:
                records[f"solve/{number}/{prune}"] = run_solve(tad, game, prune)

    # the example files of the repository (those that are small enough to be quick)
    for file_name in ("paper_games.py", "example_games.py", "example_17_08.py", "manual_1_game_a.py",
                      "robot_1_w2_l2_r6_rb10_lb5_tb10_lt0.py", "robot_999132423_w3_l3_r6_rb1_lb2_tb10_lt30.py"):
        path = os.path.join(root, "inputs", file_name)
        records[f"driver-file/{file_name}"] = run_driver(cr, cr.read_dict_from_file(path), file_name[:-3])

    # driver
    drng = random.Random(SEED + 5)
    for number in range(40):
        batch = {f"g{j}": random_game(drng, sizes=(2, 3, 4, 5, 6)) for j in range(3)}
        if number % 5 == 0:
            batch["dead"] = handmade_games()[2]
        records[f"driver/{number}"] = run_driver(cr, batch, f"batch{number}")

    # a chain of 400 unreferenced states: result compared, time for information only
    state_list = tad.StochasticGame(**chain_game(400, PR)).init_states()
    start = time.perf_counter()
    tad.Solver(state_list).prune_states()
    info["seconds for a chain of 400"] = round(time.perf_counter() - start, 4)
    records["states/chain400"] = {"after": repr(lists(state_list))}

    with open(out_path, "w") as handle:
        json.dump({"records": records, "info": info}, handle)


# --------------------------------------------------------------------------- #
# parent

def main():
    if len(sys.argv) >= 2 and sys.argv[1] == "--worker":
        worker(sys.argv[2], sys.argv[3], sys.argv[4] == "patched")
        return 0
    if len(sys.argv) != 3:
        print(__doc__)
        return 2
    patched_root, clean_root = map(os.path.abspath, sys.argv[1:3])
    outputs = {}
    for tag, root in (("patched", patched_root), ("clean", clean_root)):
        out_path = os.path.join(tempfile.mkdtemp(prefix="c03_"), f"{tag}.json")
        env = dict(os.environ, PYTHONDONTWRITEBYTECODE="1", PYTHONHASHSEED="0")
        done = subprocess.run([sys.executable, os.path.abspath(__file__), "--worker", root, out_path, tag],
                              env=env, capture_output=True, text=True)
        if done.returncode != 0:
            print(done.stdout[-3000:], done.stderr[-3000:])
            print(f"FAIL: worker for the {tag} tree crashed")
            return 1
        with open(out_path) as handle:
            outputs[tag] = json.load(handle)

    failures = []
    patched, clean = outputs["patched"]["records"], outputs["clean"]["records"]
    if patched.keys() != clean.keys():
        failures.append(("case lists differ", sorted(set(patched) ^ set(clean))[:5]))
    counts = {}
    for key in clean:
        counts[key.split("/")[0]] = counts.get(key.split("/")[0], 0) + 1
        if patched.get(key) != clean[key]:
            failures.append(("patched != clean", key, patched.get(key), clean[key]))
        for tag, record in (("patched", patched.get(key)), ("clean", clean[key])):
            if record and record.get("ref_ok") is False:
                failures.append((f"{tag} tree violates the reference statement of C03", key, record))
            if record and record.get("caller_untouched") is False:
                failures.append((f"{tag} tree altered the caller's game description", key))

    print("cases:", ", ".join(f"{name}={number}" for name, number in sorted(counts.items())))
    oscillating = sum(1 for record in clean.values() if "no_convergence" in record)
    print(f"solves given up after {LIMIT}s on the clean tree (same verdict required from the patched tree): {oscillating}")
    print("timing (information only):", {tag: outputs[tag]["info"] for tag in outputs})
    if failures:
        for failure in failures[:10]:
            print("DIFF:", *[str(part)[:600] for part in failure])
        print(f"FAIL ({len(failures)} differences)")
        return 1
    print("PASS")
    return 0


if __name__ == "__main__":
    sys.exit(main())
