#!/usr/bin/env python
"""Equivalence test for property C03 (conditioning removes every dead branch, and
only dead branches).

usage: python equiv_test.py <path-to-patched-root> <path-to-clean-root>

Both trees are loaded in separate subprocesses (this same file, --worker mode).
Every worker builds the same deterministic list of cases, runs them against the
tree it was given and dumps {case name: repr(outcome)} as JSON.  The parent
compares the two dumps; prints PASS / exit 0 when nothing differs, FAIL / exit 1
otherwise.

What is compared
  * StochasticGame.solve() on ~500 random well-formed games, both pruning modes
    (result tuple or exception type + message, and the caller's transition_list
    afterwards);
  * the staged pipeline check_game / init_states / solve_reachability /
    prune_reachability / prune_paths / prune_states with a snapshot of every
    node's next_states (values, element types, list identity) after each stage;
  * node level calls with hand-set reachability outcomes: 0,1,2,.. dead
    successors in every position (first, last, adjacent, separated, all) for
    Player 1 and probabilistic nodes, -0.0 / tiny / nan probabilities, int and
    bool probabilities, zero surviving mass, remove_path (present, absent,
    duplicate), prune_paths_reachability (empty, unknown, duplicated actions);
  * Solver.prune_reachability / prune_paths / prune_states / prune_stochastich_game
    on random state lists with arbitrary reachability values, and with malformed
    strategy lists (short, None);
  * malformed games through solve();
  * conditionalrewards.run_games on the small shipped inputs and on random games
    (total_time dropped), plus the written report.

Every solve has a deterministic budget (number of value-iteration node updates)
because the clean tree does not converge on non-stopping games; a wall-clock
alarm is only a safety net.
"""
import itertools
import json
import os
import random
import signal
import subprocess
import sys
import tempfile

UPDATE_CAP = 6000          # node updates per solve before giving up (deterministic)
WALL_CAP = 10.0            # seconds, safety net only
N_SOLVE_GAMES = 520
N_NODE_CASES = 700
N_SOLVER_CASES = 400
N_DRIVER_GAMES = 60
SMALL_INPUTS = [
    "example_17_08.py", "example_games.py", "manual_1_game_a.py", "manual_arrow_bottom.py",
    "paper_games.py", "robot_1_w1_l2_r6_rb10_lb5_tb10_lt0.py",
    "robot_1_w2_l1_r6_rb10_lb5_tb10_lt0.py", "robot_1_w2_l2_r6_rb10_lb5_tb10_lt0.py",
]


class Budget(BaseException):
    pass


class WallClock(BaseException):
    pass


# --------------------------------------------------------------------------- #
# case generation (independent of the tree under test)

P1, P2, PR = "Player 1", "Player 2", "Probabilistic"


def rand_probs(rng, k):
    style = rng.randrange(6)
    if style == 0:
        return [1.0 / k] * k
    if style == 1:
        w = [rng.randint(1, 9) for _ in range(k)]
        s = sum(w)
        return [x / s for x in w]
    if style == 2:
        w = [rng.random() + 1e-3 for _ in range(k)]
        s = sum(w)
        return [x / s for x in w]
    if style == 3:
        base = [0.5, 0.25, 0.125, 0.0625, 0.03125, 0.03125]
        return (base[:k - 1] + [1 - sum(base[:k - 1])]) if k > 1 else [1]
    if style == 4:
        p = [1e-9] * (k - 1)
        return p + [1 - sum(p)] if k > 1 else [1.0]
    p = [0.999999] + [0.000001 / (k - 1)] * (k - 1) if k > 1 else [1]
    rng.shuffle(p)
    return p


def rand_game(rng, big=False):
    n = rng.randint(1, 14 if big else 9)
    n_dead = rng.choice([0, 0, 1, 1, 2, 3]) if n > 2 else 0
    n_final = rng.choice([1, 1, 2, 3])
    idxs = list(range(1, n)) if n > 1 else [0]
    if rng.random() < 0.1:
        idxs = list(range(n))
    rng.shuffle(idxs)
    finals = sorted(set(idxs[:n_final]))
    dead = [i for i in idxs[n_final:n_final + n_dead]]
    players = [rng.choice([P1, P2, PR, PR]) for _ in range(n)]
    transitions = []
    for s in range(n):
        if s in dead:
            players[s] = rng.choice([PR, PR, P1, P2])
            # dead sink: self loop or a hop to another dead state
            targets = [rng.choice(dead)] if rng.random() < 0.4 else [s]
        elif s in finals and rng.random() < 0.8:
            players[s] = PR
            targets = [s]
        else:
            k = rng.choice([1, 2, 2, 3, 3, 4, 5])
            pool = list(range(n))
            if dead and rng.random() < 0.6:
                # bias towards several dead successors, in random positions
                pool = pool + dead * 3
            targets = [rng.choice(pool) for _ in range(k)]
            if rng.random() < 0.15 and dead:
                targets = [rng.choice(dead) for _ in range(k)]
        if players[s] == PR:
            probs = rand_probs(rng, len(targets))
            transitions.append([(p, t) for p, t in zip(probs, targets)])
        else:
            names = ["a%d" % i for i in range(len(targets))]
            if rng.random() < 0.05 and len(names) > 1:
                names[1] = names[0]
            transitions.append([(a, t) for a, t in zip(names, targets)])
    # most games let the initial state see a final state, so that conditioning
    # is actually reached instead of stopping at "no solution"
    if 0 not in dead and 0 not in finals and rng.random() < 0.75:
        pos = rng.randrange(len(transitions[0]))
        label = transitions[0][pos][0]
        transitions[0][pos] = (label, rng.choice(finals))
    rewards = [rng.choice([0, 0, 0, 1, 2, 5, 0.5, 5 / 3]) for _ in range(n)]
    if rng.random() < 0.85:
        for f in finals:
            rewards[f] = 0
    if rng.random() < 0.3:
        # rewards only on probabilistic states: fewer diverging cycles
        rewards = [r if players[i] == PR else 0 for i, r in enumerate(rewards)]
    return {"rewards": rewards, "players": players, "transition_list": transitions,
            "final_states": finals}


def fixed_games():
    g = {}
    # two adjacent dead successors, probabilistic and player one
    g["adjacent_dead_prob"] = dict(
        rewards=[1, 0, 0, 0, 0], players=[PR] * 5,
        transition_list=[[(0.25, 1), (0.25, 2), (0.5, 3)], [(1, 1)], [(1, 2)], [(1, 3)], [(1, 4)]],
        final_states=[3])
    g["separated_dead_prob"] = dict(
        rewards=[1, 0, 0, 0, 0], players=[PR] * 5,
        transition_list=[[(0.25, 1), (0.5, 3), (0.25, 2)], [(1, 1)], [(1, 2)], [(1, 3)], [(1, 4)]],
        final_states=[3])
    g["first_last_dead_prob"] = dict(
        rewards=[1, 0, 0, 0, 0], players=[PR] * 5,
        transition_list=[[(0.125, 1), (0.5, 3), (0.125, 3), (0.25, 2)], [(1, 1)], [(1, 2)], [(1, 3)], [(1, 4)]],
        final_states=[3])
    g["adjacent_dead_p1"] = dict(
        rewards=[1, 0, 0, 0], players=[P1, PR, PR, PR],
        transition_list=[[("a", 1), ("b", 2), ("c", 3)], [(1, 1)], [(1, 2)], [(1, 3)]],
        final_states=[3])
    g["p2_into_dead"] = dict(
        rewards=[1, 2, 0, 0, 3], players=[PR, P2, PR, PR, P1],
        transition_list=[[(0.5, 1), (0.5, 3)], [("x", 2), ("y", 3)], [(1, 2)], [(1, 3)], [("u", 2), ("v", 2)]],
        final_states=[3])
    g["all_dead_initial"] = dict(
        rewards=[1, 0, 0], players=[PR, PR, PR],
        transition_list=[[(0.5, 1), (0.5, 1)], [(1, 1)], [(1, 2)]], final_states=[2])
    g["single_final"] = dict(rewards=[0], players=[PR], transition_list=[[(1, 0)]], final_states=[0])
    g["cycle_through_prob"] = dict(
        rewards=[1, 1, 0, 0], players=[PR, P1, PR, PR],
        transition_list=[[(0.5, 1), (0.25, 2), (0.25, 3)], [("back", 0), ("dead", 3), ("dead2", 3)],
                         [(1, 2)], [(1, 3)]],
        final_states=[2])
    g["int_probs"] = dict(
        rewards=[1, 0, 0], players=[PR, PR, PR],
        transition_list=[[(1, 1), (0, 2)], [(1, 1)], [(1, 2)]], final_states=[1])
    g["zero_mass_survivors"] = dict(
        rewards=[1, 0, 0], players=[PR, PR, PR],
        transition_list=[[(0, 1), (1, 2)], [(1, 1)], [(1, 2)]], final_states=[1])
    g["unreferenced_chain"] = dict(
        rewards=[1, 1, 1, 1, 0], players=[PR, PR, P2, PR, PR],
        transition_list=[[(1, 4)], [(1, 4)], [("q", 1)], [(1, 2)], [(1, 4)]], final_states=[4])
    return g


def malformed_games():
    ok = dict(rewards=[1, 0], players=[PR, PR], transition_list=[[(1, 1)], [(1, 1)]],
              final_states=[1])

    def mod(**kw):
        d = {k: (list(v) if isinstance(v, list) else v) for k, v in ok.items()}
        d.update(kw)
        return d
    return {
        "no_finals": mod(final_states=[]),
        "final_oob": mod(final_states=[2]),
        "final_neg": mod(final_states=[-1]),
        "short_rewards": mod(rewards=[1]),
        "neg_reward": mod(rewards=[-1, 0]),
        "bad_player": mod(players=[PR, "Player 3"]),
        "short_transitions": mod(transition_list=[[(1, 1)]]),
        "empty_transitions": mod(transition_list=[[(1, 1)], []]),
        "not_a_list": mod(transition_list=[[(1, 1)], ((1, 1),)]),
        "not_a_tuple": mod(transition_list=[[(1, 1)], [[1, 1]]]),
        "triple": mod(transition_list=[[(1, 1)], [(1, 1, 1)]]),
        "prob_is_str": mod(transition_list=[[(1, 1)], [("x", 1)]]),
        "action_is_num": mod(players=[PR, P1], transition_list=[[(1, 1)], [(1, 1)]]),
        "target_is_float": mod(transition_list=[[(1, 1)], [(1, 1.0)]]),
        "target_oob": mod(transition_list=[[(1, 1)], [(1, 2)]]),
        "target_neg": mod(transition_list=[[(1, 1)], [(1, -1)]]),
        "empty_game": dict(rewards=[], players=[], transition_list=[], final_states=[0]),
        "initial_unreachable": dict(rewards=[1, 0, 0], players=[P1, PR, PR],
                                    transition_list=[[("a", 1), ("b", 1)], [(1, 1)], [(1, 2)]],
                                    final_states=[2]),
    }


# --------------------------------------------------------------------------- #
# worker

def outcome(fn):
    try:
        return ("ok", fn())
    except Budget:
        return ("budget",)
    except WallClock:
        return ("wallclock",)
    except Exception as e:  # noqa: BLE001 - we compare type and message
        return ("exc", type(e).__name__, str(e))


def worker(root, out_path):
    root = os.path.abspath(root)
    # run from a private scratch directory (the report writer uses a relative
    # "outputs/" path) so that neither tree is ever written to
    scratch = tempfile.mkdtemp(prefix="equiv_c03_cwd_")
    os.mkdir(os.path.join(scratch, "outputs"))
    os.chdir(scratch)
    sys.path.insert(0, root)
    import tad
    import conditionalrewards
    import logging
    logging.disable(logging.CRITICAL)

    counter = {"n": 0}

    def install(cls, name):
        orig = cls.__dict__[name]

        def wrapped(self, state_list, _orig=orig):
            counter["n"] += 1
            if counter["n"] > UPDATE_CAP:
                raise Budget()
            return _orig(self, state_list)
        setattr(cls, name, wrapped)

    for cls in (tad.ProbabilisticNode, tad.PlayerOne, tad.PlayerTwo):
        for name in ("value_iteration_reach", "value_iteration_rewards"):
            install(cls, name)

    def on_alarm(signum, frame):
        raise WallClock()
    signal.signal(signal.SIGALRM, on_alarm)

    results = {}

    def record(name, fn):
        counter["n"] = 0
        signal.setitimer(signal.ITIMER_REAL, WALL_CAP)
        try:
            res = outcome(fn)
        except WallClock:
            res = ("wallclock",)
        finally:
            signal.setitimer(signal.ITIMER_REAL, 0)
        assert name not in results, name
        results[name] = repr(res)

    def snap(state_list):
        return [(type(s).__name__, s.player, s.idx, s.next_states,
                 [type(t).__name__ + ":" + ",".join(type(x).__name__ for x in t)
                  for t in s.next_states],
                 s.reach_probability, s.expected_reach_min_rewards, s.expected_rewards)
                for s in state_list]

    def copy_game(game):
        return dict(rewards=list(game["rewards"]), players=list(game["players"]),
                    transition_list=[list(t) if isinstance(t, list) else t
                                     for t in game["transition_list"]],
                    final_states=list(game["final_states"]))

    def run_solve(game, prune):
        g = copy_game(game)
        sg = tad.StochasticGame(prune_states=prune, **g)
        try:
            res = sg.solve()
        finally:
            after = repr((sg.transition_list, sg.rewards, sg.players, sg.final_states))
        return res, after

    def run_staged(game, prune):
        g = copy_game(game)
        sg = tad.StochasticGame(prune_states=prune, **g)
        trace = []
        sg.check_game()
        state_list = sg.init_states()
        solver = tad.Solver(threshold=10 ** (-6), state_list=state_list)
        strategies, n_it = solver.solve_reachability(sg.transition_list, sg.final_states, prune)
        trace.append(("reach", strategies, n_it, snap(state_list)))
        before = [s.next_states for s in state_list]
        solver.prune_reachability(strategies)
        trace.append(("prune_reachability", snap(state_list),
                      [a is b for a, b in zip(before, [s.next_states for s in state_list])]))
        before = [s.next_states for s in state_list]
        solver.prune_paths()
        trace.append(("prune_paths", snap(state_list),
                      [a is b for a, b in zip(before, [s.next_states for s in state_list])]))
        before = [s.next_states for s in state_list]
        solver.prune_states()
        trace.append(("prune_states", snap(state_list),
                      [a is b for a, b in zip(before, [s.next_states for s in state_list])]))
        # surviving probabilistic mass, as the property states it
        trace.append(("mass", [sum(p for p, _ in s.next_states)
                               for s in state_list if s.player == PR]))
        trace.append(("input", sg.transition_list))
        return trace

    # -- 1. fixed and random games through solve() and the staged pipeline ---
    games = dict(fixed_games())
    rng = random.Random(20260303)
    for i in range(N_SOLVE_GAMES):
        games["rand%03d" % i] = rand_game(rng, big=(i % 7 == 0))
    for name, game in games.items():
        for prune in (True, False):
            record("solve/%s/%s" % (name, prune), lambda: run_solve(game, prune))
            record("staged/%s/%s" % (name, prune), lambda: run_staged(game, prune))
    for name, game in malformed_games().items():
        for prune in (True, False):
            record("malformed/%s/%s" % (name, prune), lambda: run_solve(game, prune))

    # -- 2. node level: hand-set reachability outcomes ----------------------
    REACH = [0, 0, 0, 0.0, -0.0, 1, 0.5, 1e-300, 5e-324, float("nan"), 0.25, False, True]

    def make_states(rng, n, players=None):
        states = []
        for i in range(n):
            kind = players[i] if players else rng.choice([P1, P2, PR])
            k = rng.randint(1, 6)
            targets = [rng.randrange(n) for _ in range(k)]
            if kind == PR:
                probs = rand_probs(rng, k)
                if rng.random() < 0.15:
                    probs = [rng.choice([0, 1, 2, True, 0.5, -0.5, 0.0]) for _ in range(k)]
                ns = [(p, t) for p, t in zip(probs, targets)]
                cls = tad.ProbabilisticNode
            else:
                acts = ["a%d" % j for j in range(k)]
                if rng.random() < 0.1 and k > 1:
                    acts[-1] = acts[0]
                ns = [(a, t) for a, t in zip(acts, targets)]
                cls = tad.PlayerOne if kind == P1 else tad.PlayerTwo
            states.append(cls(player=kind, idx=i, reward=rng.choice([0, 1, 2.5]),
                              next_states=ns, num_states=n,
                              is_final_node=(rng.random() < 0.2)))
        return states

    rng = random.Random(77)
    for i in range(N_NODE_CASES):
        def node_case():
            n = rng.randint(1, 7)
            states = make_states(rng, n)
            mode = rng.randrange(4)
            for s in states:
                if mode == 0:
                    s.reach_probability = rng.choice(REACH)
                elif mode == 1:
                    s.reach_probability = 0
                elif mode == 2:
                    s.reach_probability = rng.choice([0.5, 1, 0.125])
                else:
                    s.reach_probability = rng.choice([0, 1])
            out = []
            for s in states:
                if s.player == P2:
                    continue
                old = s.next_states
                r = outcome(lambda: s.prune_paths(states))
                out.append(("prune_paths", s.idx, r, s.next_states, s.next_states is old,
                            [type(p).__name__ for p, _ in s.next_states]))
            return out
        record("node/prune_paths/%03d" % i, node_case)

    # exhaustive dead patterns for a node with up to 5 successors
    case_no = 0
    for k in range(1, 6):
        for pattern in itertools.product([0, 1], repeat=k):
            for kind in (P1, PR):
                def pattern_case():
                    n = k + 1
                    if kind == PR:
                        ns = [((j + 1) / (k * (k + 1) / 2), j + 1) for j in range(k)]
                        node = tad.ProbabilisticNode(player=PR, idx=0, reward=1, next_states=ns,
                                                     num_states=n, is_final_node=False)
                    else:
                        ns = [("a%d" % j, j + 1) for j in range(k)]
                        node = tad.PlayerOne(player=P1, idx=0, reward=1, next_states=ns,
                                             num_states=n, is_final_node=False)
                    states = [node]
                    for j in range(k):
                        leaf = tad.ProbabilisticNode(player=PR, idx=j + 1, reward=0,
                                                     next_states=[(1, j + 1)], num_states=n,
                                                     is_final_node=False)
                        leaf.reach_probability = pattern[j] * 0.75
                        states.append(leaf)
                    old = node.next_states
                    given = list(ns)
                    r = outcome(lambda: node.prune_paths(states))
                    return (r, node.next_states, node.next_states is old, ns == given)
                record("node/pattern/%s/%s/%d" % (kind, "".join(map(str, pattern)), case_no),
                       pattern_case)
                case_no += 1

    rng = random.Random(99)
    for i in range(300):
        def remove_case():
            n = rng.randint(1, 6)
            states = make_states(rng, n, players=[rng.choice([P1, PR]) for _ in range(n)])
            out = []
            for s in states:
                for _ in range(rng.randint(1, 3)):
                    if s.next_states and rng.random() < 0.8:
                        victim = rng.choice(s.next_states)
                    elif s.player == PR:
                        victim = (rng.choice([0.5, 1, 0.123]), rng.randrange(n))
                    else:
                        victim = ("zz", rng.randrange(n))
                    old = s.next_states
                    r = outcome(lambda: s.remove_path(victim))
                    out.append((s.idx, victim, r, s.next_states, s.next_states is old))
            return out
        record("node/remove_path/%03d" % i, remove_case)

        def reach_prune_case():
            n = rng.randint(1, 6)
            states = make_states(rng, n, players=[P1] * n)
            out = []
            for s in states:
                acts = [a for a, _ in s.next_states]
                choice = rng.randrange(6)
                if choice == 0:
                    best = []
                elif choice == 1:
                    best = list(acts)
                elif choice == 2:
                    best = [rng.choice(acts), "unknown", rng.choice(acts)]
                elif choice == 3:
                    best = tuple(rng.sample(acts, rng.randint(0, len(acts))))
                elif choice == 4:
                    best = None
                else:
                    best = rng.sample(acts, rng.randint(0, len(acts)))
                old = s.next_states
                r = outcome(lambda: s.prune_paths_reachability(best))
                out.append((s.idx, best, r, s.next_states, s.next_states is old))
                s2 = outcome(lambda: s.get_best_strategies_reachability(states, 6))
                out.append(s2)
            return out
        record("node/prune_paths_reachability/%03d" % i, reach_prune_case)

    # -- 3. solver level on arbitrary reachability values -------------------
    rng = random.Random(4242)
    for i in range(N_SOLVER_CASES):
        def solver_case():
            n = rng.randint(1, 10)
            states = make_states(rng, n)
            mode = rng.randrange(3)
            for s in states:
                s.reach_probability = (rng.choice(REACH) if mode == 0
                                       else rng.choice([0, 0, 1, 0.5]) if mode == 1
                                       else rng.choice([0, 1]))
            solver = tad.Solver(state_list=states)
            out = []
            strategies = solver._get_reachability_strategies()
            out.append(strategies)
            which = rng.randrange(8)
            if which == 0:
                strategies = strategies[:rng.randint(0, n)]
            elif which == 1:
                strategies = [None] * n
            out.append(outcome(lambda: solver.prune_reachability(strategies)))
            out.append(snap(states))
            order = rng.randrange(4)
            if order == 0:
                out.append(outcome(solver.prune_stochastich_game))
            elif order == 1:
                out.append(outcome(solver.prune_paths))
                out.append(snap(states))
                out.append(outcome(solver.prune_states))
            elif order == 2:
                out.append(outcome(solver.prune_states))
                out.append(snap(states))
                out.append(outcome(solver.prune_paths))
                out.append(snap(states))
                out.append(outcome(solver.prune_states))
            else:
                out.append(outcome(solver.prune_paths))
                out.append(outcome(solver.prune_paths))
            out.append(snap(states))
            return out
        record("solver/%03d" % i, solver_case)

    record("solver/empty_state_list", lambda: (
        outcome(lambda: tad.Solver(state_list=[]).prune_reachability([])),
        outcome(lambda: tad.Solver(state_list=[]).prune_paths()),
        outcome(lambda: tad.Solver(state_list=[]).prune_states()),
        outcome(lambda: tad.Solver(state_list=[]).prune_stochastich_game())))

    # -- 4. driver: run_games and the report ---------------------------------
    def strip(results_dict):
        return {k: {kk: vv for kk, vv in v.items() if kk != "total_time"}
                for k, v in results_dict.items()}

    def run_driver(games_dict, label):
        res = conditionalrewards.run_games(games_dict)
        text = None
        if os.path.isdir("outputs"):
            fname = "equivtest_%d_%s" % (os.getpid(), label)
            path = os.path.join("outputs", fname + ".txt")
            try:
                conditionalrewards.save_results_to_file(res, "inputs/" + fname + ".py")
                with open(path) as fh:
                    text = [line for line in fh.read().splitlines()
                            if not line.startswith("Total time")]
            finally:
                if os.path.exists(path):
                    os.remove(path)
        return strip(res), text

    for fname in SMALL_INPUTS:
        path = os.path.join(root, "inputs", fname)
        if not os.path.exists(path):
            results["driver/file/" + fname] = "missing"
            continue
        all_games = conditionalrewards.read_dict_from_file(path)
        for gname, game in all_games.items():
            record("driver/file/%s/%s" % (fname, gname),
                   lambda: run_driver({gname: game}, "f"))
    rng = random.Random(555)
    for i in range(N_DRIVER_GAMES):
        game = rand_game(rng)
        record("driver/rand%02d" % i, lambda: run_driver({"g%d" % i: game}, "r"))
    for name, game in fixed_games().items():
        record("driver/fixed/" + name, lambda: run_driver({name: game}, "x"))

    with open(out_path, "w") as fh:
        json.dump(results, fh)
    os.chdir("/")
    os.rmdir(os.path.join(scratch, "outputs"))
    os.rmdir(scratch)


# --------------------------------------------------------------------------- #
# parent

def main():
    if len(sys.argv) == 4 and sys.argv[1] == "--worker":
        worker(sys.argv[2], sys.argv[3])
        return 0
    if len(sys.argv) != 3:
        print(__doc__)
        return 2
    roots = [os.path.abspath(p) for p in sys.argv[1:3]]
    tmpdir = tempfile.mkdtemp(prefix="equiv_c03_")
    outs = [os.path.join(tmpdir, "patched.json"), os.path.join(tmpdir, "clean.json")]
    env = dict(os.environ, PYTHONDONTWRITEBYTECODE="1", PYTHONHASHSEED="0")
    procs = [subprocess.Popen([sys.executable, "-B", os.path.abspath(__file__), "--worker", r, o],
                              env=env, stdout=subprocess.PIPE, stderr=subprocess.PIPE, text=True)
             for r, o in zip(roots, outs)]
    failed = False
    for label, p in zip(("patched", "clean"), procs):
        so, se = p.communicate()
        if p.returncode != 0:
            failed = True
            print("worker for %s tree crashed (exit %s):\n%s\n%s" % (label, p.returncode, so, se[-3000:]))
    if failed:
        print("FAIL")
        return 1
    with open(outs[0]) as fh:
        patched = json.load(fh)
    with open(outs[1]) as fh:
        clean = json.load(fh)
    for o in outs:
        os.remove(o)
    os.rmdir(tmpdir)
    diffs = [k for k in sorted(set(patched) | set(clean)) if patched.get(k) != clean.get(k)]
    kinds = {}
    for v in clean.values():
        tag = v.split(",")[0].strip("('")
        kinds[tag] = kinds.get(tag, 0) + 1
    print("cases: %d   clean-tree outcome kinds: %s" % (len(clean), kinds))
    if diffs:
        for k in diffs[:10]:
            print("DIFF", k)
            print("   patched:", (patched.get(k) or "<missing>")[:1500])
            print("   clean  :", (clean.get(k) or "<missing>")[:1500])
        print("%d differing cases" % len(diffs))
        print("FAIL")
        return 1
    print("PASS")
    return 0


if __name__ == "__main__":
    sys.exit(main())
