#!/usr/bin/env python
"""Equivalence check for conditionalrewards.py between two repo roots
(save_results_to_file, read_dict_from_file, run_games, main).

usage: python equiv.py <repo-root-A> <repo-root-B>

Each root is exercised in its own subprocess (worker mode) inside a fresh
temporary working directory, on the same deterministic inputs. The worker
prints a JSON list of [label, observation]; the parent compares both lists and
reports the first difference. Wall-clock times are the only thing masked.
"""
import copy
import io
import json
import logging
import os
import random
import re
import shutil
import subprocess
import sys
import tempfile

P1, P2, PR = "Player 1", "Player 2", "Probabilistic"
TIME_LINE = re.compile(r"(Total time\s*: ).*$", re.MULTILINE)
FIXED_TIME = 0.015625


def mask(text):
    """Replace the measured wall-clock time of 'Total time : ...' lines."""
    return TIME_LINE.sub(r"\1<t>", text)


# --------------------------------------------------------------------------- #
# inputs
# --------------------------------------------------------------------------- #
def random_game(rng, reachable=True):
    """A well formed game that the solver finishes on (DAG + absorbing tail, reward 0 there)."""
    n_states = rng.randint(3, 9)
    players, transition_list, rewards = [], [], []
    for state in range(n_states):
        if state >= n_states - 2:
            players.append(PR)
            transition_list.append([(1, state)])
            rewards.append(0)
            continue
        player = rng.choice([P1, P2, PR])
        targets = [rng.randrange(state + 1, n_states) for _ in range(rng.randint(1, 3))]
        if player == PR:
            transitions = [(1 / len(targets), target) for target in targets]
        else:
            transitions = [(f"act{i}", target) for i, target in enumerate(targets)]
        players.append(player)
        transition_list.append(transitions)
        rewards.append(rng.choice([0, 1, 2, 5, 0.5, 7 / 3]))
    final = n_states - 1 if reachable else n_states - 2
    game = dict(rewards=rewards, players=players, transition_list=transition_list,
                final_states=[final])
    if not reachable:
        # state 0 goes only to the non-final sink: reach probability 0
        game["players"][0] = PR
        game["transition_list"][0] = [(1, n_states - 1)]
    return game


def break_game(rng, game):
    """Return (kind, malformed copy of game): one well-formedness rule broken at a random place."""
    game = copy.deepcopy(game)
    n_states = len(game["players"])
    position = rng.randrange(n_states)
    kinds = ["short_rewards", "long_rewards", "short_transitions", "long_players",
             "negative_reward", "unknown_player", "final_low", "final_high", "empty_transitions",
             "none_transitions", "tuple_transitions", "not_tuples", "three_tuple", "one_tuple",
             "bad_action", "bad_probability", "str_successor", "float_successor",
             "successor_high", "successor_low", "no_final"]
    kind = rng.choice(kinds)
    transitions = game["transition_list"]
    if kind == "short_rewards":
        game["rewards"].pop()
    elif kind == "long_rewards":
        game["rewards"].append(0)
    elif kind == "short_transitions":
        transitions.pop()
    elif kind == "long_players":
        game["players"].append(PR)
    elif kind == "negative_reward":
        game["rewards"][position] = -1
    elif kind == "unknown_player":
        game["players"][position] = "Player 3"
    elif kind == "final_low":
        game["final_states"].append(-1)
    elif kind == "final_high":
        game["final_states"].insert(0, n_states)
    elif kind == "empty_transitions":
        transitions[position] = []
    elif kind == "none_transitions":
        transitions[position] = None
    elif kind == "tuple_transitions":
        transitions[position] = tuple(transitions[position])
    elif kind == "not_tuples":
        transitions[position] = [list(t) for t in transitions[position]]
    elif kind == "three_tuple":
        transitions[position][-1] = transitions[position][-1] + (0,)
    elif kind == "one_tuple":
        transitions[position][-1] = transitions[position][-1][:1]
    elif kind == "bad_action":
        game["players"][position] = P1
        transitions[position] = [(1, t[1]) for t in transitions[position]]
    elif kind == "bad_probability":
        game["players"][position] = PR
        transitions[position] = [("x", t[1]) for t in transitions[position]]
    elif kind == "str_successor":
        transitions[position][0] = (transitions[position][0][0], "1")
    elif kind == "float_successor":
        transitions[position][0] = (transitions[position][0][0], 1.0)
    elif kind == "successor_high":
        transitions[position][-1] = (transitions[position][-1][0], n_states)
    elif kind == "successor_low":
        transitions[position][-1] = (transitions[position][-1][0], -1)
    elif kind == "no_final":
        game["final_states"] = []
    return kind, game


def batch_inputs():
    """List of (label, games_dict) for run_games."""
    game_5_4 = dict(rewards=[0, 0, 100, 1, 0, 0, 0], players=[P2, PR, PR, P1, PR, PR, PR],
                    transition_list=[[("beta", 1), ("alfa", 2)], [(1 / 4, 4), (3 / 4, 3)],
                                     [(1 / 2, 5), (1 / 2, 6)], [("delta", 4), ("gamma", 5)],
                                     [(1, 4)], [(1, 5)], [(1, 6)]], final_states=[5])
    game_5_5 = dict(rewards=[0, 2, 5 / 3, 0, 0, 0, 0, 0],
                    players=[P1, P2, P2, PR, PR, PR, PR, PR],
                    transition_list=[[("alfa", 1), ("beta", 2)], [(" ", 3)], [(" ", 4)],
                                     [(0.5, 5), (0.5, 6)], [(0.75, 6), (0.25, 7)],
                                     [(1, 5)], [(1, 6)], [(1, 7)]], final_states=[6])
    unreachable = dict(rewards=[1, 0, 0], players=[PR, PR, PR],
                       transition_list=[[(1, 1)], [(1, 1)], [(1, 2)]], final_states=[2])
    cases = [
        ("empty", {}),
        ("single", {"game_5_4": game_5_4}),
        ("two", {"game_5_4": game_5_4, "game_5_5": game_5_5}),
        ("two reversed", {"game_5_5": game_5_5, "game_5_4": game_5_4}),
        ("no solution", {"u": unreachable}),
        ("no solution between", {"a": game_5_4, "u": unreachable, "b": game_5_5}),
        ("name clash", {"g": game_5_4, "g_no_prune": game_5_5}),
        ("name clash reversed", {"g_no_prune": game_5_5, "g": game_5_4}),
        ("empty name", {"": game_5_4}),
        ("prune key given", {"g": dict(game_5_4, prune_states=False)}),
        ("extra key", {"a": game_5_5, "g": dict(game_5_4, colour="red"), "b": game_5_4}),
        ("missing key", {"g": {k: v for k, v in game_5_4.items() if k != "rewards"}}),
        ("players none", {"g": dict(game_5_4, players=None)}),
        ("game not a dict", {"a": game_5_4, "g": [1, 2, 3]}),
        ("int name", {7: game_5_4}),
        ("shared game object", {"x": game_5_4, "y": game_5_4}),
        ("not a dict", [game_5_4]),
        ("tuple final states", {"g": dict(game_5_4, final_states=(5,))}),
        ("final states none", {"g": dict(game_5_4, final_states=None)}),
        ("rewards none", {"a": game_5_5, "g": dict(game_5_4, rewards=None)}),
        ("transitions none", {"g": dict(game_5_4, transition_list=None)}),
    ]
    rng = random.Random(31337)
    for index in range(120):
        cases.append((f"random valid {index}", {f"r{index}": random_game(rng)}))
    for index in range(160):
        kind, broken = break_game(rng, random_game(rng))
        cases.append((f"random malformed {index} {kind}", {f"m{index}": broken}))
    for index in range(60):
        games = {}
        for position in range(rng.randint(2, 5)):
            roll = rng.random()
            if roll < 0.55:
                games[f"ok{position}"] = random_game(rng)
            elif roll < 0.8:
                games[f"bad{position}"] = break_game(rng, random_game(rng))[1]
            else:
                games[f"unreach{position}"] = random_game(rng, reachable=False)
        cases.append((f"random batch {index}", games))
    return [(label, copy.deepcopy(games)) for label, games in cases]


REPORT_NAMES = ["inputs/example.py", "example", "a.b.c.py", "dir.with.dot/name.py",
                "/abs/path/g.py", "", "./x.py", "x/", ".hidden", "..", "deep/er/path/f.txt",
                "sp ace.py", "back\\slash.py", "inputs/example.PY"]


def handmade_results():
    full = {
        "n_states": 3, "n_transitions": 4, "n_iterations_reach": 2, "n_iterations_rew": 5,
        "reachability_strategies": [["a"], None, None], "final_strategies": [["a"], None, None],
        "total_time": 0.25, "msg": "Game solved", "rewards": [1.5, 0, 0],
        "rew_min_reach": [1.5, 0, 0], "probabilities": [1.0, 1, 0], "prob_min_rew": [1.0, 1, 0]}
    cases = [("empty", {}), ("one", {"g": full}),
             ("reordered keys", {"g": dict(reversed(list(full.items())))}),
             ("odd values", {"g": dict(full, msg="multi\nline", rewards=None, total_time="n/a",
                                       final_strategies=[["b"], None, None]), 5: full})]
    for key in full:
        broken = {k: v for k, v in full.items() if k != key}
        cases.append((f"missing {key}", {"first": full, "broken": broken, "last": full}))
    cases.append(("extra key", {"g": dict(full, extra=1)}))
    cases.append(("entry not a dict", {"g": full, "h": None}))
    cases.append(("results not a dict", [full]))
    return cases


READ_FILES = {
    "dict.py": "{'a': {'rewards': [1, 2], 'players': ['Player 1'], 'x': (1/3, 2)}}",
    "dict_newlines.py": "\n\n{\n 'a': 1,\n 'b': [1,\n 2]\n}\n\n",
    "empty_dict.py": "{}",
    "list.py": "[1, 2, 3]",
    "tuple.py": "({'a': 1},)",
    "number.py": "42",
    "string.py": "'{}'",
    "none.py": "None",
    "set.py": "{1, 2}",
    "empty.py": "",
    "blank.py": "  \n",
    "syntax_error.py": "{'a': ",
    "statement.py": "x = {'a': 1}",
    "name_error.py": "{'a': undefined_name}",
    "zero_division.py": "{'a': 1/0}",
    "raises_value_error.py": "{'a': int('x')}",
    "dict_call.py": "dict(a=1, b=[(0.5, 1)])",
    "comprehension.py": "{str(i): i * i for i in range(4)}",
    "ordered.py": "__import__('collections').OrderedDict(a=1)",
    "duplicate_keys.py": "{'a': 1, 'a': 2, 'b': 3}",
    "crlf.py": "{'a':\r\n 1}",
    "unicode.py": "{'jeu': 'd\u00e9j\u00e0'}",
    "uses_module_names.py": "{'a': StochasticGame.__name__, 'b': copy.__name__}",
    "uses_argument.py": "{'a': file_name}",
    "uses_contents.py": "{'a': len(contents)}",
}


# --------------------------------------------------------------------------- #
# worker
# --------------------------------------------------------------------------- #
class Recorder(logging.Handler):
    def __init__(self):
        super().__init__(level=logging.INFO)
        self.lines = []

    def emit(self, record):
        self.lines.append(f"{record.levelname}:{mask(record.getMessage())}")


def describe_exception(error):
    return f"exc {type(error).__name__}: {error}"


def tree_snapshot(folder):
    """Every file below folder with its content."""
    snapshot = []
    for directory, _, files in sorted(os.walk(folder)):
        for file_name in sorted(files):
            path = os.path.join(directory, file_name)
            with open(path, "rb") as handle:
                snapshot.append([os.path.relpath(path, folder), handle.read().decode("utf-8")])
    return snapshot


def fresh_outputs():
    shutil.rmtree("outputs", ignore_errors=True)
    os.makedirs("outputs")


def normalise_results(results):
    """repr of the batch results with the timing replaced; keeps key order of everything."""
    if not isinstance(results, dict):
        return repr(results)
    shown = []
    for name, entry in results.items():
        entry = dict(entry)
        time_ok = isinstance(entry.get("total_time"), float) and entry["total_time"] >= 0
        entry["total_time"] = "<float>" if time_ok else repr(entry.get("total_time"))
        shown.append((name, list(entry.items())))
    return repr(shown)


def run_main_subprocess(root, arguments):
    env = dict(os.environ, PYTHONHASHSEED="0", PYTHONDONTWRITEBYTECODE="1")
    completed = subprocess.run(
        [sys.executable, os.path.join(root, "conditionalrewards.py")] + arguments,
        capture_output=True, text=True, env=env, timeout=600)
    stderr = mask(completed.stderr)
    if "Traceback (most recent call last)" in stderr:
        # file names / line numbers in a traceback legitimately differ: keep the head and the error
        head = stderr.split("Traceback (most recent call last)")[0]
        stderr = head + "<traceback> " + stderr.strip().splitlines()[-1]
    stderr = stderr.replace(root, "<root>")
    return [completed.returncode, mask(completed.stdout), stderr]


def worker(root):
    sys.path.insert(0, root)
    import conditionalrewards as module
    assert os.path.dirname(os.path.abspath(module.__file__)) == os.path.abspath(root)
    recorder = Recorder()
    logging.getLogger().addHandler(recorder)
    logging.getLogger().setLevel(logging.INFO)

    observations = []
    saved_results = []

    # ---- run_games ---------------------------------------------------------
    for label, games in batch_inputs():
        before = copy.deepcopy(games)
        recorder.lines = []
        try:
            results = module.run_games(games)
            outcome = "ok " + normalise_results(results)
            saved_results.append((label, results))
        except Exception as error:  # noqa: BLE001
            outcome = describe_exception(error)
        observations.append([f"run_games[{label}].result", outcome])
        observations.append([f"run_games[{label}].input after", repr(games)])
        observations.append([f"run_games[{label}].input changed", repr(games != before)])
        observations.append([f"run_games[{label}].log", "\n".join(recorder.lines)])

    # each game alone gives the same entries as inside a batch (C12)
    for label, games in batch_inputs():
        if not label.startswith("random batch"):
            continue
        try:
            together = module.run_games(copy.deepcopy(games))
        except Exception as error:  # noqa: BLE001
            observations.append([f"isolation[{label}]", describe_exception(error)])
            continue
        alone = {}
        for name, game in games.items():
            alone.update(module.run_games({name: copy.deepcopy(game)}))
        observations.append([f"isolation[{label}]",
                             repr(normalise_results(together) == normalise_results(alone))])

    # ---- save_results_to_file ---------------------------------------------
    for index, (label, results) in enumerate(saved_results):
        for entry in results.values():
            entry["total_time"] = FIXED_TIME * (index + 1)
        fresh_outputs()
        report_name = REPORT_NAMES[index % len(REPORT_NAMES)]
        try:
            returned = module.save_results_to_file(results, report_name)
            outcome = f"ok {returned!r}"
        except Exception as error:  # noqa: BLE001
            outcome = describe_exception(error)
        observations.append([f"save[{label}] as {report_name!r}", outcome])
        observations.append([f"save[{label}].files", repr(tree_snapshot("outputs"))])
    for label, results in handmade_results():
        for report_name in REPORT_NAMES[:3]:
            fresh_outputs()
            try:
                outcome = f"ok {module.save_results_to_file(copy.deepcopy(results), report_name)!r}"
            except Exception as error:  # noqa: BLE001
                outcome = describe_exception(error)
            observations.append([f"save handmade[{label}] as {report_name!r}", outcome])
            observations.append([f"save handmade[{label}].files", repr(tree_snapshot("outputs"))])
    # existing report is overwritten, not appended to
    fresh_outputs()
    with open("outputs/example.txt", "w") as handle:
        handle.write("old content that is longer than the new one\n" * 50)
    module.save_results_to_file(handmade_results()[1][1], "inputs/example.py")
    observations.append(["save overwrites", repr(tree_snapshot("outputs"))])
    # no outputs folder
    shutil.rmtree("outputs")
    try:
        outcome = f"ok {module.save_results_to_file(handmade_results()[1][1], 'inputs/example.py')!r}"
    except Exception as error:  # noqa: BLE001
        outcome = describe_exception(error)
    observations.append(["save without folder", outcome + " " + repr(os.path.exists("outputs"))])
    for bad_name in (None, 5, b"inputs/x.py"):
        fresh_outputs()
        try:
            outcome = f"ok {module.save_results_to_file({}, bad_name)!r}"
        except Exception as error:  # noqa: BLE001
            outcome = describe_exception(error)
        observations.append([f"save as {bad_name!r}", outcome + " " + repr(tree_snapshot("outputs"))])

    # ---- read_dict_from_file ----------------------------------------------
    os.makedirs("inputs", exist_ok=True)
    for file_name, text in READ_FILES.items():
        with open(os.path.join("inputs", file_name), "w", newline="") as handle:
            handle.write(text)
    os.makedirs("inputs/folder.py", exist_ok=True)
    candidates = [os.path.join("inputs", name) for name in READ_FILES]
    candidates += ["inputs/does_not_exist.py", "inputs/folder.py", "", "inputs"]
    shipped = os.path.join(root, "inputs")
    candidates += [os.path.join(shipped, name) for name in sorted(os.listdir(shipped))
                   if os.path.getsize(os.path.join(shipped, name)) < 300000]
    for path in candidates:
        try:
            value = module.read_dict_from_file(path)
            outcome = f"ok {type(value).__name__} {value!r}"
        except Exception as error:  # noqa: BLE001
            outcome = describe_exception(error)
        observations.append([f"read[{path.replace(root, '<root>')}]", outcome.replace(root, "<root>")])
    for bad_path in (None, 3.5, ["inputs/dict.py"]):
        try:
            outcome = f"ok {module.read_dict_from_file(bad_path)!r}"
        except Exception as error:  # noqa: BLE001
            outcome = describe_exception(error)
        observations.append([f"read[{bad_path!r}]", outcome])
    # text read back: what the file denotes (C16, last clause)
    observations.append(["read vs eval", repr(
        module.read_dict_from_file("inputs/dict.py") == eval(READ_FILES["dict.py"]))])

    # ---- main (separate interpreter, this working directory) -------------
    example = os.path.join(root, "inputs", "example_games.py")
    shutil.copy(example, "inputs/example_games.py")
    with open("inputs/mixed.py", "w") as handle:
        rng = random.Random(11)
        handle.write(repr({"good": random_game(rng), "bad": break_game(rng, random_game(rng))[1],
                           "unreach": random_game(rng, reachable=False),
                           "good2": random_game(rng)}))
    command_lines = [
        ["-f", "inputs/example_games.py"],
        ["-f", "inputs/example_games.py", "-s"],
        ["--file", "inputs/example_games.py", "--save_results", "-l", "i"],
        ["-f", "inputs/mixed.py", "-s", "-l", "INFO"],
        ["-f", "inputs/mixed.py", "-l", "d"],
        ["-f", "inputs/dict.py", "-l", "dd"],
        ["-s", "-f", example],
        ["-f", "inputs/list.py", "-s"],
        ["-f", "inputs/syntax_error.py", "-s"],
        ["-f", "inputs/does_not_exist.py", "-s"],
        ["-f", "inputs/empty_dict.py", "-s"],
        ["-f", "inputs/example_games.py", "-l", "verbose"],
        ["-f", "inputs/example_games.py", "-l", ""],
        [], ["-s"], ["-h"], ["-f"], ["-f", "inputs/example_games.py", "--unknown"],
        ["inputs/example_games.py"],
    ]
    for arguments in command_lines:
        fresh_outputs()
        result = run_main_subprocess(root, arguments)
        if "dd" in arguments:
            result[2] = re.sub(r"^\d{4}-\d\d-\d\d \d\d:\d\d:\d\d,\d+", "<stamp>", result[2],
                               flags=re.MULTILINE)
        shown_arguments = [argument.replace(root, "<root>") for argument in arguments]
        observations.append([f"main{shown_arguments}", repr(result)])
        snapshot = [[name, mask(text)] for name, text in tree_snapshot("outputs")]
        observations.append([f"main{shown_arguments}.files", repr(snapshot)])
    # -s without the outputs folder
    shutil.rmtree("outputs")
    observations.append(["main without outputs folder", repr(
        run_main_subprocess(root, ["-f", "inputs/example_games.py", "-s"]))])

    # main() called in-process with a patched sys.argv
    fresh_outputs()
    logging.getLogger().removeHandler(recorder)
    old_argv, old_stdout, old_stderr = sys.argv, sys.stdout, sys.stderr
    for arguments in (["-f", "inputs/mixed.py", "-s"], ["-f", "inputs/list.py"], ["--nope"]):
        sys.argv = ["conditionalrewards.py"] + arguments
        sys.stdout, sys.stderr = io.StringIO(), io.StringIO()
        try:
            outcome = f"ok {module.main()!r}"
        except SystemExit as error:
            outcome = f"SystemExit {error.code!r}"
        except Exception as error:  # noqa: BLE001
            outcome = describe_exception(error)
        finally:
            captured = [sys.stdout.getvalue(), mask(sys.stderr.getvalue())]
            sys.argv, sys.stdout, sys.stderr = old_argv, old_stdout, old_stderr
        observations.append([f"main() in process {arguments}", outcome + " " + repr(captured)])
    snapshot = [[name, mask(text)] for name, text in tree_snapshot("outputs")]
    observations.append(["main() in process files", repr(snapshot)])

    # public names the rest of the code base / users rely on
    observations.append(["public names", repr([name for name in (
        "save_results_to_file", "read_dict_from_file", "run_games", "set_logger", "init_parser",
        "main", "StochasticGame") if callable(getattr(module, name, None))])])
    json.dump(observations, sys.stdout)


# --------------------------------------------------------------------------- #
# parent
# --------------------------------------------------------------------------- #
def run_worker(root):
    env = dict(os.environ, PYTHONHASHSEED="0", PYTHONDONTWRITEBYTECODE="1")
    with tempfile.TemporaryDirectory(prefix="equiv_") as folder:
        completed = subprocess.run(
            [sys.executable, os.path.abspath(__file__), "--worker", os.path.abspath(root)],
            capture_output=True, text=True, env=env, cwd=folder, timeout=3600)
    if completed.returncode != 0:
        print(f"worker for {root} failed:\n{completed.stderr[-3000:]}")
        sys.exit(1)
    return json.loads(completed.stdout)


def main():
    if len(sys.argv) == 3 and sys.argv[1] == "--worker":
        worker(sys.argv[2])
        return
    if len(sys.argv) != 3:
        print(__doc__)
        sys.exit(2)
    first, second = run_worker(sys.argv[1]), run_worker(sys.argv[2])
    for (label_a, value_a), (label_b, value_b) in zip(first, second):
        if label_a != label_b or value_a != value_b:
            print(f"DIFFERENT at {label_a} / {label_b}:\n  A: {value_a[:3000]}\n  B: {value_b[:3000]}")
            sys.exit(1)
    if len(first) != len(second):
        print(f"DIFFERENT number of observations: {len(first)} vs {len(second)}")
        sys.exit(1)
    print("SAME")


if __name__ == "__main__":
    main()
