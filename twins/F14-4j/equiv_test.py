#!/usr/bin/env python
"""
Behavioural equivalence check for refactorings around property C14
(the 'probabilities under minimal reward' / 'rewards under minimal reachability'
outputs of StochasticGame.solve(), i.e. solve()[6] and solve()[7], and the report
lines derived from them).

usage:  python equiv_test.py <path-to-patched-root> <path-to-clean-root>

Both trees are exercised in separate subprocesses on the same deterministic
(seeded) inputs; every observation is turned into a string (repr of the results,
or exception type + message) and the two lists are compared.
Prints PASS / exits 0 when nothing differs, FAIL / exits 1 otherwise.

Sections
  A  random well-formed games (cycles through probabilistic states, several finals,
     dead sinks, reward ties, zero probabilities ...) x both pruning modes, full
     solve() tuple.  A deterministic work budget (number of node updates) replaces a
     wall-clock limit so that non-converging games give the same observation in
     both trees (the partial per-state values at the cut are compared as well).
  B  node level: value_iteration_rewards / _expected_rewards_min_reach on nodes whose
     neighbours carry random values (ties, nan, inf, negatives), also after pruning.
  C  solver level: value_iteration_reachability (seeding) + value_iteration_total_rewards
     called directly, including the DEBUG log stream.
  D  driver level: conditionalrewards.run_games + save_results_to_file on the shipped
     small inputs and on random three-game files (times stripped).
  E  boundary / malformed games: exception type and message.
"""
import json
import os
import subprocess
import sys
import tempfile

BUDGET = 6000          # node updates allowed per solve
N_RANDOM_GAMES = 420
SEED = 140014


# --------------------------------------------------------------------------- #
# worker side
# --------------------------------------------------------------------------- #

class BudgetExceeded(BaseException):
    pass


def _install_budget(tad, counter):
    """Count node updates; past the budget raise with a snapshot of all values."""
    def wrap(cls, name):
        orig = cls.__dict__.get(name)
        if orig is None:
            return

        def wrapper(self, state_list, _orig=orig):
            counter[0] += 1
            if counter[0] > counter[1]:
                snap = [(s.reach_probability, s.expected_rewards,
                         s.expected_rewards_min_reach, s.expected_reach_min_rewards,
                         list(s.next_states)) for s in state_list]
                raise BudgetExceeded(repr(snap))
            return _orig(self, state_list)
        setattr(cls, name, wrapper)

    for cls in (tad.ProbabilisticNode, tad.PlayerOne, tad.PlayerTwo):
        wrap(cls, "value_iteration_rewards")
        wrap(cls, "value_iteration_reach")


def _observe(fn):
    try:
        return "OK " + repr(fn())
    except BudgetExceeded as e:
        return "BUDGET " + str(e)
    except RecursionError:
        return "EXC RecursionError"
    except Exception as e:  # noqa
        return "EXC %s: %s" % (type(e).__name__, e)


def _random_game(rng, shape):
    """A well-formed game. shape steers how 'nice' (stopping) it is."""
    P1, P2, PR = "Player 1", "Player 2", "Probabilistic"
    n_inner = rng.randint(1, 8)
    n_final = rng.randint(1, 3)
    n_dead = rng.choice([0, 0, 1, 1, 2])
    n = n_inner + n_final + n_dead
    sinks = list(range(n_inner, n))
    rng.shuffle(sinks)
    finals = sorted(sinks[:n_final])
    players, transitions, rewards = [], [], []
    reward_pool = rng.choice([[0, 1, 2, 3], [1, 1, 2], [0, 5, 10, 100],
                              [0.5, 1.25, 2, 5 / 3, 11 / 6], [0, 1], [3], [10 ** 25, 1, 0]])
    actions = ["a", "b", "c", "d", " "]
    for s in range(n):
        if s >= n_inner:
            players.append(PR)
            transitions.append([(1, s)])
            rewards.append(0 if shape != "wild" else rng.choice([0, 0, 0, 1]))
            continue
        player = rng.choice([P1, P2, PR, PR] if shape != "players" else [P1, P2, P1, P2, PR])
        players.append(player)
        rewards.append(rng.choice(reward_pool))
        k = rng.randint(1, 3)
        # forward bias gives mostly stopping games; 'wild' allows anything
        if shape == "wild":
            targets = [rng.randrange(n) for _ in range(k)]
        else:
            targets = []
            for _ in range(k):
                if rng.random() < 0.7:
                    targets.append(rng.randrange(s + 1, n))
                else:
                    targets.append(rng.randrange(n))
        if player == PR:
            dist = rng.choice({
                1: [[1], [1.0]],
                2: [[0.5, 0.5], [0.25, 0.75], [0.01, 0.99], [1 / 3, 2 / 3], [0.35, 0.65],
                    [0.0, 1.0], [1e-9, 1 - 1e-9]],
                3: [[0.25, 0.25, 0.5], [1 / 3, 1 / 3, 1 / 3], [0.1, 0.2, 0.7], [0.5, 0, 0.5],
                    [0.3, 0.3, 0.4]],
            }[k])
            if shape != "wild":
                # make sure a probabilistic state does not trap itself for sure
                if all(t == s for t in targets):
                    targets[0] = rng.randrange(n_inner, n)
            transitions.append([(p, t) for p, t in zip(dist, targets)])
        else:
            if shape != "wild" and all(t <= s for t in targets):
                targets[0] = rng.randrange(s + 1, n)
            names = actions[:]
            if rng.random() < 0.1:
                names = ["a", "a", "b"]      # duplicated action names
            else:
                rng.shuffle(names)
            transitions.append([(names[i], t) for i, t in enumerate(targets)])
    return {"rewards": rewards, "players": players, "transition_list": transitions,
            "final_states": finals}


def _section_a(tad, rng, out, counter):
    import copy
    shapes = ["nice", "nice", "nice", "players", "wild"]
    for g in range(N_RANDOM_GAMES):
        shape = shapes[g % len(shapes)]
        game = _random_game(rng, shape)
        for prune in (True, False):
            gc = copy.deepcopy(game)
            counter[0] = 0
            sg = tad.StochasticGame(prune_states=prune, **gc)
            out.append(("A%d/%s/%s" % (g, shape, prune), _observe(sg.solve)))
            out.append(("A%d/%s/%s/input-untouched" % (g, shape, prune), repr(gc == game)))


def _weird_value(rng):
    return rng.choice([0, 0, 1, 1, 2, 2.5, 2.5, 7, 1e-7, 0.9999996, 0.9999994, 1.0000004,
                       3 + 1e-12, 3, 3, float("inf"), float("nan"), -1, -2.5, 10 ** 25])


def _section_b(tad, rng, out, counter):
    counter[1] = 10 ** 9
    for g in range(260):
        game = _random_game(rng, ["nice", "players", "wild"][g % 3])
        sg = tad.StochasticGame(**game)
        try:
            states = sg.init_states()
        except Exception as e:  # noqa
            out.append(("B%d/init" % g, "EXC %s: %s" % (type(e).__name__, e)))
            continue
        tame = g % 4 != 0
        for s in states:
            if tame:
                s.reach_probability = rng.choice([0, 0, 0.25, 0.5, 0.5, 1, 1, 0.4999996, 0.5000004])
                s.expected_rewards = rng.choice([0, 1, 1, 2, 2, 3.5, 7, 7])
                s.expected_rewards_min_reach = rng.choice([0, 1, 2, 2, 3.5, 7])
                s.expected_reach_min_rewards = rng.choice([0, 0.25, 0.5, 1])
            else:
                s.reach_probability = _weird_value(rng)
                s.expected_rewards = _weird_value(rng)
                s.expected_rewards_min_reach = _weird_value(rng)
                s.expected_reach_min_rewards = _weird_value(rng)
        if g % 5 == 0:
            solver = tad.Solver(states)
            out.append(("B%d/prune" % g, _observe(lambda: (solver.prune_paths(), solver.prune_states()))))
        for s in states:
            out.append(("B%d/vir/%d" % (g, s.idx),
                        _observe(lambda: s.value_iteration_rewards(states))))
            if isinstance(s, tad.PlayerTwo):
                acts = [a for a, _ in s.next_states]
                cands = [[], acts, acts[:1], acts[-1:], acts[1:], acts + ["zz"], ["zz"] + acts[:1],
                         ["zz"], tuple(acts)]
                for ci, strat in enumerate(cands):
                    out.append(("B%d/ermr/%d/%d" % (g, s.idx, ci),
                                _observe(lambda: s._expected_rewards_min_reach(states, strat))))
                out.append(("B%d/wsr/%d" % (g, s.idx),
                            _observe(lambda: s.get_worst_strategies_reachability(states, 6))))
        out.append(("B%d/after" % g, repr([(s.reach_probability, s.expected_rewards,
                                              s.expected_rewards_min_reach,
                                              s.expected_reach_min_rewards, s.next_states)
                                             for s in states])))


def _section_c(tad, rng, out, counter):
    import io
    import logging
    from reverse_dfs import reverse_dfs
    stream = io.StringIO()
    handler = logging.StreamHandler(stream)
    handler.setFormatter(logging.Formatter("%(levelname)s %(message)s"))
    root = logging.getLogger()
    for g in range(90):
        game = _random_game(rng, ["nice", "players", "nice", "wild"][g % 4])
        debug = g % 3 == 0
        stream.seek(0)
        stream.truncate()
        if debug:
            root.addHandler(handler)
            root.setLevel(logging.DEBUG)
        try:
            for prune in (True, False):
                states = tad.StochasticGame(**game).init_states()
                solver = tad.Solver(states) if g % 2 else tad.Solver(threshold=10 ** (-3), state_list=states)
                counter[0], counter[1] = 0, (1500 if debug else BUDGET)
                reach = reverse_dfs(game["transition_list"], game["final_states"])
                out.append(("C%d/%s/vireach" % (g, prune),
                            _observe(lambda: solver.value_iteration_reachability(reach, prune))))
                out.append(("C%d/%s/seed" % (g, prune),
                            repr([(s.reach_probability, s.expected_reach_min_rewards,
                                   s.expected_rewards_min_reach) for s in states])))
                if g % 2:
                    out.append(("C%d/%s/prune" % (g, prune), _observe(
                        lambda: (solver.prune_reachability(solver._get_reachability_strategies()),
                                 solver.prune_stochastich_game() if prune else None))))
                out.append(("C%d/%s/virew" % (g, prune),
                            _observe(solver.value_iteration_total_rewards)))
                out.append(("C%d/%s/final" % (g, prune),
                            repr([(s.expected_rewards, s.expected_rewards_min_reach,
                                   s.expected_reach_min_rewards) for s in states])))
                out.append(("C%d/%s/strategies" % (g, prune),
                            _observe(solver._get_total_rewards_strategies)))
        finally:
            if debug:
                root.removeHandler(handler)
                root.setLevel(logging.WARNING)
        if debug:
            out.append(("C%d/log" % g, stream.getvalue()))


def _strip_times(results):
    return {name: {k: v for k, v in res.items() if k != "total_time"}
            for name, res in results.items()}


def _section_d(tad, rng, out, counter, root_dir, workdir):
    import copy
    import conditionalrewards as cr
    os.makedirs(os.path.join(workdir, "outputs"), exist_ok=True)
    os.chdir(workdir)
    counter[1] = 10 ** 9
    shipped = ["paper_games.py", "example_games.py", "example_17_08.py", "manual_1_game_a.py",
               "manual_arrow_bottom.py", "robot_1_w1_l2_r6_rb10_lb5_tb10_lt0.py",
               "robot_1_w2_l1_r6_rb10_lb5_tb10_lt0.py", "robot_1_w2_l2_r6_rb10_lb5_tb10_lt0.py",
               "robot_999132423_w3_l3_r6_rb1_lb2_tb10_lt30.py",
               "robot_999132423_w3_l3_r6_rb1_lb2_tb10_lt30_force_down.py",
               "robot_manual_0_w4_l4_r6_rb10_lb5_tb10_lt30.py",
               "robot_47_w5_l5_r6_rb10_lb10_tb10_lt30.py",
               "robot_47_w5_l5_r6_rb10_lb10_tb10_lt30_force_down.py"]

    def run_and_report(label, games, file_name):
        holder = {}

        def go():
            holder["res"] = cr.run_games(games)
            return _strip_times(holder["res"])
        out.append((label + "/results", _observe(go)))
        if "res" in holder:
            out.append((label + "/save", _observe(lambda: cr.save_results_to_file(holder["res"], file_name))))
            report = os.path.join("outputs", file_name.split("/")[-1].split(".")[0] + ".txt")
            with open(report) as fh:
                lines = [ln for ln in fh.read().split("\n") if not ln.startswith("Total time")]
            out.append((label + "/report", "\n".join(lines)))

    for name in shipped:
        path = os.path.join(root_dir, "inputs", name)
        if not os.path.exists(path):
            out.append(("D/" + name, "missing"))
            continue
        games = _observe(lambda: cr.read_dict_from_file(path))
        if not games.startswith("OK "):
            out.append(("D/" + name, games))
            continue
        run_and_report("D/" + name, cr.read_dict_from_file(path), "inputs/" + name)

    for g in range(25):
        games = {}
        for j in range(3):
            counter[0] = 0
            game = _random_game(rng, "nice" if j < 2 else "players")
            games["g%d_%d" % (g, j)] = game
        # only keep files whose games converge inside the budget (checked on a copy)
        ok = True
        for game in games.values():
            for prune in (True, False):
                counter[0], counter[1] = 0, BUDGET
                r = _observe(tad.StochasticGame(prune_states=prune, **copy.deepcopy(game)).solve)
                if r.startswith("BUDGET"):
                    ok = False
        counter[1] = 10 ** 9
        out.append(("D/random%d/usable" % g, repr(ok)))
        if ok:
            run_and_report("D/random%d" % g, games, "inputs/random_%d.py" % g)


def _section_e(tad, out, counter):
    P1, P2, PR = "Player 1", "Player 2", "Probabilistic"
    nan, inf = float("nan"), float("inf")
    base = dict(rewards=[0, 1, 0, 0], players=[P2, P1, PR, PR],
                transition_list=[[("a", 1), ("b", 2)], [("c", 2), ("d", 3)], [(1, 2)], [(1, 3)]],
                final_states=[2])
    cases = {
        "base": base,
        "single_final_initial": dict(rewards=[0], players=[PR], transition_list=[[(1, 0)]], final_states=[0]),
        "single_final_initial_reward": dict(rewards=[2], players=[PR], transition_list=[[(1, 0)]], final_states=[0]),
        "single_p1_final": dict(rewards=[0], players=[P1], transition_list=[[("a", 0)]], final_states=[0]),
        "single_p2_final": dict(rewards=[0], players=[P2], transition_list=[[("a", 0)]], final_states=[0]),
        "initial_cannot_reach": dict(rewards=[0, 0, 0], players=[PR, PR, PR],
                                     transition_list=[[(1, 1)], [(1, 1)], [(1, 2)]], final_states=[2]),
        "p2_avoids": dict(rewards=[1, 0, 0], players=[P2, PR, PR],
                          transition_list=[[("a", 1), ("b", 2)], [(1, 1)], [(1, 2)]], final_states=[1]),
        "p2_tie_reach": dict(rewards=[1, 3, 2, 0], players=[P2, PR, PR, PR],
                             transition_list=[[("a", 1), ("b", 2)], [(1, 3)], [(1, 3)], [(1, 3)]],
                             final_states=[3]),
        "p2_tie_reach_and_reward": dict(rewards=[1, 2, 2, 0], players=[P2, PR, PR, PR],
                                        transition_list=[[("a", 1), ("b", 2)], [(1, 3)], [(1, 3)], [(1, 3)]],
                                        final_states=[3]),
        "p1_tie_reward": dict(rewards=[1, 2, 2, 0], players=[P1, PR, PR, PR],
                              transition_list=[[("a", 1), ("b", 2)], [(1, 3)], [(1, 3)], [(1, 3)]],
                              final_states=[3]),
        "p1_all_zero_rewards": dict(rewards=[0, 0, 0, 0], players=[P1, P2, PR, PR],
                                    transition_list=[[("a", 1), ("b", 2)], [("a", 2), ("b", 3)], [(1, 2)], [(1, 3)]],
                                    final_states=[3]),
        "two_finals": dict(rewards=[0, 4, 0, 0], players=[PR, P2, PR, PR],
                           transition_list=[[(0.5, 1), (0.5, 2)], [("x", 2), ("y", 3)], [(1, 2)], [(1, 3)]],
                           final_states=[2, 3]),
        "all_final": dict(rewards=[0, 0], players=[PR, PR], transition_list=[[(1, 1)], [(1, 1)]],
                          final_states=[0, 1]),
        "prob_cycle": dict(rewards=[1, 1, 0, 0], players=[PR, PR, PR, PR],
                           transition_list=[[(0.5, 1), (0.5, 2)], [(0.5, 0), (0.5, 3)], [(1, 2)], [(1, 3)]],
                           final_states=[2]),
        "nan_reward": dict(base, rewards=[0, nan, 0, 0]),
        "nan_reward_initial": dict(base, rewards=[nan, 1, 0, 0]),
        "inf_reward": dict(base, rewards=[0, inf, 0, 0]),
        "inf_reward_zero_prob": dict(rewards=[0, inf, 0], players=[PR, PR, PR],
                                     transition_list=[[(0.0, 1), (1.0, 2)], [(1, 2)], [(1, 2)]], final_states=[2]),
        "negative_reward": dict(base, rewards=[0, -1, 0, 0]),
        "str_reward": dict(base, rewards=[0, "1", 0, 0]),
        "none_reward": dict(base, rewards=[0, None, 0, 0]),
        "bool_reward": dict(base, rewards=[False, True, 0, 0]),
        "short_rewards": dict(base, rewards=[0, 1, 0]),
        "empty_rewards": dict(base, rewards=[]),
        "short_transitions": dict(base, transition_list=base["transition_list"][:3]),
        "empty_transition": dict(base, transition_list=[[("a", 1), ("b", 2)], [], [(1, 2)], [(1, 3)]]),
        "none_transition": dict(base, transition_list=[[("a", 1), ("b", 2)], None, [(1, 2)], [(1, 3)]]),
        "tuple_transition": dict(base, transition_list=[(("a", 1), ("b", 2)), [("c", 2), ("d", 3)], [(1, 2)], [(1, 3)]]),
        "list_edge": dict(base, transition_list=[[["a", 1], ("b", 2)], [("c", 2), ("d", 3)], [(1, 2)], [(1, 3)]]),
        "triple_edge": dict(base, transition_list=[[("a", 1, 0), ("b", 2)], [("c", 2), ("d", 3)], [(1, 2)], [(1, 3)]]),
        "int_action": dict(base, transition_list=[[(1, 1), ("b", 2)], [("c", 2), ("d", 3)], [(1, 2)], [(1, 3)]]),
        "str_probability": dict(base, transition_list=[[("a", 1), ("b", 2)], [("c", 2), ("d", 3)], [("1", 2)], [(1, 3)]]),
        "float_target": dict(base, transition_list=[[("a", 1.0), ("b", 2)], [("c", 2), ("d", 3)], [(1, 2)], [(1, 3)]]),
        "target_out_of_range": dict(base, transition_list=[[("a", 4), ("b", 2)], [("c", 2), ("d", 3)], [(1, 2)], [(1, 3)]]),
        "target_negative": dict(base, transition_list=[[("a", -1), ("b", 2)], [("c", 2), ("d", 3)], [(1, 2)], [(1, 3)]]),
        "bad_player": dict(base, players=[P2, "Player 3", PR, PR]),
        "final_out_of_range": dict(base, final_states=[4]),
        "final_negative": dict(base, final_states=[-1]),
        "no_finals": dict(base, final_states=[]),
        "finals_tuple": dict(base, final_states=(2,)),
        "finals_set": dict(base, final_states={2}),
        "nan_probability": dict(base, transition_list=[[("a", 1), ("b", 2)], [("c", 2), ("d", 3)], [(nan, 2)], [(1, 3)]]),
        "probs_not_summing": dict(rewards=[1, 0, 0], players=[PR, PR, PR],
                                  transition_list=[[(0.5, 1), (0.25, 2)], [(1, 1)], [(1, 2)]], final_states=[1]),
        "probs_over_one": dict(rewards=[1, 0, 0], players=[PR, PR, PR],
                               transition_list=[[(0.9, 1), (0.9, 2)], [(1, 1)], [(1, 2)]], final_states=[1]),
        "negative_probability": dict(rewards=[1, 0, 0], players=[PR, PR, PR],
                                     transition_list=[[(1.5, 1), (-0.5, 2)], [(1, 1)], [(1, 2)]], final_states=[1]),
        "self_loop_reward": dict(rewards=[1, 0], players=[P1, PR],
                                 transition_list=[[("stay", 0), ("go", 1)], [(1, 1)]], final_states=[1]),
        "p2_self_loop": dict(rewards=[1, 0], players=[P2, PR],
                             transition_list=[[("stay", 0), ("go", 1)], [(1, 1)]], final_states=[1]),
        "empty_game": dict(rewards=[], players=[], transition_list=[], final_states=[0]),
    }
    for name, game in cases.items():
        for prune in (True, False):
            counter[0], counter[1] = 0, BUDGET

            def go():
                return tad.StochasticGame(prune_states=prune, **game).solve()
            out.append(("E/%s/%s" % (name, prune), _observe(go)))
    for args in [dict(threshold=0), dict(threshold=-1), dict(threshold=1), dict(threshold=0.5),
                 dict(threshold=float("nan")), dict()]:
        out.append(("E/solver/%r" % (args,), _observe(lambda: vars(tad.Solver([], **args)))))
    counter[0], counter[1] = 0, BUDGET
    out.append(("E/solver/empty-rew", _observe(lambda: tad.Solver([]).solve_total_rewards())))


def worker(root_dir, result_path):
    import random
    import signal
    root_dir = os.path.abspath(root_dir)
    sys.path.insert(0, root_dir)
    sys.dont_write_bytecode = True
    import logging
    # keep logging.info()/debug() from installing the default stderr handler
    logging.getLogger().addHandler(logging.NullHandler())
    import tad
    assert os.path.abspath(tad.__file__).startswith(root_dir), tad.__file__
    counter = [0, BUDGET]
    _install_budget(tad, counter)
    out = []

    def on_alarm(signum, frame):
        raise BudgetExceeded("WALLCLOCK")
    signal.signal(signal.SIGALRM, on_alarm)
    signal.alarm(80)
    rng = random.Random(SEED)
    workdir = tempfile.mkdtemp(prefix="c14equiv_")
    try:
        _section_a(tad, rng, out, counter)
        _section_b(tad, random.Random(SEED + 1), out, counter)
        _section_c(tad, random.Random(SEED + 2), out, counter)
        _section_e(tad, out, counter)
        _section_d(tad, random.Random(SEED + 3), out, counter, root_dir, workdir)
        out.append(("END", "complete"))
    except BudgetExceeded as e:
        out.append(("END", "aborted " + str(e)[:40]))
    finally:
        signal.alarm(0)
        import shutil
        os.chdir("/")
        shutil.rmtree(workdir, ignore_errors=True)
    with open(result_path, "w") as fh:
        json.dump(out, fh)


# --------------------------------------------------------------------------- #
# driver side
# --------------------------------------------------------------------------- #

def main():
    if len(sys.argv) == 4 and sys.argv[1] == "--worker":
        worker(sys.argv[2], sys.argv[3])
        return 0
    if len(sys.argv) != 3:
        print(__doc__)
        return 2
    patched, clean = sys.argv[1], sys.argv[2]
    tmp = tempfile.mkdtemp(prefix="c14equiv_main_")
    procs = []
    env = dict(os.environ, PYTHONDONTWRITEBYTECODE="1", PYTHONHASHSEED="0")
    for tag, root in (("patched", patched), ("clean", clean)):
        res = os.path.join(tmp, tag + ".json")
        p = subprocess.Popen([sys.executable, os.path.abspath(__file__), "--worker", root, res],
                             env=env, cwd=tmp, stdout=subprocess.PIPE, stderr=subprocess.PIPE, text=True)
        procs.append((tag, p, res))
    results = {}
    failed = False
    for tag, p, res in procs:
        try:
            so, se = p.communicate(timeout=120)
        except subprocess.TimeoutExpired:
            p.kill()
            so, se = p.communicate()
            print("worker %s timed out" % tag)
            failed = True
        if p.returncode != 0 or not os.path.exists(res):
            print("worker %s failed (rc=%s)\n%s" % (tag, p.returncode, se[-3000:]))
            failed = True
            continue
        with open(res) as fh:
            results[tag] = json.load(fh)
    import shutil
    shutil.rmtree(tmp, ignore_errors=True)
    if failed:
        print("FAIL")
        return 1
    a, b = results["patched"], results["clean"]
    diffs = 0
    if len(a) != len(b):
        print("different number of observations: patched %d, clean %d" % (len(a), len(b)))
        diffs += 1
    for (la, va), (lb, vb) in zip(a, b):
        if la != lb or va != vb:
            diffs += 1
            if diffs <= 15:
                print("DIFF at %s / %s\n  patched: %s\n  clean  : %s" % (la, lb, va[:600], vb[:600]))
    if a[-1] != ["END", "complete"] or b[-1] != ["END", "complete"]:
        print("a worker did not complete: %s / %s" % (a[-1], b[-1]))
        diffs += 1
    kinds = {}
    for label, v in b:
        head = v.split(" ")[0]
        key = label.split("/")[0][:1] + ":" + (head if head in ("OK", "EXC", "BUDGET") else "state")
        kinds[key] = kinds.get(key, 0) + 1
    print("observations: %d  (%s)" % (len(b), ", ".join("%s=%d" % kv for kv in sorted(kinds.items()))))
    if diffs:
        print("FAIL (%d differences)" % diffs)
        return 1
    print("PASS")
    return 0


if __name__ == "__main__":
    sys.exit(main())
